"""Automatic mutation sweep over the functions a property's rules analyse.

Development / thorough-tier instrument: measures how discriminating the rules
are.  Every mutant is an in-memory single-point AST edit of one function that
the property's rules requested from the index (nothing is written to /repo,
nothing is executed).  A mutant is *killed* when the property's check reports
a violation, *broken* when the check answers ANALYSIS-ERROR, *survived*
otherwise.  Survivors are either behaviour-preserving for the property or
blind spots; they are listed for triage, they never fail a check.
"""

import ast
import concurrent.futures
import copy
import json
import os
import sys

sys.path.insert(0, os.path.dirname(os.path.dirname(os.path.abspath(__file__))))

from sa import core  # pylint: disable=g-import-not-at-top

_FLIP = {
    ast.Lt: ast.LtE, ast.LtE: ast.Lt, ast.Gt: ast.GtE, ast.GtE: ast.Gt,
    ast.Eq: ast.NotEq, ast.NotEq: ast.Eq, ast.Is: ast.IsNot, ast.IsNot: ast.Is,
    ast.In: ast.NotIn, ast.NotIn: ast.In,
}


def _func_node(tree, qualname):
  parts = qualname.split('.')
  node = tree
  for p in parts:
    nxt = None
    stack = list(ast.iter_child_nodes(node))
    while stack:
      c = stack.pop(0)
      if isinstance(c, (ast.FunctionDef, ast.ClassDef)) and c.name == p:
        nxt = c
        break
      if isinstance(c, (ast.If, ast.Try, ast.With, ast.For, ast.While)):
        stack.extend(ast.iter_child_nodes(c))
    if nxt is None:
      return None
    node = nxt
  return node if isinstance(node, ast.FunctionDef) else None


def _blocks(fn):
  """(owner, field, list) for every statement list inside fn (not nested
  defs)."""
  out = []
  stack = [fn]
  while stack:
    n = stack.pop()
    for field in ('body', 'orelse', 'finalbody'):
      blk = getattr(n, field, None)
      if isinstance(blk, list) and blk and isinstance(blk[0], ast.stmt):
        out.append((n, field, blk))
        for s in blk:
          if not isinstance(s, (ast.FunctionDef, ast.ClassDef)):
            stack.append(s)
    for h in getattr(n, 'handlers', []) or []:
      stack.append(h)
  return out


_NOISE_FUNCS = ('__init__', '__str__', '__repr__', '__attrs_post_init__')


def _is_noise_stmt(s):
  """Logging / docstring statements: mutating them cannot matter."""
  if isinstance(s, ast.Expr) and isinstance(s.value, ast.Constant):
    return True
  if isinstance(s, ast.Expr) and isinstance(s.value, ast.Call):
    d = core.call_name(s.value) or ''
    parts = d.split('.')
    if len(parts) >= 2 and parts[-1] in ('debug', 'info', 'warning', 'error',
                                         'exception', 'critical') and (
                                             'log' in d.lower()):
      return True
  return False


def enumerate_mutants(fn):
  """Yields (description, apply(fn_copy)) for a function node."""
  muts = []
  if fn.name in _NOISE_FUNCS:
    return muts
  nodes = list(core.walk_no_nested(fn))
  for i, n in enumerate(nodes):
    if isinstance(n, ast.Compare):
      for j, op in enumerate(n.ops):
        t = _FLIP.get(type(op))
        if t is not None:
          muts.append(('cmp-flip@%d:%d %s->%s' % (n.lineno, j,
                                                  type(op).__name__,
                                                  t.__name__),
                       ('cmp', i, j, t.__name__)))
    if isinstance(n, ast.BoolOp):
      muts.append(('boolop-swap@%d' % n.lineno, ('boolswap', i)))
      if len(n.values) >= 2:
        for j in range(len(n.values)):
          muts.append(('boolop-drop@%d:%d' % (n.lineno, j), ('booldrop', i, j)))
    if isinstance(n, (ast.If, ast.While)) and not (
        isinstance(n.test, ast.Constant)):
      muts.append(('negate-test@%d' % n.lineno, ('negate', i)))
    if isinstance(n, ast.Constant) and isinstance(n.value, bool):
      muts.append(('bool-const@%d' % n.lineno, ('boolconst', i)))
    if isinstance(n, ast.With):
      muts.append(('unwrap-with@%d' % n.lineno, ('unwith', i)))
    if isinstance(n, ast.Try) and n.finalbody:
      muts.append(('finally-to-normal@%d' % n.lineno, ('unfinally', i)))
    if isinstance(n, ast.Try) and n.handlers:
      muts.append(('drop-handlers@%d' % n.lineno, ('unhandle', i)))
    if isinstance(n, ast.UnaryOp) and isinstance(n.op, ast.Not):
      muts.append(('drop-not@%d' % n.lineno, ('dropnot', i)))
  for bi, (owner, field, blk) in enumerate(_blocks(fn)):
    for k, s in enumerate(blk):
      if _is_noise_stmt(s) or (k + 1 < len(blk) and _is_noise_stmt(blk[k + 1])):
        if _is_noise_stmt(s):
          continue
      if isinstance(s, (ast.Expr, ast.Assign, ast.AugAssign, ast.Raise,
                        ast.Return, ast.Continue, ast.Break, ast.Delete)) and \
          not (isinstance(s, ast.Expr) and isinstance(s.value, ast.Constant)):
        muts.append(('delete-stmt@%d %s' % (s.lineno, core.norm(s)[:40]),
                     ('delete', bi, k)))
      if k + 1 < len(blk) and not isinstance(
          s, (ast.FunctionDef, ast.ClassDef)) and not _is_noise_stmt(
              blk[k + 1]) and not _is_noise_stmt(s):
        muts.append(('swap-stmts@%d' % s.lineno, ('swap', bi, k)))
  return muts


def apply_mutant(fn, spec):
  kind = spec[0]
  nodes = list(core.walk_no_nested(fn))
  if kind == 'cmp':
    n = nodes[spec[1]]
    n.ops[spec[2]] = getattr(ast, spec[3])()
  elif kind == 'boolswap':
    n = nodes[spec[1]]
    n.op = ast.Or() if isinstance(n.op, ast.And) else ast.And()
  elif kind == 'booldrop':
    n = nodes[spec[1]]
    del n.values[spec[2]]
    if len(n.values) == 1:
      _replace(fn, n, n.values[0])
  elif kind == 'negate':
    n = nodes[spec[1]]
    n.test = ast.UnaryOp(op=ast.Not(), operand=n.test)
  elif kind == 'boolconst':
    n = nodes[spec[1]]
    n.value = not n.value
  elif kind == 'dropnot':
    n = nodes[spec[1]]
    _replace(fn, n, n.operand)
  elif kind == 'unwith':
    n = nodes[spec[1]]
    _replace_stmt(fn, n, list(n.body))
  elif kind == 'unfinally':
    n = nodes[spec[1]]
    fin = n.finalbody
    n.finalbody = []
    if n.handlers or n.orelse:
      _replace_stmt(fn, n, [n] + fin)
    else:
      _replace_stmt(fn, n, list(n.body) + fin)
  elif kind == 'unhandle':
    n = nodes[spec[1]]
    n.handlers = []
    n.orelse = []
    if not n.finalbody:
      _replace_stmt(fn, n, list(n.body))
  elif kind == 'delete':
    owner, field, blk = _blocks(fn)[spec[1]]
    blk[spec[2]] = ast.Pass()
  elif kind == 'swap':
    owner, field, blk = _blocks(fn)[spec[1]]
    k = spec[2]
    blk[k], blk[k + 1] = blk[k + 1], blk[k]
  ast.fix_missing_locations(fn)


def _replace(root, old, new):
  for parent in ast.walk(root):
    for field, val in ast.iter_fields(parent):
      if val is old:
        setattr(parent, field, new)
        return
      if isinstance(val, list):
        for i, x in enumerate(val):
          if x is old:
            val[i] = new
            return


def _replace_stmt(root, old, new_list):
  for parent in ast.walk(root):
    for field, val in ast.iter_fields(parent):
      if isinstance(val, list):
        for i, x in enumerate(val):
          if x is old:
            val[i:i + 1] = new_list
            return


def analysed_functions(prop):
  """(relpath, qualname) of every function the property's rules requested."""
  from sa import check  # pylint: disable=g-import-not-at-top
  accessed = []
  orig = core.Repo.func

  def spy(self, relpath, qualname, which=0):
    accessed.append((relpath, qualname))
    return orig(self, relpath, qualname, which)

  core.Repo.func = spy
  try:
    _, rep = check.run_property(prop, 'quick', write=False)
  finally:
    core.Repo.func = orig
  base = [(v['rule'], v['key']) for v in rep.violations]
  seen, out = set(), []
  for a in accessed:
    if a not in seen:
      seen.add(a)
      out.append(a)
  return out, base


def mutant_source(rel, qual, spec):
  """Source text of the mutated module (None if the function vanished)."""
  with open(os.path.join(core.REPO_DIR, rel), encoding='utf-8') as f:
    src = f.read()
  tree = ast.parse(src)
  fn = _func_node(tree, qual)
  if fn is None:
    return None
  apply_mutant(fn, tuple(spec))
  return ast.unparse(tree)


def _run_mutant(args):
  prop, rel, qual, desc, spec, baseline = args
  from sa import check  # pylint: disable=g-import-not-at-top
  with open(os.path.join(core.REPO_DIR, rel), encoding='utf-8') as f:
    src = f.read()
  tree = ast.parse(src)
  fn = _func_node(tree, qual)
  if fn is None:
    return desc, 'skip', '', rel, qual, spec
  try:
    apply_mutant(fn, spec)
    new = ast.unparse(tree)
    compile(new, rel, 'exec')
  except Exception as e:  # pylint: disable=broad-except
    return desc, 'skip', 'invalid mutant: %s' % e, rel, qual, spec
  try:
    _, rep = check.run_property(prop, 'quick', write=False,
                                overrides={rel: new})
  except core.AnalysisError as e:
    return desc, 'broken', str(e)[:120], rel, qual, spec
  except Exception as e:  # pylint: disable=broad-except
    return desc, 'broken', 'internal: %r' % e, rel, qual, spec
  new_v = [v for v in rep.violations if (v['rule'], v['key']) not in baseline]
  if not new_v and rep.analysis_errors:
    return desc, 'broken', rep.analysis_errors[0][:120], rel, qual, spec
  if new_v:
    return (desc, 'killed', ','.join(sorted(set(v['rule'] for v in new_v))),
            rel, qual, spec)
  return desc, 'survived', '', rel, qual, spec


def sweep(prop, jobs=None, limit=None):
  funcs, base = analysed_functions(prop)
  tasks = []
  for rel, qual in funcs:
    path = os.path.join(core.REPO_DIR, rel)
    with open(path, encoding='utf-8') as f:
      tree = ast.parse(f.read())
    fn = _func_node(tree, qual)
    if fn is None:
      continue
    for desc, spec in enumerate_mutants(fn):
      tasks.append((prop, rel, qual, '%s::%s %s' % (rel.split('/')[-1], qual,
                                                    desc), spec, tuple(base)))
  total_mutants = len(tasks)
  if limit and len(tasks) > limit:
    # deterministic spread over all analysed functions
    step = len(tasks) / float(limit)
    seed = int(os.environ.get('VERIF_SEED', '0') or 0)
    tasks = [tasks[int((i * step + seed) % len(tasks))] for i in range(limit)]
  jobs = jobs or min(16, os.cpu_count() or 4)
  res = []
  with concurrent.futures.ProcessPoolExecutor(max_workers=jobs) as ex:
    for r in ex.map(_run_mutant, tasks, chunksize=4):
      res.append(r)
  out = {
      'functions': len(funcs),
      'mutants_enumerated': total_mutants,
      'mutants': len(res),
      'killed': sum(1 for r in res if r[1] == 'killed'),
      'broken_analysis': sum(1 for r in res if r[1] == 'broken'),
      'survived': sum(1 for r in res if r[1] == 'survived'),
      'skipped': sum(1 for r in res if r[1] == 'skip'),
  }
  return out, res


if __name__ == '__main__':
  for p in sys.argv[1:]:
    summary, res = sweep(p)
    print(p, json.dumps(summary))
    os.makedirs('/tmp/sa_mutants', exist_ok=True)
    with open('/tmp/sa_mutants/%s.txt' % p, 'w') as f:
      for r in res:
        f.write('%s\t%s\t%s\n' % (r[1], r[0], r[2]))
    with open('/tmp/sa_mutants/%s.json' % p, 'w') as f:
      json.dump([{'desc': r[0], 'status': r[1], 'info': r[2], 'rel': r[3],
                  'qual': r[4], 'spec': list(r[5])} for r in res], f)
