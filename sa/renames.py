"""Undoing renames of private attributes and private methods before analysis.

The rules name the attributes and helper methods of the classes they are
about (`self._abort`, `_phase_execution_outcome`, `_is_thread_proc_running`
...).  A maintainer may rename such a private name consistently without
changing behaviour.  `sa/reference.json` (written by tools/gen_anchors.py from
the tree the rules were confirmed on) records, for every class, a *usage
fingerprint* of each private attribute - in which methods it is stored, in
which it is read, which methods are called on it - and for every private
function a hash of its body.  When a referenced private name is missing from
the current tree and exactly one new private name of the same class / module
has the same fingerprint, the new name is mapped back to the reference name in
the syntax trees the rules read.  Anything else (no or several candidates) is
left alone: the rule then reports the missing construct.
"""

import ast
import hashlib
import json
import os

_REF = None


def _private(name):
  return name.startswith('_') and not name.startswith('__')


def class_fingerprints(cls):
  """{attr: fingerprint} for private attributes accessed through self."""
  stores, loads, ops = {}, {}, {}
  for m in cls.body:
    if not isinstance(m, (ast.FunctionDef, ast.AsyncFunctionDef)):
      continue
    for n in ast.walk(m):
      if isinstance(n, ast.Attribute) and isinstance(n.value, ast.Name) and \
          n.value.id == 'self' and _private(n.attr):
        d = stores if isinstance(n.ctx, (ast.Store, ast.Del)) else loads
        d.setdefault(n.attr, set()).add(m.name)
      if isinstance(n, ast.Call) and isinstance(n.func, ast.Attribute) and \
          isinstance(n.func.value, ast.Attribute) and isinstance(
              n.func.value.value, ast.Name) and \
          n.func.value.value.id == 'self' and _private(n.func.value.attr):
        ops.setdefault(n.func.value.attr, set()).add(n.func.attr)
      if isinstance(n, ast.With):
        for i in n.items:
          e = i.context_expr
          if isinstance(e, ast.Attribute) and isinstance(e.value, ast.Name) \
              and e.value.id == 'self' and _private(e.attr):
            ops.setdefault(e.attr, set()).add('<with>')
  out = {}
  methods = {m.name for m in cls.body
             if isinstance(m, (ast.FunctionDef, ast.AsyncFunctionDef))}
  for a in set(stores) | set(loads):
    if a in methods:
      continue  # methods are matched by their bodies, not as attributes
    out[a] = [sorted(stores.get(a, ())), sorted(loads.get(a, ())),
              sorted(ops.get(a, ()))]
  return out


class _Anon(ast.NodeTransformer):
  """Body text independent of the function's own name and of private
  attribute / method names (those may be renamed together)."""

  def visit_Attribute(self, n):
    self.generic_visit(n)
    if _private(n.attr):
      return ast.copy_location(ast.Attribute(value=n.value, attr='_P',
                                             ctx=n.ctx), n)
    return n


def body_hash(fn):
  import copy  # pylint: disable=g-import-not-at-top
  body = [s for s in fn.body if not (isinstance(s, ast.Expr) and isinstance(
      s.value, ast.Constant) and isinstance(s.value.value, str))]
  mod = ast.Module(body=copy.deepcopy(body), type_ignores=[])
  mod = _Anon().visit(mod)
  args = [a.arg for a in fn.args.args + fn.args.kwonlyargs]
  txt = ast.dump(mod) + '|' + ','.join(args)
  return hashlib.sha1(txt.encode('utf-8')).hexdigest()[:16]


def describe(trees):
  """Reference description of a set of parsed modules {relpath: tree}."""
  ref = {'classes': {}, 'functions': {}, 'constants': {}}
  for rel, tree in trees.items():
    ref['constants'][rel] = sorted(
        t.id for st in tree.body if isinstance(st, (ast.Assign, ast.AnnAssign))
        for t in (st.targets if isinstance(st, ast.Assign) else [st.target])
        if isinstance(t, ast.Name))
    for st in tree.body:
      if isinstance(st, ast.ClassDef):
        ref['classes']['%s::%s' % (rel, st.name)] = class_fingerprints(st)
        for m in st.body:
          if isinstance(m, ast.FunctionDef) and _private(m.name):
            ref['functions']['%s::%s.%s' % (rel, st.name, m.name)] = \
                body_hash(m)
      elif isinstance(st, ast.FunctionDef) and _private(st.name):
        ref['functions']['%s::%s' % (rel, st.name)] = body_hash(st)
  return ref


def load_reference():
  global _REF  # pylint: disable=global-statement
  if _REF is None:
    path = os.path.join(os.path.dirname(os.path.abspath(__file__)),
                        'reference.json')
    try:
      with open(path, encoding='utf-8') as f:
        _REF = json.load(f)
    except (OSError, ValueError):
      _REF = {'classes': {}, 'functions': {}}
  return _REF


def detect(trees, ref=None):
  """-> ({new attr: old attr}, {new function name: old function name}, log)"""
  ref = ref if ref is not None else load_reference()
  cur = describe(trees)
  attr_map, fn_map, log = {}, {}, []
  all_attrs_now = set()
  for tree in trees.values():
    for n in ast.walk(tree):
      if isinstance(n, ast.Attribute):
        all_attrs_now.add(n.attr)
      elif isinstance(n, ast.FunctionDef):
        all_attrs_now.add(n.name)
  for key, rfp in ref['classes'].items():
    cfp = cur['classes'].get(key)
    if cfp is None:
      continue
    missing = [a for a in rfp if a not in cfp]
    new = [a for a in cfp if a not in rfp]
    for m in missing:
      if m in all_attrs_now:
        continue
      cands = [n for n in new if cfp[n] == rfp[m] and n not in attr_map]
      if len(cands) == 1:
        attr_map[cands[0]] = m
        log.append('%s: private attribute %s read as %s (renamed)' % (
            key, cands[0], m))
  # functions: same container (class or module), same body, new name
  by_container_ref, by_container_cur = {}, {}
  for k, h in ref['functions'].items():
    by_container_ref.setdefault(k.rsplit('.', 1)[0] if '.' in k.split(
        '::')[1] else k.split('::')[0] + '::', {})[k] = h
  for k, h in cur['functions'].items():
    by_container_cur.setdefault(k.rsplit('.', 1)[0] if '.' in k.split(
        '::')[1] else k.split('::')[0] + '::', {})[k] = h
  for cont, rf in by_container_ref.items():
    cf = by_container_cur.get(cont, {})
    missing = [k for k in rf if k not in cf]
    new = [k for k in cf if k not in rf]
    for m in missing:
      mname = m.rsplit('.', 1)[-1] if '.' in m.split('::')[1] else \
          m.split('::')[1]
      if mname in all_attrs_now:
        continue
      cands = [k for k in new if cf[k] == rf[m]]
      if len(cands) == 1:
        nname = cands[0].rsplit('.', 1)[-1] if '.' in cands[0].split(
            '::')[1] else cands[0].split('::')[1]
        if nname not in fn_map:
          fn_map[nname] = mname
          log.append('%s: private function %s read as %s (renamed)' % (
              cont, nname, mname))
  return attr_map, fn_map, log


def apply(trees, attr_map, fn_map):
  if not attr_map and not fn_map:
    return
  both = dict(attr_map)
  both.update(fn_map)
  for tree in trees.values():
    for n in ast.walk(tree):
      if isinstance(n, ast.Attribute) and n.attr in both:
        n.attr = both[n.attr]
      elif isinstance(n, ast.FunctionDef) and n.name in fn_map:
        n.name = fn_map[n.name]
      elif isinstance(n, ast.Name) and n.id in fn_map:
        n.id = fn_map[n.id]
