#!/venv/bin/python
"""CLI: sa/check.py <property id> [--tier quick|thorough] | --replay <path>.

Exit 0: every obligation discharged on /repo's current tree (known findings are
printed as KNOWN-FINDING lines).  Exit 1: a violation not listed in
known_findings.json (prints VIOLATION property=<id> replay=<path>).  Exit 2:
the analysis itself is broken (ANALYSIS-ERROR ...), never a property verdict.
"""

import argparse
import importlib
import json
import os
import sys
import traceback

sys.path.insert(0, os.path.dirname(os.path.dirname(os.path.abspath(__file__))))

from sa import core  # pylint: disable=g-import-not-at-top


def run_property(prop, tier, root=None, quiet=False, write=True,
                 overrides=None):
  """Runs all rules of a property; returns (exit_code, report)."""
  mod = importlib.import_module('sa.rules.%s' % prop.lower())
  repo = core.Repo(root, overrides)
  report = core.Report(prop, tier, repo)
  mod.run(report, repo)
  from sa import lib  # pylint: disable=g-import-not-at-top
  report.guard(lib.check_no_dead_code, report, repo, prop + '-DEAD')
  if not write:
    return None, report
  if tier == 'thorough':
    from sa import selftest  # pylint: disable=g-import-not-at-top
    report.selftest = selftest.run_for(
        prop, baseline=[(v['rule'], v['key']) for v in report.violations])
    try:
      from sa import mutants  # pylint: disable=g-import-not-at-top
      summary, res = mutants.sweep(prop, limit=int(os.environ.get(
          'VERIF_MUTANT_LIMIT', '160')))
      summary['note'] = (
          'automatic single-point AST mutants of the functions the rules '
          'analysed (in memory, nothing executed); killed = reported as a '
          'violation, broken_analysis = answered ANALYSIS-ERROR, survived = '
          'not reported (behaviour-preserving for this property, or a blind '
          'spot); informational, never fails the check')
      summary['survivor_samples'] = [r[0] for r in res
                                     if r[1] == 'survived'][:15]
      report.selftest = dict(report.selftest or {}, mutation_sweep=summary)
    except Exception as e:  # pylint: disable=broad-except
      report.selftest = dict(report.selftest or {},
                             mutation_sweep={'error': repr(e)})
    try:
      from sa import equiv  # pylint: disable=g-import-not-at-top
      summary, res = equiv.sweep(prop, limit=int(os.environ.get(
          'VERIF_EQUIV_LIMIT', '200')))
      summary['note'] = (
          'behaviour-preserving single-point rewrites of the functions the '
          'rules analysed (local renamed, if/else swapped under `not`, return '
          'via a temporary, conditional expression expanded, `with` items '
          'nested, `and` guard nested, no-op / logging statement inserted, '
          'annotation added, comparison flipped, guard clause, De Morgan); '
          'silent = not reported, alarms = reported although behaviour is '
          'unchanged (a brittle rule: defect of the checker); informational')
      summary['alarm_samples'] = ['%s -> %s' % (r[0], r[2]) for r in res
                                  if r[1] == 'alarm'][:15]
      report.selftest = dict(report.selftest or {}, equivalence_sweep=summary)
      for a in summary['alarm_samples']:
        print('SELFTEST-NOTE property=%s brittle rule on a behaviour-'
              'preserving rewrite: %s' % (prop, a))
    except Exception as e:  # pylint: disable=broad-except
      report.selftest = dict(report.selftest or {},
                             equivalence_sweep={'error': repr(e)})
  code = core.finish(report, mod.DECIDES, mod.DOES_NOT_DECIDE)
  return code, report


def main(argv=None):
  ap = argparse.ArgumentParser()
  ap.add_argument('prop', nargs='?')
  ap.add_argument('--tier', default=os.environ.get('VERIF_TIER', 'quick'))
  ap.add_argument('--replay')
  ap.add_argument('--root')
  args = ap.parse_args(argv)
  tier = args.tier if args.tier in ('quick', 'thorough') else 'quick'
  prop = args.prop
  try:
    if args.replay:
      with open(args.replay) as f:
        rp = json.load(f)
      prop = rp['property']
      _, report = run_property(prop, tier, args.root, write=False)
      hit = [v for v in report.violations
             if v['rule'] == rp['rule'] and v['key'] == rp['key']]
      if hit:
        print('  %s %s at %s: %s' % (hit[0]['rule'], hit[0]['key'],
                                     hit[0]['site'], hit[0]['detail']))
        print('VIOLATION property=%s replay=%s' % (prop, args.replay))
        return core.EXIT_VIOLATION
      print('replayed obligation %s %s holds on the current tree' %
            (rp['rule'], rp['key']))
      return core.EXIT_OK
    if not prop:
      ap.error('property id required')
    code, _ = run_property(prop, tier, args.root)
    return code
  except core.AnalysisError as e:
    print('ANALYSIS-ERROR property=%s %s' % (prop, e))
    return core.EXIT_BROKEN
  except Exception:  # pylint: disable=broad-except
    traceback.print_exc()
    print('ANALYSIS-ERROR property=%s internal exception (see traceback)' % prop)
    return core.EXIT_BROKEN


if __name__ == '__main__':
  sys.exit(main())
