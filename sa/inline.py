"""Inlining of small same-class / same-module helpers, at the syntax-tree level.

Why: the rules are phrased over named entry points (the functions the
properties are anchored in).  "Extract method" moves part of such a function
into a new private helper without changing behaviour; a per-function rule
would then report the moved construct as missing.  Before any rule looks at a
module, every call to a helper that is

  * a method of the same class called through self./cls./ClassName., or a
    module-level function of the same module called by its bare name,
  * not one of the functions the rules themselves are anchored in
    (sa/anchors.json: those must stay visible under their own name),
  * small, not a generator, not recursive, without *args/**kwargs, decorators
    (other than staticmethod/classmethod), nested defs, global/nonlocal, and
    not overridden anywhere in the repository,

is replaced by the helper's body: parameters are substituted (plain names /
attribute chains / constants) or bound to fresh locals, colliding locals are
renamed, and `return` is turned into structured control flow (tail calls keep
their returns; otherwise `if c: return x` pushes the rest of the body into
the else branch).  Helpers whose returns cannot be removed structurally (a
return inside a loop of a non-tail call) are left alone.  A private helper
all of whose call sites were inlined, and which is referenced nowhere else in
the repository, is dropped from the module, so that who-may-write rules see
its effects where they happen.

This is a transformation of what the analysis reads, never of /repo.
"""

import ast
import copy

MAX_STMTS = 60
MAX_DEPTH = 3


class NotInlinable(Exception):
  pass


def _fast_copy(node):
  """Structural copy of a syntax tree (much cheaper than copy.deepcopy)."""
  if isinstance(node, list):
    return [_fast_copy(x) for x in node]
  if isinstance(node, ast.AST):
    new = node.__class__()
    for f in node._fields:
      if hasattr(node, f):
        setattr(new, f, _fast_copy(getattr(node, f)))
    for a in node._attributes:
      if hasattr(node, a):
        setattr(new, a, getattr(node, a))
    return new
  return node


def _count_stmts(fn):
  return sum(1 for n in ast.walk(fn) if isinstance(n, ast.stmt)) - 1


def _is_docstring(st):
  return isinstance(st, ast.Expr) and isinstance(st.value, ast.Constant) and \
      isinstance(st.value.value, str)


def _is_cm(fn):
  return any((isinstance(d, ast.Attribute) and d.attr == 'contextmanager') or
             (isinstance(d, ast.Name) and d.id == 'contextmanager')
             for d in fn.decorator_list)


def _cm_ok(fn):
  """A @contextmanager helper with exactly one `yield` statement that is not
  inside a loop: `with helper(): BODY` is its body with BODY at the yield."""
  a = fn.args
  if a.vararg or a.kwarg or a.posonlyargs or len(fn.decorator_list) != 1:
    return False
  if not fn.name.startswith('_') or fn.name.startswith('__'):
    return False
  ys = [n for n in ast.walk(fn) if isinstance(n, (ast.Yield, ast.YieldFrom))]
  if len(ys) != 1 or isinstance(ys[0], ast.YieldFrom):
    return False
  for n in ast.walk(fn):
    if n is fn:
      continue
    if isinstance(n, (ast.FunctionDef, ast.AsyncFunctionDef, ast.ClassDef,
                      ast.Await, ast.Global, ast.Nonlocal, ast.Return)):
      return False
    if isinstance(n, (ast.For, ast.While)) and any(
        x is ys[0] for x in ast.walk(n)):
      return False
  # the yield must be a statement of its own
  return any(isinstance(s, ast.Expr) and s.value is ys[0]
             for s in ast.walk(fn) if isinstance(s, ast.stmt))


def _gen_ok(fn):
  """A private generator helper with exactly one `yield E` statement, outside
  any try / with: `for x in helper(): BODY` is its body with `x = E; BODY` at
  the yield."""
  a = fn.args
  if a.vararg or a.kwarg or a.posonlyargs:
    return False
  if not fn.name.startswith('_') or fn.name.startswith('__'):
    return False
  for d in fn.decorator_list:
    if not (isinstance(d, ast.Name) and d.id in ('staticmethod',
                                                 'classmethod')):
      return False
  for d in list(a.defaults) + [x for x in a.kw_defaults if x is not None]:
    if not isinstance(d, ast.Constant):
      return False
  ys = [n for n in ast.walk(fn) if isinstance(n, (ast.Yield, ast.YieldFrom))]
  if len(ys) != 1 or isinstance(ys[0], ast.YieldFrom) or ys[0].value is None:
    return False
  if _count_stmts(fn) > MAX_STMTS:
    return False
  for n in ast.walk(fn):
    if n is fn:
      continue
    if isinstance(n, (ast.FunctionDef, ast.AsyncFunctionDef, ast.ClassDef,
                      ast.Await, ast.Global, ast.Nonlocal, ast.Return,
                      ast.Lambda)):
      return False
    if isinstance(n, (ast.Try, ast.With)) and any(
        x is ys[0] for x in ast.walk(n)):
      return False  # the consumer's exceptions would meet the helper's handlers
  return any(isinstance(s, ast.Expr) and s.value is ys[0]
             for s in ast.walk(fn) if isinstance(s, ast.stmt))


def _callee_ok(fn, private_only=True):
  a = fn.args
  if a.kwarg or a.posonlyargs:
    return False
  if a.vararg is not None and any(
      isinstance(n, ast.Name) and n.id == a.vararg.arg and
      not isinstance(n.ctx, ast.Load) for n in ast.walk(fn)):
    return False  # the *args tuple is rebound
  # a default is evaluated once, when the function is defined: only constant
  # defaults may be re-evaluated at the call site
  for d in list(a.defaults) + [x for x in a.kw_defaults if x is not None]:
    if not all(isinstance(x, (ast.Constant, ast.Name, ast.Attribute, ast.Load,
                              ast.UnaryOp, ast.USub, ast.Tuple))
               for x in ast.walk(d)):
      return False
  for d in fn.decorator_list:
    if not (isinstance(d, ast.Name) and d.id in ('staticmethod',
                                                 'classmethod')):
      return False
  if private_only and (not fn.name.startswith('_') or
                       fn.name.startswith('__')):
    return False  # only private helpers (the product of "extract method")
  if _count_stmts(fn) > MAX_STMTS:
    return False
  for n in ast.walk(fn):
    if n is fn:
      continue
    if isinstance(n, (ast.FunctionDef, ast.AsyncFunctionDef, ast.ClassDef,
                      ast.Yield, ast.YieldFrom, ast.Await, ast.Global,
                      ast.Nonlocal)):
      return False
    if isinstance(n, ast.Call) and isinstance(n.func, ast.Name) and \
        n.func.id in ('super', 'locals', 'vars'):
      return False
  return True


def _kind(fn):
  for d in fn.decorator_list:
    if isinstance(d, ast.Name) and d.id == 'staticmethod':
      return 'static'
    if isinstance(d, ast.Name) and d.id == 'classmethod':
      return 'class'
  return 'instance'


def _stores(fn_or_stmts):
  out = set()
  nodes = fn_or_stmts if isinstance(fn_or_stmts, list) else [fn_or_stmts]
  for root in nodes:
    for n in ast.walk(root):
      if isinstance(n, ast.Name) and isinstance(n.ctx, (ast.Store, ast.Del)):
        out.add(n.id)
      elif isinstance(n, ast.ExceptHandler) and n.name:
        out.add(n.name)
      elif isinstance(n, (ast.Import, ast.ImportFrom)):
        for al in n.names:
          out.add((al.asname or al.name).split('.')[0])
  return out


def _all_names(fn):
  out = set()
  for n in ast.walk(fn):
    if isinstance(n, ast.Name):
      out.add(n.id)
    elif isinstance(n, ast.arg):
      out.add(n.arg)
    elif isinstance(n, ast.ExceptHandler) and n.name:
      out.add(n.name)
  return out


def _attr_stores(stmts):
  out = set()
  for root in stmts:
    for n in ast.walk(root):
      if isinstance(n, ast.Attribute) and isinstance(n.ctx, (ast.Store,
                                                            ast.Del)):
        out.add(n.attr)
  return out


def _simple(e):
  if isinstance(e, (ast.Name, ast.Constant)):
    return True
  if isinstance(e, ast.Attribute):
    return _simple(e.value)
  return False


def _contains_return(st):
  for n in ast.walk(st):
    if isinstance(n, ast.Return):
      return True
  return False


_FLAGS = []
_FLAG_COUNTER = [0]


def _elim_returns(stmts, ret):
  """Return-free version of stmts; (new statements, all paths returned)."""
  out = []
  for i, st in enumerate(stmts):
    if isinstance(st, ast.Return):
      for fl in _FLAGS:
        out.append(ast.copy_location(ast.Assign(
            targets=[ast.Name(id=fl, ctx=ast.Store())],
            value=ast.Constant(value=True)), st))
      if ret is not None:
        val = st.value if st.value is not None else ast.Constant(value=None)
        out.append(ast.copy_location(ast.Assign(
            targets=[ast.Name(id=ret, ctx=ast.Store())], value=val), st))
      elif st.value is not None and not isinstance(
          st.value, (ast.Name, ast.Constant)):
        # value unused at the call site but its evaluation may matter
        out.append(ast.copy_location(ast.Expr(value=st.value), st))
      return out, True
    if isinstance(st, ast.Raise):
      out.append(st)
      return out, True
    if not _contains_return(st):
      out.append(st)
      continue
    rest = stmts[i + 1:]
    if isinstance(st, ast.If):
      body, bt = _elim_returns(st.body, ret)
      orelse, ot = _elim_returns(st.orelse, ret)
      if bt and ot:
        new = ast.copy_location(ast.If(test=st.test, body=body or [ast.Pass()],
                                       orelse=orelse), st)
        out.append(new)
        return out, True
      if bt:
        r, rt = _elim_returns(st.orelse + rest, ret)
        out.append(ast.copy_location(ast.If(
            test=st.test, body=body or [ast.Pass()], orelse=r), st))
        return out, rt
      if ot:
        r, rt = _elim_returns(st.body + rest, ret)
        out.append(ast.copy_location(ast.If(
            test=st.test, body=r or [ast.Pass()], orelse=orelse), st))
        return out, rt
      b2, bt2 = _elim_returns(st.body + _fast_copy(rest), ret)
      o2, ot2 = _elim_returns(st.orelse + rest, ret)
      out.append(ast.copy_location(ast.If(
          test=st.test, body=b2 or [ast.Pass()], orelse=o2), st))
      return out, bt2 and ot2
    if isinstance(st, ast.With) and not rest:
      body, bt = _elim_returns(st.body, ret)
      out.append(ast.copy_location(ast.With(items=st.items,
                                            body=body or [ast.Pass()]), st))
      return out, bt
    if isinstance(st, ast.Try) and not rest and not any(
        _contains_return(x) for x in st.finalbody):
      body, bt = _elim_returns(st.body, ret)
      hs = []
      handlers_t = True
      for h in st.handlers:
        hb, ht = _elim_returns(h.body, ret)
        handlers_t = handlers_t and ht
        hs.append(ast.copy_location(ast.ExceptHandler(
            type=h.type, name=h.name, body=hb or [ast.Pass()]), h))
      ob, ot = _elim_returns(st.orelse, ret) if st.orelse else ([], False)
      allt = (bt or ot) and handlers_t
      out.append(ast.copy_location(ast.Try(
          body=body or [ast.Pass()], handlers=hs, orelse=ob,
          finalbody=st.finalbody), st))
      return out, allt
    if isinstance(st, ast.Try) and rest and not st.finalbody and not any(
        _contains_return(x) for x in st.body):
      # handlers return, the protected body does not: what follows the try
      # moves into its else clause (runs only when no handler ran, and is not
      # protected by the handlers - as before)
      hs = []
      handlers_t = True
      for h in st.handlers:
        hb, ht = _elim_returns(h.body, ret)
        handlers_t = handlers_t and ht
        hs.append(ast.copy_location(ast.ExceptHandler(
            type=h.type, name=h.name, body=hb or [ast.Pass()]), h))
      ob, ot = _elim_returns(list(st.orelse) + rest, ret)
      out.append(ast.copy_location(ast.Try(
          body=st.body, handlers=hs, orelse=ob, finalbody=[]), st))
      return out, handlers_t and ot
    if isinstance(st, ast.Try) and rest and not st.finalbody and \
        not st.orelse and st.handlers:
      # the protected body always returns: what follows the try runs only
      # after a handler, so it moves to the end of every handler (it is not
      # protected by the handlers there either)
      body, bt = _elim_returns(st.body, ret)
      if bt:
        hs = []
        allt = True
        for h in st.handlers:
          hb, ht = _elim_returns(list(h.body) + _fast_copy(rest), ret)
          allt = allt and ht
          hs.append(ast.copy_location(ast.ExceptHandler(
              type=h.type, name=h.name, body=hb or [ast.Pass()]), h))
        out.append(ast.copy_location(ast.Try(
            body=body, handlers=hs, orelse=[], finalbody=[]), st))
        return out, allt
    if isinstance(st, (ast.For, ast.While)) and not st.orelse and not any(
        isinstance(x, ast.Break) for x in _walk_same_loop(st.body)):
      # `for ...: if c: return X` + rest  ->  `for ...: if c: ret = X; break`
      # with the rest moved into the loop's else clause
      body = _returns_to_breaks(st.body, ret)
      r, rt = _elim_returns(rest, ret)
      new = _fast_copy(st)
      new.body = body
      new.orelse = r
      out.append(new)
      return out, rt
    if isinstance(st, ast.With) and rest:
      # `with L: if c: return X; A` + rest: a flag remembers that the block
      # returned; the rest runs (outside the with) only when it did not
      _FLAG_COUNTER[0] += 1
      flag = 'returned_inl_flag%d' % _FLAG_COUNTER[0]
      _FLAGS.append(flag)
      try:
        body, bt = _elim_returns(st.body, ret)
      finally:
        _FLAGS.pop()
      out.append(ast.copy_location(ast.Assign(
          targets=[ast.Name(id=flag, ctx=ast.Store())],
          value=ast.Constant(value=False)), st))
      out.append(ast.copy_location(ast.With(items=st.items,
                                            body=body or [ast.Pass()]), st))
      if bt:
        return out, True
      r, rt = _elim_returns(rest, ret)
      out.append(ast.copy_location(ast.If(
          test=ast.UnaryOp(op=ast.Not(), operand=ast.Name(id=flag,
                                                          ctx=ast.Load())),
          body=r or [ast.Pass()], orelse=[]), st))
      return out, rt
    raise NotInlinable('return inside %s' % type(st).__name__)
  return out, False


def _walk_same_loop(stmts):
  """Statements of a loop body that belong to that loop (nested loops and
  defs excluded)."""
  stack = list(stmts)
  while stack:
    s = stack.pop()
    yield s
    if isinstance(s, (ast.For, ast.While, ast.FunctionDef, ast.AsyncFunctionDef,
                      ast.ClassDef)):
      if any(isinstance(x, ast.Return) for x in ast.walk(s)) and isinstance(
          s, (ast.For, ast.While)):
        raise NotInlinable('return inside a nested loop')
      continue
    for field in ('body', 'orelse', 'finalbody'):
      b = getattr(s, field, None)
      if isinstance(b, list):
        stack.extend(x for x in b if isinstance(x, ast.stmt))
    for h in getattr(s, 'handlers', None) or []:
      stack.extend(h.body)


def _returns_to_breaks(stmts, ret):
  out = []
  for st in stmts:
    if isinstance(st, ast.Return):
      if ret is not None:
        val = st.value if st.value is not None else ast.Constant(value=None)
        out.append(ast.copy_location(ast.Assign(
            targets=[ast.Name(id=ret, ctx=ast.Store())], value=val), st))
      elif st.value is not None and not isinstance(
          st.value, (ast.Name, ast.Constant)):
        out.append(ast.copy_location(ast.Expr(value=st.value), st))
      out.append(ast.copy_location(ast.Break(), st))
      return out  # the rest of this block is unreachable
    if isinstance(st, (ast.For, ast.While, ast.FunctionDef,
                       ast.AsyncFunctionDef, ast.ClassDef)) or \
        not _contains_return(st):
      out.append(st)
      continue
    new = _fast_copy(st)
    for field in ('body', 'orelse', 'finalbody'):
      b = getattr(new, field, None)
      if isinstance(b, list) and b and isinstance(b[0], ast.stmt):
        setattr(new, field, _returns_to_breaks(b, ret))
    for h in getattr(new, 'handlers', None) or []:
      h.body = _returns_to_breaks(h.body, ret)
    out.append(new)
  return out


class _Subst(ast.NodeTransformer):

  def __init__(self, mapping, rename):
    self.mapping = mapping  # param name -> expr
    self.rename = rename  # local name -> new name

  def visit_Name(self, n):
    if isinstance(n.ctx, ast.Load) and n.id in self.mapping:
      return ast.copy_location(_fast_copy(self.mapping[n.id]), n)
    if n.id in self.rename:
      return ast.copy_location(ast.Name(id=self.rename[n.id], ctx=n.ctx), n)
    return n

  def visit_ExceptHandler(self, n):
    self.generic_visit(n)
    if n.name in self.rename:
      n.name = self.rename[n.name]
    return n


def _first_eval_position(st, call):
  """True if `call` is evaluated before anything else non-trivial in st and
  unconditionally (so hoisting its body in front of st preserves order)."""
  from sa import core  # pylint: disable=g-import-not-at-top
  e = core._first_use_expr(st)  # pylint: disable=protected-access
  if e is None:
    return False
  order = core._eval_order(e)  # pylint: disable=protected-access
  inner = set(id(x) for x in ast.walk(call))
  for n in order:
    if n is call:
      break
    if id(n) in inner:
      continue
    if isinstance(n, (ast.Name, ast.Constant)):
      continue
    if isinstance(n, ast.Attribute) and isinstance(n.ctx, ast.Load):
      continue
    return False
  else:
    return False
  parent_of = {}
  for p in ast.walk(e):
    for c in ast.iter_child_nodes(p):
      parent_of[id(c)] = p
  cur = call
  while id(cur) in parent_of:
    p = parent_of[id(cur)]
    if isinstance(p, ast.BoolOp) and p.values[0] is not cur:
      return False
    if isinstance(p, ast.IfExp) and p.test is not cur:
      return False
    if isinstance(p, (ast.Lambda, ast.GeneratorExp, ast.ListComp, ast.SetComp,
                      ast.DictComp)):
      return False
    cur = p
  return True


def _replace_expr(root, old, new):
  for parent in ast.walk(root):
    for field, val in ast.iter_fields(parent):
      if val is old:
        setattr(parent, field, new)
        return True
      if isinstance(val, list):
        for i, x in enumerate(val):
          if x is old:
            val[i] = new
            return True
  return False


class Inliner(object):

  def __init__(self, tree, relpath, anchors, foreign_text):
    self.tree = tree
    self.relpath = relpath
    self.anchors = anchors
    self.foreign_text = foreign_text  # callable(name) -> referenced elsewhere?
    self.module_funcs = {}
    self.class_methods = {}  # class name -> {method name: fn}
    self.method_names = {}  # method name -> number of classes defining it
    for st in tree.body:
      if isinstance(st, ast.FunctionDef):
        self.module_funcs[st.name] = st
      elif isinstance(st, ast.ClassDef):
        ms = {}
        for x in st.body:
          if isinstance(x, ast.FunctionDef):
            if x.name in ms:
              ms[x.name] = None  # property getter/setter pairs etc.
            else:
              ms[x.name] = x
        self.class_methods[st.name] = ms
        for k in ms:
          self.method_names[k] = self.method_names.get(k, 0) + 1
    self.classes = {st.name: st for st in tree.body
                    if isinstance(st, ast.ClassDef)}
    self.unfolded_classes = set()
    self.counter = 0
    self.inlined_calls = {}  # id(fn) -> count
    self.log = []

  # -- resolution
  def resolve(self, call, cls_name, caller):
    f = call.func
    if isinstance(f, ast.Attribute) and isinstance(f.value, ast.Name):
      recv = f.value.id
      ms = self.class_methods.get(cls_name, {}) if cls_name else {}
      fn = ms.get(f.attr)
      if not (recv in ('self', 'cls') or recv == cls_name):
        fn = None  # handled below as a foreign receiver
        # `OtherClass.factory(...)`: a static / class method of another class
        # of this module named explicitly (no dynamic dispatch involved)
        oms = self.class_methods.get(recv)
        if oms is not None and oms.get(f.attr) is not None and _kind(
            oms[f.attr]) in ('static', 'class') and recv not in _stores(
                caller) and recv not in [a.arg for a in caller.args.args]:
          return oms[f.attr], '%s.%s' % (recv, f.attr), _kind(oms[f.attr]), \
              recv
      if fn is not None and (recv in ('self', 'cls') or recv == cls_name):
        if self.method_names.get(f.attr, 0) != 1:
          return None  # another class of the module defines it too
        q = '%s.%s' % (cls_name, f.attr)
        k = _kind(fn)
        if recv == 'self' and not (
            (caller.args.args and caller.args.args[0].arg == 'self') or
            getattr(caller, '_outer_self', False)):
          return None
        if recv == 'cls' and k == 'instance':
          return None
        if recv == cls_name and k == 'instance':
          return None
        return fn, q, k, recv
    if isinstance(f, ast.Attribute) and _simple(f.value) and f.attr.startswith(
        '_') and not f.attr.startswith('__') and not (
            isinstance(f.value, ast.Name) and f.value.id in ('self', 'cls')):
      # `<object>._helper(...)`: a private instance method that exactly one
      # class of this module defines (the object's class is taken to be that
      # one: private names are not shared between classes here)
      owners = [(cn, ms[f.attr]) for cn, ms in self.class_methods.items()
                if ms.get(f.attr) is not None]
      if len(owners) == 1 and _kind(owners[0][1]) == 'instance' and \
          self.method_names.get(f.attr, 0) == 1:
        cn, fn = owners[0]
        return fn, '%s.%s' % (cn, f.attr), 'instance', f.value
      return None
    if isinstance(f, ast.Attribute):
      return None
    if isinstance(f, ast.Name):
      # a closure defined directly in the caller's body (and never rebound)
      local = [x for x in caller.body if isinstance(x, ast.FunctionDef) and
               x.name == f.id]
      if len(local) == 1 and f.id not in _stores(
          [s for s in caller.body if s is not local[0]]):
        return local[0], '<local>.' + f.id, 'closure', None
      if not local:
        # defined inside a branch of the caller (and only there, once)
        deep = []
        stack = list(caller.body)
        while stack:
          x = stack.pop()
          if isinstance(x, ast.FunctionDef):
            if x.name == f.id:
              deep.append(x)
            continue
          if isinstance(x, (ast.ClassDef, ast.AsyncFunctionDef)):
            continue
          for field in ('body', 'orelse', 'finalbody'):
            b = getattr(x, field, None)
            if isinstance(b, list):
              stack.extend(y for y in b if isinstance(y, ast.stmt))
          for h in getattr(x, 'handlers', None) or []:
            stack.extend(h.body)
        others = sum(1 for n in ast.walk(caller) if isinstance(n, ast.Name) and
                     n.id == f.id and isinstance(n.ctx, (ast.Store, ast.Del)))
        if len(deep) == 1 and not others and f.id not in [
            a.arg for a in caller.args.args]:
          return deep[0], '<local>.' + f.id, 'closure', None
    if isinstance(f, ast.Name) and f.id in self.module_funcs:
      if f.id in _stores(caller) or f.id in [a.arg for a in caller.args.args]:
        return None
      return self.module_funcs[f.id], f.id, 'function', None
    return None

  def inlinable(self, fn, qual, explicit_class=False):
    if (self.relpath, qual) in self.anchors:
      return False
    if _is_cm(fn):
      return False  # only through expand_with
    if qual.startswith('<local>.'):
      return _callee_ok(fn, private_only=False) and not fn.decorator_list
    if not _callee_ok(fn):
      # a public static / class method named through its class is fixed at the
      # call site too; taken when it is a one-expression factory / predicate
      body = [x for x in fn.body if not _is_docstring(x)]
      return explicit_class and _kind(fn) in ('static', 'class') and \
          _callee_ok(fn, private_only=False) and len(body) == 1 and \
          isinstance(body[0], ast.Return) and body[0].value is not None
    if self.foreign_text('def %s(' % fn.name):
      return False  # possibly overridden / shadowed elsewhere
    return True

  # -- one call site
  def expand(self, call, fn, kind, recv, caller_names, mode):
    """-> (prefix statements, replacement expr or None).  mode: 'tail' (returns
    kept), 'stmt' (value unused), 'value' (value needed)."""
    params = [a.arg for a in fn.args.args] + [a.arg for a in
                                              fn.args.kwonlyargs]
    pos = [a.arg for a in fn.args.args]
    if any(isinstance(a, ast.Starred) for a in call.args) or any(
        k.arg is None for k in call.keywords):
      raise NotInlinable('starred arguments')
    bind = {}
    implicit = None
    if kind in ('instance', 'class'):
      implicit = pos[0] if pos else None
      pos = pos[1:]
    extra = None
    if fn.args.vararg is not None:
      extra = list(call.args[len(pos):])
      if not all(_simple(a) for a in extra):
        raise NotInlinable('non-trivial *args')
    elif len(call.args) > len(pos):
      raise NotInlinable('too many arguments')
    for p, a in zip(pos, call.args):
      bind[p] = a
    for k in call.keywords:
      if k.arg in bind or k.arg not in params:
        raise NotInlinable('bad keyword')
      bind[k.arg] = k.value
    defaults = fn.args.defaults
    dpos = [a.arg for a in fn.args.args][len(fn.args.args) - len(defaults):]
    for p, d in zip(dpos, defaults):
      bind.setdefault(p, d)
    for a, d in zip(fn.args.kwonlyargs, fn.args.kw_defaults):
      if d is not None:
        bind.setdefault(a.arg, d)
    for p in params:
      if p != implicit and p not in bind:
        raise NotInlinable('missing argument %s' % p)
    body = [s for s in fn.body if not _is_docstring(s)]
    body = _fast_copy(body)
    stores = _stores(body)
    astores = _attr_stores(body)
    mapping, prefix, rename = {}, [], {}
    if implicit is not None:
      if kind == 'instance':
        if isinstance(recv, ast.AST):
          mapping[implicit] = recv  # foreign receiver expression
        elif recv != 'self' or implicit != 'self':
          mapping[implicit] = ast.Name(id=recv, ctx=ast.Load())
      else:  # classmethod
        if recv == 'cls':
          if implicit != 'cls':
            mapping[implicit] = ast.Name(id='cls', ctx=ast.Load())
        elif recv == 'self':
          mapping[implicit] = ast.Call(
              func=ast.Name(id='type', ctx=ast.Load()),
              args=[ast.Name(id='self', ctx=ast.Load())], keywords=[])
        else:
          mapping[implicit] = ast.Name(id=recv, ctx=ast.Load())
      if implicit in stores:
        raise NotInlinable('receiver rebound')
    self.counter += 1
    tag = '_inl%d' % self.counter

    def fresh(base):
      return base if base not in caller_names else base + tag

    for p in params:
      if p == implicit:
        continue
      a = bind[p]
      direct = p not in stores and _simple(a) and not (
          isinstance(a, ast.Attribute) and a.attr in astores) and not (
              isinstance(a, ast.Name) and a.id in stores and a.id != p)
      if direct:
        if not (isinstance(a, ast.Name) and a.id == p):
          mapping[p] = a
      else:
        new = fresh(p)
        if new != p:
          rename[p] = new
        prefix.append(ast.copy_location(ast.Assign(
            targets=[ast.Name(id=new, ctx=ast.Store())],
            value=_fast_copy(a)), call))
        caller_names.add(new)
    for l in sorted(stores):
      if l in params:
        continue
      new = fresh(l)
      if new != l:
        rename[l] = new
      caller_names.add(new)
    if extra is not None:
      # `*args` of the helper: the tuple of the extra positional arguments
      mapping[fn.args.vararg.arg] = ast.copy_location(ast.Tuple(
          elts=[_fast_copy(a) for a in extra], ctx=ast.Load()), call)
    sub = _Subst(mapping, rename)
    body = [sub.visit(s) for s in body]
    if extra is not None:
      for s_ in body:
        for c_ in ast.walk(s_):
          if isinstance(c_, ast.Call) and any(
              isinstance(x, ast.Starred) and isinstance(x.value, ast.Tuple)
              for x in c_.args):
            flat = []
            for x in c_.args:
              if isinstance(x, ast.Starred) and isinstance(x.value, ast.Tuple):
                flat.extend(x.value.elts)  # f(*(a, b)) is f(a, b)
              else:
                flat.append(x)
            c_.args = flat
    if mode == 'tail':
      if not body or not isinstance(body[-1], (ast.Return, ast.Raise)):
        falls = True
        try:
          _, term = _elim_returns(_fast_copy(body), None)
          falls = not term
        except NotInlinable:
          falls = True
        if falls:
          body.append(ast.copy_location(ast.Return(
              value=ast.Constant(value=None)), call))
      return prefix + body, None
    # single `return E`: pure expression substitution
    if len(body) == 1 and isinstance(body[0], ast.Return) and \
        body[0].value is not None:
      return prefix, body[0].value
    if mode == 'expr-only':
      raise NotInlinable('not a single-expression helper')
    if mode == 'stmt':
      new, _ = _elim_returns(body, None)
      return prefix + (new or [ast.copy_location(ast.Pass(), call)]), None
    ret = '%s_result%s' % (fn.name.lstrip('_'), tag)
    new, term = _elim_returns(body, ret)
    if not term:
      new = [ast.copy_location(ast.Assign(
          targets=[ast.Name(id=ret, ctx=ast.Store())],
          value=ast.Constant(value=None)), call)] + new
    caller_names.add(ret)
    return prefix + new, ast.copy_location(ast.Name(id=ret, ctx=ast.Load()),
                                           call)

  def expand_with(self, st, call, fn, kind, recv, caller_names):
    """`with helper(args) [as v]: BODY` -> the helper's body with BODY in
    place of its `yield` (and `v = <yielded value>` in front of BODY)."""
    saved = fn.decorator_list
    fn.decorator_list = []
    try:
      # reuse the parameter binding / renaming of expand(): treat the yield as
      # an ordinary expression statement for now
      marker = '__with_body_marker__'
      body = _fast_copy([s for s in fn.body if not _is_docstring(s)])
      ys = [n for s in body for n in ast.walk(s) if isinstance(n, ast.Yield)]
      yv = ys[0].value
      probe = ast.FunctionDef(name=fn.name, args=fn.args, body=body,
                              decorator_list=[], returns=None)
      for s in ast.walk(probe):
        if isinstance(s, ast.Expr) and s.value is ys[0]:
          s.value = ast.Call(func=ast.Name(id=marker, ctx=ast.Load()),
                             args=[yv] if yv is not None else [], keywords=[])
      pre, _ = self.expand(call, probe, kind, recv, caller_names, 'stmt')
    finally:
      fn.decorator_list = saved
    var = st.items[0].optional_vars
    done = []
    # Leaving the block by return / break / continue resumes the generator
    # after its yield: code that follows the yield on the normal path must
    # still run.  Handled: nothing follows the yield except `finally` parts, or
    # the yield is at the top level of the helper and the block's only jump is
    # a trailing `return E` (E is evaluated, the rest of the helper runs, then
    # the value is returned).
    jumps = [x for s_ in st.body for x in ast.walk(s_)
             if isinstance(x, (ast.Return, ast.Break, ast.Continue))]
    top_idx = [i for i, s_ in enumerate(pre) if isinstance(s_, ast.Expr) and
               isinstance(s_.value, ast.Call) and isinstance(
                   s_.value.func, ast.Name) and s_.value.func.id == marker]

    def follows(stmts):
      """True if something follows the marker on the normal path."""
      for i, s_ in enumerate(stmts):
        if isinstance(s_, ast.Expr) and isinstance(s_.value, ast.Call) and \
            isinstance(s_.value.func, ast.Name) and \
            s_.value.func.id == marker:
          return bool(stmts[i + 1:])
        for field in ('body', 'orelse'):
          b = getattr(s_, field, None)
          if isinstance(b, list) and b and isinstance(b[0], ast.stmt) and any(
              isinstance(x, ast.Name) and x.id == marker
              for y in b for x in ast.walk(y)):
            return follows(b) or bool(stmts[i + 1:])
      return False
    tail_return = None
    body_stmts = list(st.body)
    if jumps and follows(pre):
      if top_idx and len(jumps) == 1 and isinstance(
          st.body[-1], ast.Return) and jumps[0] is st.body[-1]:
        self.counter += 1
        rname = 'with_result_inl%d' % self.counter
        val = st.body[-1].value or ast.Constant(value=None)
        body_stmts = list(st.body[:-1]) + [ast.copy_location(ast.Assign(
            targets=[ast.Name(id=rname, ctx=ast.Store())], value=val),
                                                             st.body[-1])]
        tail_return = ast.copy_location(ast.Return(
            value=ast.Name(id=rname, ctx=ast.Load())), st.body[-1])
        caller_names.add(rname)
      else:
        raise NotInlinable('the with block jumps out past code that follows '
                           'the yield')

    def splice(stmts):
      out = []
      for s in stmts:
        if isinstance(s, ast.Expr) and isinstance(s.value, ast.Call) and \
            isinstance(s.value.func, ast.Name) and s.value.func.id == marker:
          if var is not None:
            val = s.value.args[0] if s.value.args else ast.Constant(value=None)
            out.append(ast.copy_location(ast.Assign(targets=[var], value=val),
                                         st))
          out.extend(body_stmts)
          done.append(1)
          continue
        for field in ('body', 'orelse', 'finalbody'):
          b = getattr(s, field, None)
          if isinstance(b, list) and b and isinstance(b[0], ast.stmt):
            setattr(s, field, splice(b))
        for h in getattr(s, 'handlers', None) or []:
          h.body = splice(h.body)
        out.append(s)
      return out
    new = splice(pre)
    if len(done) != 1:
      raise NotInlinable('yield not found after expansion')
    if tail_return is not None:
      new.append(tail_return)
    return new

  def expand_with_class(self, st, caller_names):
    """`with _Helper(args): BODY` over a private class of this module that
    only stores its arguments, whose __enter__ does nothing and whose __exit__
    neither looks at the exception nor suppresses it ->
    `try: BODY finally: <__exit__ body>`."""
    call = st.items[0].context_expr
    cls = self.classes.get(call.func.id) if isinstance(
        call.func, ast.Name) else None
    if cls is None or not cls.name.startswith('_') or cls.name.startswith(
        '__') or st.items[0].optional_vars is not None or len(st.items) != 1:
      return None
    if any(not (isinstance(b, ast.Name) and b.id == 'object')
           for b in cls.bases) or cls.keywords or cls.decorator_list:
      return None
    if self.foreign_text(cls.name):
      return None
    ms = {}
    for x in cls.body:
      if _is_docstring(x):
        continue
      if not isinstance(x, ast.FunctionDef) or x.decorator_list:
        return None
      ms[x.name] = x
    if set(ms) != {'__init__', '__enter__', '__exit__'}:
      return None
    init, enter, exit_ = ms['__init__'], ms['__enter__'], ms['__exit__']
    for f in (init, enter, exit_):
      a = f.args
      if a.vararg or a.kwarg or a.posonlyargs or a.kwonlyargs or a.defaults:
        return None
    params = [a.arg for a in init.args.args]
    if any(isinstance(a, ast.Starred) for a in call.args) or call.keywords or \
        len(call.args) != len(params) - 1:
      return None
    fields = {}
    for x in init.body:
      if _is_docstring(x):
        continue
      if not (isinstance(x, ast.Assign) and len(x.targets) == 1 and
              isinstance(x.targets[0], ast.Attribute) and
              isinstance(x.targets[0].value, ast.Name) and
              x.targets[0].value.id == params[0] and
              isinstance(x.value, ast.Name) and x.value.id in params[1:] and
              x.targets[0].attr not in fields):
        return None
      fields[x.targets[0].attr] = params.index(x.value.id) - 1
    eb = [x for x in enter.body if not _is_docstring(x)]
    if not (len(eb) == 1 and (isinstance(eb[0], ast.Pass) or (
        isinstance(eb[0], ast.Return) and (eb[0].value is None or isinstance(
            eb[0].value, (ast.Name, ast.Constant)))))):
      return None
    xparams = [a.arg for a in exit_.args.args]
    if len(xparams) != 4:
      return None
    xb = [x for x in exit_.body if not _is_docstring(x)]
    if xb and isinstance(xb[-1], ast.Return):
      v = xb[-1].value
      if not (v is None or (isinstance(v, ast.Constant) and not v.value)):
        return None  # may suppress the exception
      xb = xb[:-1]
    if not xb:
      return None
    for x in xb:
      for n in ast.walk(x):
        if isinstance(n, (ast.Return, ast.Yield, ast.YieldFrom, ast.Await,
                          ast.FunctionDef, ast.Lambda, ast.ClassDef,
                          ast.Global, ast.Nonlocal)):
          return None
        if isinstance(n, ast.Name) and n.id in xparams[1:]:
          return None  # looks at the exception
        if isinstance(n, ast.Name) and n.id == xparams[0] and not (
            isinstance(getattr(n, '_p', None), ast.Attribute)):
          pass
    body = _fast_copy(xb)
    self.counter += 1
    tag = '_inl%d' % self.counter
    prefix, mapping = [], {}
    for attr, idx in fields.items():
      new = attr.lstrip('_') + tag
      caller_names.add(new)
      mapping[attr] = new
      prefix.append(ast.copy_location(ast.Assign(
          targets=[ast.Name(id=new, ctx=ast.Store())],
          value=_fast_copy(call.args[idx])), st))
    rename = {}
    for l in sorted(_stores(body)):
      if l in caller_names:
        rename[l] = l + tag
        caller_names.add(l + tag)

    class _Sub(ast.NodeTransformer):

      def visit_Attribute(self, n):
        if isinstance(n.value, ast.Name) and n.value.id == xparams[0]:
          if n.attr in mapping and isinstance(n.ctx, ast.Load):
            return ast.copy_location(ast.Name(id=mapping[n.attr],
                                              ctx=ast.Load()), n)
          raise NotInlinable('__exit__ uses self beyond its stored fields')
        self.generic_visit(n)
        return n

      def visit_Name(self, n):
        if n.id == xparams[0]:
          raise NotInlinable('__exit__ passes self on')
        if n.id in rename:
          n.id = rename[n.id]
        return n
    body = [_Sub().visit(x) for x in body]
    tr = ast.copy_location(ast.Try(body=list(st.body), handlers=[], orelse=[],
                                   finalbody=body), st)
    return prefix + [tr]

  def expand_for(self, st, call, fn, kind, recv, caller_names):
    """`for x in helper(args): BODY` over a one-yield private generator ->
    the helper's body with `x = <yielded value>; BODY` at its yield."""
    if st.orelse:
      raise NotInlinable('for-else over a generator helper')

    def jumps(stmts, in_loop):
      for s_ in stmts:
        if isinstance(s_, (ast.FunctionDef, ast.AsyncFunctionDef,
                           ast.ClassDef)):
          continue
        if isinstance(s_, ast.Return):
          return True
        if isinstance(s_, (ast.Break, ast.Continue)) and not in_loop:
          return True
        for x in ast.walk(s_):
          if isinstance(x, (ast.Yield, ast.YieldFrom)):
            return True
        inner = in_loop or isinstance(s_, (ast.For, ast.While))
        for field in ('body', 'orelse', 'finalbody'):
          b = getattr(s_, field, None)
          if isinstance(b, list) and b and isinstance(b[0], ast.stmt) and \
              jumps(b, inner if field == 'body' else in_loop):
            return True
        for h in getattr(s_, 'handlers', None) or []:
          if jumps(h.body, in_loop):
            return True
      return False
    if jumps(st.body, False):
      raise NotInlinable('the loop body leaves the loop / yields')
    marker = '__for_body_marker__'
    body = _fast_copy([s for s in fn.body if not _is_docstring(s)])
    ys = [n for s in body for n in ast.walk(s) if isinstance(n, ast.Yield)]
    probe = ast.FunctionDef(name=fn.name, args=fn.args, body=body,
                            decorator_list=fn.decorator_list, returns=None)
    for s in ast.walk(probe):
      if isinstance(s, ast.Expr) and s.value is ys[0]:
        s.value = ast.Call(func=ast.Name(id=marker, ctx=ast.Load()),
                           args=[ys[0].value], keywords=[])
    names_before = set(caller_names)
    pre, _ = self.expand(call, probe, kind, recv, caller_names, 'stmt')
    done, unify = [], []

    def splice(stmts):
      out = []
      for s in stmts:
        if isinstance(s, ast.Expr) and isinstance(s.value, ast.Call) and \
            isinstance(s.value.func, ast.Name) and s.value.func.id == marker:
          val = s.value.args[0]
          if isinstance(val, ast.Name) and val.id not in names_before and \
              isinstance(st.target, ast.Name) and \
              st.target.id not in _stores(list(st.body)):
            # the helper's own local is the loop variable: one name for both
            unify.append((val.id, st.target.id))
          else:
            out.append(ast.copy_location(ast.Assign(
                targets=[st.target], value=val), st))
          out.extend(st.body)
          done.append(1)
          continue
        for field in ('body', 'orelse', 'finalbody'):
          b = getattr(s, field, None)
          if isinstance(b, list) and b and isinstance(b[0], ast.stmt):
            setattr(s, field, splice(b))
        out.append(s)
      return out
    new = splice(pre)
    if len(done) != 1:
      raise NotInlinable('yield not found after expansion')
    if unify:
      old_name, new_name = unify[0]
      for s in new:
        for n in ast.walk(s):
          if isinstance(n, ast.Name) and n.id == old_name:
            n.id = new_name
    return new

  # -- a whole function
  def process_function(self, caller, cls_name, qual):
    caller_names = _all_names(caller)

    def calls_of(node):
      out = []
      stack = [node]
      while stack:
        n = stack.pop()
        for c in ast.iter_child_nodes(n):
          if isinstance(c, (ast.FunctionDef, ast.AsyncFunctionDef,
                            ast.ClassDef, ast.Lambda)):
            continue
          stack.append(c)
        if isinstance(n, ast.Call):
          out.append(n)
      return out

    def header_exprs(st):
      """Expressions evaluated by the statement itself (not its blocks)."""
      if isinstance(st, (ast.If, ast.While)):
        return [st.test]
      if isinstance(st, ast.For):
        return [st.iter]
      if isinstance(st, ast.With):
        return [i.context_expr for i in st.items]
      if isinstance(st, (ast.Try, ast.FunctionDef, ast.AsyncFunctionDef,
                         ast.ClassDef)):
        return []
      return [st]

    def do_block(blk, active, depth):
      i = 0
      while i < len(blk):
        st = blk[i]
        changed = False
        if depth < MAX_DEPTH and isinstance(st, ast.With) and \
            len(st.items) == 1 and isinstance(st.items[0].context_expr,
                                              ast.Call):
          call = st.items[0].context_expr
          r = self.resolve(call, cls_name, caller)
          if r is not None and _is_cm(r[0]) and _cm_ok(r[0]) and \
              (self.relpath, r[1]) not in self.anchors and r[1] not in active \
              and not self.foreign_text('def %s(' % r[0].name):
            fn, q, kind, recv = r
            try:
              new = self.expand_with(st, call, fn, kind, recv, caller_names)
            except NotInlinable as ex:
              self.log.append('%s: %s not inlined into %s (%s)' % (
                  self.relpath, q, qual, ex))
              new = None
            if new is not None:
              blk[i:i + 1] = new
              self.inlined_calls[id(fn)] = self.inlined_calls.get(
                  id(fn), 0) + 1
              self.log.append('%s: %s inlined into %s (with)' % (
                  self.relpath, q, qual))
              sub_blk = blk[i:i + len(new)]
              do_block(sub_blk, active | {q}, depth + 1)
              blk[i:i + len(new)] = sub_blk
              i += len(sub_blk)
              continue
        if depth < MAX_DEPTH and isinstance(st, ast.With) and \
            len(st.items) == 1 and isinstance(st.items[0].context_expr,
                                              ast.Call):
          try:
            new = self.expand_with_class(st, caller_names)
          except NotInlinable:
            new = None
          if new is not None:
            blk[i:i + 1] = new
            cname = st.items[0].context_expr.func.id
            self.log.append('%s: context-manager class %s unfolded in %s' % (
                self.relpath, cname, qual))
            self.unfolded_classes.add(cname)
            continue
        if depth < MAX_DEPTH and isinstance(st, ast.For) and isinstance(
            st.iter, ast.Call):
          call = st.iter
          r = self.resolve(call, cls_name, caller)
          if r is not None and _gen_ok(r[0]) and \
              (self.relpath, r[1]) not in self.anchors and r[1] not in active \
              and not self.foreign_text('def %s(' % r[0].name):
            fn, q, kind, recv = r
            try:
              new = self.expand_for(st, call, fn, kind, recv, caller_names)
            except NotInlinable as ex:
              self.log.append('%s: %s not inlined into %s (%s)' % (
                  self.relpath, q, qual, ex))
              new = None
            if new is not None:
              blk[i:i + 1] = new
              self.inlined_calls[id(fn)] = self.inlined_calls.get(
                  id(fn), 0) + 1
              self.log.append('%s: %s inlined into %s (for)' % (
                  self.relpath, q, qual))
              sub_blk = blk[i:i + len(new)]
              do_block(sub_blk, active | {q}, depth + 1)
              blk[i:i + len(new)] = sub_blk
              i += len(sub_blk)
              continue
        if depth < MAX_DEPTH and not isinstance(
            st, (ast.FunctionDef, ast.AsyncFunctionDef, ast.ClassDef)):
          cands = []
          for h in header_exprs(st):
            cands.extend(calls_of(h) if h is not st else calls_of(st))
          for call in cands:
            r = self.resolve(call, cls_name, caller)
            if r is None:
              continue
            fn, q, kind, recv = r
            explicit = isinstance(call.func, ast.Attribute) and isinstance(
                call.func.value, ast.Name) and \
                call.func.value.id in self.class_methods
            if fn is caller or q in active or not self.inlinable(
                fn, q, explicit_class=explicit):
              continue
            try:
              if isinstance(st, ast.Return) and st.value is call:
                new, _ = self.expand(call, fn, kind, recv, caller_names,
                                     'tail')
                blk[i:i + 1] = new
              elif isinstance(st, ast.Expr) and st.value is call:
                new, e = self.expand(call, fn, kind, recv, caller_names,
                                     'stmt')
                if e is not None:
                  new = new + [ast.copy_location(ast.Expr(value=e), st)]
                blk[i:i + 1] = new
              elif isinstance(st, (ast.While, ast.For)) or not \
                  _first_eval_position(st, call):
                # only single-expression helpers can be substituted in place
                pre, e = self.expand(call, fn, kind, recv, caller_names,
                                     'expr-only')
                if pre:
                  raise NotInlinable('needs parameter bindings in place')
                _replace_expr(st, call, e)
                new = [st]
              else:
                pre, e = self.expand(call, fn, kind, recv, caller_names,
                                     'value')
                _replace_expr(st, call, e)
                blk[i:i + 1] = pre + [st]
                new = pre + [st]
            except NotInlinable as ex:
              self.log.append('%s: %s not inlined into %s (%s)' % (
                  self.relpath, q, qual, ex))
              continue
            self.inlined_calls[id(fn)] = self.inlined_calls.get(id(fn), 0) + 1
            self.log.append('%s: %s inlined into %s' % (self.relpath, q, qual))
            # re-scan what was inserted, with the callee marked active
            sub_blk = blk[i:i + len(new)]
            do_block(sub_blk, active | {q}, depth + 1)
            blk[i:i + len(new)] = sub_blk
            i += len(sub_blk)
            changed = True
            break
        if changed:
          continue
        for field in ('body', 'orelse', 'finalbody'):
          b = getattr(st, field, None)
          if isinstance(b, list) and b and isinstance(b[0], ast.stmt) and \
              not isinstance(st, (ast.FunctionDef, ast.AsyncFunctionDef,
                                  ast.ClassDef)):
            do_block(b, active, depth)
        for h in getattr(st, 'handlers', None) or []:
          do_block(h.body, active, depth)
        i += 1

    do_block(caller.body, frozenset([qual]), 0)
    for x in list(caller.body):
      if isinstance(x, ast.FunctionDef) and self.inlined_calls.get(id(x), 0):
        used = any(isinstance(n, ast.Name) and n.id == x.name
                   for s in caller.body if s is not x for n in ast.walk(s))
        if not used and len(caller.body) > 1:
          caller.body.remove(x)
    ast.fix_missing_locations(caller)

  def inline_properties(self):
    """`self._p` where _p is a private @property of the class whose body is
    a single `return <expression over self>`: the expression."""
    for st in self.tree.body:
      if not isinstance(st, ast.ClassDef):
        continue
      props = {}
      for m in st.body:
        if isinstance(m, ast.FunctionDef) and len(m.decorator_list) == 1 and \
            isinstance(m.decorator_list[0], ast.Name) and \
            m.decorator_list[0].id == 'property' and m.name.startswith('_') \
            and not m.name.startswith('__') and (
                self.relpath, '%s.%s' % (st.name, m.name)) not in self.anchors:
          body = [s for s in m.body if not _is_docstring(s)]
          if len(body) == 1 and isinstance(body[0], ast.Return) and \
              body[0].value is not None and len(m.args.args) == 1 and \
              not self.foreign_text(m.name):
            props[m.name] = (m, body[0].value)
      if not props:
        continue
      used = set()
      for m in st.body:
        if not isinstance(m, ast.FunctionDef) or m.name in props:
          continue
        for parent in ast.walk(m):
          for field, val in ast.iter_fields(parent):
            items = val if isinstance(val, list) else [val]
            for i, x in enumerate(items):
              if isinstance(x, ast.Attribute) and isinstance(
                  x.ctx, ast.Load) and isinstance(x.value, ast.Name) and \
                  x.value.id == 'self' and x.attr in props:
                new = ast.copy_location(_fast_copy(props[x.attr][1]), x)
                if isinstance(val, list):
                  val[i] = new
                else:
                  setattr(parent, field, new)
                used.add(x.attr)
      for name in used:
        st.body.remove(props[name][0])
        self.log.append('%s: property %s.%s inlined' % (self.relpath, st.name,
                                                        name))

  def run(self):
    self.inline_properties()
    for st in list(self.tree.body):
      if isinstance(st, ast.FunctionDef):
        self.process_function(st, None, st.name)
      elif isinstance(st, ast.ClassDef):
        for x in st.body:
          if isinstance(x, ast.FunctionDef):
            self.process_function(x, st.name, '%s.%s' % (st.name, x.name))
            # closures defined in the method see its `self`
            has_self = bool(x.args.args and x.args.args[0].arg == 'self')
            for y in ast.walk(x):
              if isinstance(y, ast.FunctionDef) and y is not x and not any(
                  a.arg == 'self' for a in y.args.args):
                y._outer_self = has_self  # pylint: disable=protected-access
                self.process_function(
                    y, st.name, '%s.%s.%s' % (st.name, x.name, y.name))
    self.process_module_level()
    self.drop_dead_helpers()
    return self.tree

  def process_module_level(self):
    """Constant definitions at module / class level that call a private
    one-expression helper of the module (`X = _dotted(A, 'b')`): the helper's
    expression is substituted (the helper must be defined above, which Python
    itself requires)."""
    holders = [self.tree] + [c for c in self.tree.body
                             if isinstance(c, ast.ClassDef)]
    for h in holders:
      for st in h.body:
        if not isinstance(st, ast.Assign):
          continue
        for call in [n for n in ast.walk(st.value)
                     if isinstance(n, ast.Call)]:
          if not (isinstance(call.func, ast.Name) and
                  call.func.id in self.module_funcs):
            continue
          fn = self.module_funcs[call.func.id]
          if not self.inlinable(fn, fn.name):
            continue
          try:
            pre, e = self.expand(call, fn, 'function', None, set(),
                                 'expr-only')
          except NotInlinable:
            continue
          if pre or e is None:
            continue
          if st.value is call:
            st.value = e
          else:
            _replace_expr(st, call, e)
          self.inlined_calls[id(fn)] = self.inlined_calls.get(id(fn), 0) + 1
          self.log.append('%s: %s inlined into a module-level definition' % (
              self.relpath, fn.name))

  def drop_dead_helpers(self):
    """Private helpers that were inlined everywhere and are referenced
    nowhere (this module after inlining, other modules by text)."""
    refs = {}
    for n in ast.walk(self.tree):
      if isinstance(n, ast.Attribute):
        refs[n.attr] = refs.get(n.attr, 0) + 1
      elif isinstance(n, ast.Name):
        refs[n.id] = refs.get(n.id, 0) + 1
      elif isinstance(n, ast.Constant) and isinstance(n.value, str) and \
          n.value.isidentifier():
        refs[n.value] = refs.get(n.value, 0) + 1

    def dead(fn, qual):
      return self.inlined_calls.get(id(fn), 0) > 0 and fn.name.startswith(
          '_') and not fn.name.startswith('__') and refs.get(
              fn.name, 0) == 0 and (self.relpath, qual) not in self.anchors \
          and not self.foreign_text(fn.name)
    for st in list(self.tree.body):
      if isinstance(st, ast.FunctionDef) and dead(st, st.name):
        self.tree.body.remove(st)
        self.log.append('%s: %s dropped (inlined everywhere)' % (self.relpath,
                                                                 st.name))
      elif isinstance(st, ast.ClassDef) and st.name in \
          self.unfolded_classes and refs.get(st.name, 0) == 0 and \
          not self.foreign_text(st.name):
        self.tree.body.remove(st)
        self.log.append('%s: class %s dropped (unfolded everywhere)' % (
            self.relpath, st.name))
      elif isinstance(st, ast.ClassDef):
        for x in list(st.body):
          if isinstance(x, ast.FunctionDef) and dead(
              x, '%s.%s' % (st.name, x.name)) and len(st.body) > 1:
            st.body.remove(x)
            self.log.append('%s: %s.%s dropped (inlined everywhere)' % (
                self.relpath, st.name, x.name))


def inline_module(tree, relpath, anchors, foreign_text):
  inl = Inliner(tree, relpath, anchors, foreign_text)
  inl.run()
  return inl.log
