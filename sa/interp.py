"""Abstract evaluator for small, pure decision functions.

Evaluates function ASTs taken from /repo over witness points of a finite
ordering/definedness abstraction (one witness per class), with an evaluator
written here: nothing from /repo is imported, compiled or executed by the
Python interpreter.  Only a whitelisted, side-effect-free expression language
is supported; anything else is an AnalysisError naming the construct.
"""

import ast
import itertools
import math
import re

from sa.core import AnalysisError, dotted


class InterpRaise(Exception):
  """The evaluated code raises (kind = exception class name)."""

  def __init__(self, kind, detail=''):
    Exception.__init__(self, kind)
    self.kind = kind
    self.detail = detail


class Obj(object):
  """Instance of a repo class: attrs dict + ClassDef."""

  def __init__(self, cls_node):
    self.cls = cls_node
    self.attrs = {}

  def __repr__(self):
    return '<%s %r>' % (self.cls.name, self.attrs)


class _Return(Exception):

  def __init__(self, value):
    Exception.__init__(self)
    self.value = value


class _Break(Exception):
  pass


class _Continue(Exception):
  pass


class NumberT(object):
  """Sentinel for numbers.Number in isinstance tests."""


NUMBER = NumberT()
_MISSING = object()


class Interp(object):

  def __init__(self, repo, module, extra_globals=None, max_steps=20000):
    self.repo = repo
    self.module = module
    self.globals = {
        'None': None,
        'True': True,
        'False': False,
        'abs': abs,
        'all': all,
        'any': any,
        'len': len,
        'str': str,
        'bool': bool,
        'int': int,
        'float': float,
        'enumerate': lambda x: list(enumerate(x)),
        'tuple': tuple,
        'list': list,
        'callable': callable,
        'max': max,
        'min': min,
        'math.isnan': self._isnan,
        're.escape': re.escape,
        're.compile': re.compile,
        're.match': re.match,
        're.search': re.search,
        're.fullmatch': re.fullmatch,
        **{'re.' + f: getattr(re, f) for f in (
            'MULTILINE', 'M', 'IGNORECASE', 'I', 'DOTALL', 'S', 'VERBOSE', 'X',
            'ASCII', 'A', 'UNICODE', 'U')},
        'numbers.Number': NUMBER,
        'sorted': sorted,
        'sum': sum,
        'zip': lambda *a: list(zip(*a)),
        'reversed': lambda x: list(reversed(x)),
        'range': lambda *a: list(range(*a)),
        'iter': iter,
        'next': next,
        # pure itertools helpers, applied with evaluator-level callables
        'itertools.dropwhile': self._dropwhile,
        'itertools.takewhile': self._takewhile,
        'itertools.chain': lambda *a: list(itertools.chain(*a)),
        'itertools.islice': lambda *a: list(itertools.islice(*a)),
    }
    if extra_globals:
      self.globals.update(extra_globals)
    self.steps = 0
    self.max_steps = max_steps

  def _dropwhile(self, pred, seq):
    return list(itertools.dropwhile(
        lambda x: self.truth(self.apply(pred, [x], {})), list(seq)))

  def _takewhile(self, pred, seq):
    return list(itertools.takewhile(
        lambda x: self.truth(self.apply(pred, [x], {})), list(seq)))

  @staticmethod
  def _isnan(x):
    try:
      return math.isnan(x)
    except TypeError:
      raise InterpRaise('TypeError', 'isnan of %r' % (x,))

  # ---- class helpers
  def class_of(self, name):
    c = self.module.classes.get(name)
    if c is None:
      raise AnalysisError('interp: class %s not found' % name)
    return c

  def _mro(self, cls_node):
    from sa import core  # pylint: disable=g-import-not-at-top
    return [cls_node] + core.ancestors_of(self.repo, cls_node)

  def find_member(self, cls_node, name):
    for c in self._mro(cls_node):
      for s in c.body:
        if isinstance(s, ast.FunctionDef) and s.name == name:
          return s
    return None

  def is_property(self, fn):
    return any(dotted(d) in ('property', 'abc.abstractproperty')
               for d in fn.decorator_list)

  def instantiate(self, cls_node, *args, **kwargs):
    o = Obj(cls_node)
    init = self.find_member(cls_node, '__init__')
    if init is not None:
      self.call_function(init, [o] + list(args), kwargs, cls_node)
    return o

  # ---- calls
  def call_function(self, fn, args, kwargs, cls_node=None):
    env = {}
    a = fn.args
    params = [x.arg for x in a.posonlyargs + a.args]
    defaults = [None] * (len(params) - len(a.defaults)) + list(a.defaults)
    args = list(args)
    for i, p in enumerate(params):
      if i < len(args):
        env[p] = args[i]
      elif p in kwargs:
        env[p] = kwargs.pop(p)
      elif defaults[i] is not None:
        env[p] = self.eval(defaults[i], {})
      else:
        raise InterpRaise('TypeError', 'missing argument %s' % p)
    if a.vararg is not None:
      env[a.vararg.arg] = tuple(args[len(params):])
    elif len(args) > len(params):
      raise InterpRaise('TypeError', 'too many arguments')
    for k, d in zip(a.kwonlyargs, a.kw_defaults):
      if k.arg in kwargs:
        env[k.arg] = kwargs.pop(k.arg)
      elif d is not None:
        env[k.arg] = self.eval(d, {})
    if a.kwarg is not None:
      env[a.kwarg.arg] = dict(kwargs)
    elif kwargs:
      raise InterpRaise('TypeError', 'unexpected kwargs %s' % sorted(kwargs))
    env['__class_node__'] = cls_node
    try:
      self.exec_block(fn.body, env)
    except _Return as r:
      return r.value
    return None

  def call_method(self, obj, name, *args, **kwargs):
    fn = self.find_member(obj.cls, name)
    if fn is None:
      raise AnalysisError('interp: %s has no method %s' % (obj.cls.name, name))
    return self.call_function(fn, [obj] + list(args), dict(kwargs), obj.cls)

  # ---- statements
  def exec_block(self, stmts, env):
    for s in stmts:
      self.exec_stmt(s, env)

  def exec_stmt(self, s, env):
    self.steps += 1
    if self.steps > self.max_steps:
      raise AnalysisError('interp: step bound exceeded')
    if isinstance(s, ast.Expr):
      if isinstance(s.value, ast.Constant):
        return
      from sa import cfg as _cfg  # pylint: disable=g-import-not-at-top
      if _cfg.is_log_call(s.value):
        return  # logging statements have no effect on the decision
      self.eval(s.value, env)
    elif isinstance(s, ast.Return):
      raise _Return(self.eval(s.value, env) if s.value is not None else None)
    elif isinstance(s, ast.If):
      if self.truth(self.eval(s.test, env)):
        self.exec_block(s.body, env)
      else:
        self.exec_block(s.orelse, env)
    elif isinstance(s, ast.Assign):
      v = self.eval(s.value, env)
      for t in s.targets:
        self.assign(t, v, env)
    elif isinstance(s, ast.AugAssign):
      cur = self.eval(s.target, env)
      v = self.binop(s.op, cur, self.eval(s.value, env))
      self.assign(s.target, v, env)
    elif isinstance(s, ast.Raise):
      kind = 'Exception'
      if s.exc is not None:
        e = s.exc.func if isinstance(s.exc, ast.Call) else s.exc
        kind = (dotted(e) or 'Exception').split('.')[-1]
      raise InterpRaise(kind)
    elif isinstance(s, ast.Assert):
      if not self.truth(self.eval(s.test, env)):
        raise InterpRaise('AssertionError')
    elif isinstance(s, ast.For):
      it = self.eval(s.iter, env)
      broke = False
      for x in list(it):
        self.assign(s.target, x, env)
        try:
          self.exec_block(s.body, env)
        except _Break:
          broke = True
          break
        except _Continue:
          continue
      if not broke:
        self.exec_block(s.orelse, env)
    elif isinstance(s, ast.Break):
      raise _Break()
    elif isinstance(s, ast.Continue):
      raise _Continue()
    elif isinstance(s, ast.Pass):
      return
    elif isinstance(s, ast.Delete) and all(
        isinstance(t, ast.Name) for t in s.targets):
      for t in s.targets:  # `del unused_arg`
        env.pop(t.id, None)
    else:
      raise AnalysisError('interp: unsupported statement %s (line %s)' %
                          (type(s).__name__, getattr(s, 'lineno', '?')))

  def assign(self, t, v, env):
    if isinstance(t, ast.Name):
      env[t.id] = v
    elif isinstance(t, ast.Attribute):
      o = self.eval(t.value, env)
      if not isinstance(o, Obj):
        raise AnalysisError('interp: attribute store on non-object')
      o.attrs[t.attr] = v
    elif isinstance(t, (ast.Tuple, ast.List)):
      vs = list(v)
      for e, x in zip(t.elts, vs):
        self.assign(e, x, env)
    elif isinstance(t, ast.Subscript):
      o = self.eval(t.value, env)
      o[self.eval(t.slice, env)] = v
    else:
      raise AnalysisError('interp: unsupported assignment target')

  # ---- expressions
  @staticmethod
  def truth(v):
    if isinstance(v, Obj):
      return True
    return bool(v)

  def binop(self, op, a, b):
    try:
      if isinstance(op, ast.Add):
        return a + b
      if isinstance(op, ast.Sub):
        return a - b
      if isinstance(op, ast.Mult):
        return a * b
      if isinstance(op, ast.Div):
        return a / b
      if isinstance(op, ast.Mod):
        return a % b
    except TypeError as e:
      raise InterpRaise('TypeError', str(e))
    except ZeroDivisionError as e:
      raise InterpRaise('ZeroDivisionError', str(e))
    raise AnalysisError('interp: unsupported operator %s' % type(op).__name__)

  def compare(self, op, a, b):
    try:
      if isinstance(op, ast.Lt):
        return a < b
      if isinstance(op, ast.LtE):
        return a <= b
      if isinstance(op, ast.Gt):
        return a > b
      if isinstance(op, ast.GtE):
        return a >= b
      if isinstance(op, ast.Eq):
        return self.equals(a, b)
      if isinstance(op, ast.NotEq):
        return not self.equals(a, b)
      if isinstance(op, ast.Is):
        return a is b
      if isinstance(op, ast.IsNot):
        return a is not b
      if isinstance(op, ast.In):
        return a in b
      if isinstance(op, ast.NotIn):
        return a not in b
    except TypeError as e:
      raise InterpRaise('TypeError', str(e))
    raise AnalysisError('interp: unsupported comparison')

  def equals(self, a, b):
    if isinstance(a, Obj):
      eq = self.find_member(a.cls, '__eq__')
      if eq is not None:
        return self.call_function(eq, [a, b], {}, a.cls)
      return a is b
    return a == b

  def eval(self, e, env):
    self.steps += 1
    if self.steps > self.max_steps:
      raise AnalysisError('interp: step bound exceeded')
    if isinstance(e, ast.Constant):
      return e.value
    if isinstance(e, ast.Name):
      if e.id in env:
        return env[e.id]
      if e.id in self.globals:
        return self.globals[e.id]
      if e.id in self.module.classes:
        return self.module.classes[e.id]
      if e.id in self.module.funcs:
        return self.module.funcs[e.id][0].node
      if e.id in self.module.constants:
        return self.eval(self.module.constants[e.id], {})
      raise AnalysisError('interp: unknown name %s' % e.id)
    if isinstance(e, ast.Attribute):
      d = dotted(e)
      if d in self.globals:
        return self.globals[d]
      o = self.eval(e.value, env)
      return self.getattr(o, e.attr)
    if isinstance(e, ast.Compare):
      left = self.eval(e.left, env)
      for op, c in zip(e.ops, e.comparators):
        right = self.eval(c, env)
        if not self.truth(self.compare(op, left, right)):
          return False
        left = right
      return True
    if isinstance(e, ast.BoolOp):
      v = None
      for x in e.values:
        v = self.eval(x, env)
        if isinstance(e.op, ast.And) and not self.truth(v):
          return v
        if isinstance(e.op, ast.Or) and self.truth(v):
          return v
      return v
    if isinstance(e, ast.UnaryOp):
      v = self.eval(e.operand, env)
      if isinstance(e.op, ast.Not):
        return not self.truth(v)
      if isinstance(e.op, ast.USub):
        return -v
      raise AnalysisError('interp: unsupported unary operator')
    if isinstance(e, ast.BinOp):
      return self.binop(e.op, self.eval(e.left, env), self.eval(e.right, env))
    if isinstance(e, ast.IfExp):
      return self.eval(e.body if self.truth(self.eval(e.test, env)) else
                       e.orelse, env)
    if isinstance(e, (ast.Tuple, ast.List)):
      vals = [self.eval(x, env) for x in e.elts]
      return tuple(vals) if isinstance(e, ast.Tuple) else vals
    if isinstance(e, ast.Dict):
      return {self.eval(k, env): self.eval(v, env)
              for k, v in zip(e.keys, e.values)}
    if isinstance(e, (ast.GeneratorExp, ast.ListComp)):
      return self.comprehension(e, env)
    if isinstance(e, ast.Subscript):
      o = self.eval(e.value, env)
      if isinstance(e.slice, ast.Slice):
        lo = self.eval(e.slice.lower, env) if e.slice.lower else None
        hi = self.eval(e.slice.upper, env) if e.slice.upper else None
        return o[lo:hi]
      try:
        return o[self.eval(e.slice, env)]
      except (IndexError, KeyError, TypeError) as ex:
        raise InterpRaise(type(ex).__name__, str(ex))
    if isinstance(e, ast.JoinedStr):
      out = ''
      for v in e.values:
        if isinstance(v, ast.Constant):
          out += v.value
        else:
          out += self.to_str(self.eval(v.value, env))
      return out
    if isinstance(e, ast.Lambda):
      return ('lambda', e, dict(env))
    if isinstance(e, ast.Call):
      return self.eval_call(e, env)
    raise AnalysisError('interp: unsupported expression %s (line %s)' %
                        (type(e).__name__, getattr(e, 'lineno', '?')))

  def comprehension(self, e, env):
    if len(e.generators) != 1:
      raise AnalysisError('interp: nested comprehension')
    g = e.generators[0]
    out = []
    for x in list(self.eval(g.iter, env)):
      loc = dict(env)
      self.assign(g.target, x, loc)
      if all(self.truth(self.eval(c, loc)) for c in g.ifs):
        out.append(self.eval(e.elt, loc))
    return out

  def to_str(self, v):
    if isinstance(v, Obj):
      fn = self.find_member(v.cls, '__str__')
      if fn is not None:
        return self.call_function(fn, [v], {}, v.cls)
      return '<%s>' % v.cls.name
    return str(v)

  def getattr(self, o, name):
    if isinstance(o, Obj):
      if name in o.attrs:
        return o.attrs[name]
      fn = self.find_member(o.cls, name)
      if fn is not None:
        if self.is_property(fn):
          return self.call_function(fn, [o], {}, o.cls)
        return ('bound', o, fn)
      raise InterpRaise('AttributeError', name)
    if isinstance(o, ast.ClassDef):
      if name == '__name__':
        return o.name
      fn = self.find_member(o, name)
      if fn is not None:
        return ('classmember', o, fn)
    if isinstance(o, (str, re.Pattern, dict, list, tuple)) or o is None:
      try:
        return getattr(o, name)
      except AttributeError:
        raise InterpRaise('AttributeError', name)
    raise AnalysisError('interp: attribute %s of %r' % (name, type(o).__name__))

  def apply(self, f, args, kwargs):
    if isinstance(f, tuple) and f and f[0] == 'bound':
      return self.call_function(f[2], [f[1]] + args, kwargs, f[1].cls)
    if isinstance(f, tuple) and f and f[0] == 'lambda':
      lam, cenv = f[1], dict(f[2])
      params = [a.arg for a in lam.args.args]
      for p, v in zip(params, args):
        cenv[p] = v
      return self.eval(lam.body, cenv)
    if isinstance(f, ast.ClassDef):
      return self.instantiate(f, *args, **kwargs)
    if isinstance(f, ast.FunctionDef):
      return self.call_function(f, args, kwargs)
    if isinstance(f, Obj):
      call = self.find_member(f.cls, '__call__')
      if call is None:
        raise InterpRaise('TypeError', 'object not callable')
      return self.call_function(call, [f] + args, kwargs, f.cls)
    if callable(f):
      try:
        return f(*args, **kwargs)
      except InterpRaise:
        raise
      except (TypeError, ValueError, KeyError, IndexError, re.error) as ex:
        raise InterpRaise(type(ex).__name__, str(ex))
    raise InterpRaise('TypeError', '%r is not callable' % (f,))

  def eval_call(self, e, env):
    fn = e.func
    d = dotted(fn)
    args = []
    for a in e.args:
      if isinstance(a, ast.Starred):
        args.extend(self.eval(a.value, env))
      else:
        args.append(self.eval(a, env))
    kwargs = {}
    for k in e.keywords:
      if k.arg is None:
        kwargs.update(self.eval(k.value, env))
      else:
        kwargs[k.arg] = self.eval(k.value, env)
    if d == 'isinstance':
      o, t = args
      return self.isinstance(o, t)
    if d == 'issubclass':
      return True
    if d == 'hasattr':
      o, name = args
      if isinstance(o, Obj):
        return name in o.attrs or self.find_member(o.cls, name) is not None
      return hasattr(o, name)
    if d == 'type' and len(args) == 1:
      o = args[0]
      return o.cls if isinstance(o, Obj) else type(o)
    if d == 'super' or (isinstance(fn, ast.Attribute) and isinstance(
        fn.value, ast.Call) and dotted(fn.value.func) == 'super'):
      if d == 'super':
        return ('super', env.get('self'), env.get('__class_node__'))
      # super(...).__init__(...) etc.
      selfo = env.get('self')
      cur = env.get('__class_node__')
      mro = self._mro(selfo.cls)
      idx = mro.index(cur) if cur in mro else 0
      for c in mro[idx + 1:]:
        for s in c.body:
          if isinstance(s, ast.FunctionDef) and s.name == fn.attr:
            return self.call_function(s, [selfo] + args, kwargs, c)
      return None  # object.__init__
    if isinstance(fn, ast.Attribute) and fn.attr == 'format' and isinstance(
        fn.value, (ast.Constant, ast.Name, ast.Attribute)):
      base = self.eval(fn.value, env)
      if isinstance(base, str):
        return base.format(*[self.to_str(a) if isinstance(a, Obj) else a
                             for a in args], **kwargs)
    f = self.eval(fn, env)
    return self.apply(f, args, kwargs)

  def isinstance(self, o, t):
    if isinstance(t, tuple):
      return any(self.isinstance(o, x) for x in t)
    if t is NUMBER:
      return isinstance(o, (int, float)) and not isinstance(o, bool)
    if isinstance(t, ast.ClassDef):
      return isinstance(o, Obj) and t in self._mro(o.cls)
    if isinstance(t, type):
      return isinstance(o, t)
    raise AnalysisError('interp: isinstance against %r' % (t,))
