"""Checker self-validation (thorough tier). Filled in later."""


def run_for(prop):
  return None
