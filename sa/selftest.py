"""Checker self-validation (thorough tier and development).

Every variant is an in-memory edit of one source file of the *current* tree
(nothing is written under /repo, nothing is executed): `fire` variants break
one rule instance and must be reported by exactly the named rule; `silent`
variants are behaviour-preserving rewrites and must not be reported at all.
A variant whose `old` text no longer occurs in the file is skipped (counted).
A wrong verdict is a SELFTEST-FAIL: the machinery is broken (exit 2), never a
property violation.
"""

import concurrent.futures
import importlib
import os
import sys

sys.path.insert(0, os.path.dirname(os.path.dirname(os.path.abspath(__file__))))

from sa import core


def load_variants(prop):
  try:
    mod = importlib.import_module('sa.variants.%s' % prop.lower())
  except ImportError:
    return []
  return list(mod.VARIANTS)


def _run_one(args):
  prop, v, baseline = args
  baseline = set(baseline)
  from sa import check  # pylint: disable=g-import-not-at-top
  path = os.path.join(core.REPO_DIR, v['file'])
  try:
    with open(path, encoding='utf-8') as f:
      src = f.read()
  except OSError:
    return v['name'], 'skipped', 'file missing'
  if src.count(v['old']) != 1:
    return v['name'], 'skipped', 'anchor text occurs %d times' % src.count(v['old'])
  new = src.replace(v['old'], v['new'])
  try:
    compile(new, v['file'], 'exec')
  except SyntaxError as e:
    return v['name'], 'error', 'variant does not compile: %s' % e
  try:
    _, rep = check.run_property(prop, 'quick', write=False,
                                overrides={v['file']: new})
    new_v = [x for x in rep.violations
             if (x['rule'], x['key']) not in baseline]
    if not new_v and rep.analysis_errors:
      raise core.AnalysisError('; '.join(rep.analysis_errors)[:300])
    rules = sorted(set(x['rule'] for x in new_v))
  except core.AnalysisError as e:
    if v['expect'] == 'fire' and v.get('rule') == 'ANALYSIS-ERROR':
      return v['name'], 'ok', 'analysis error as expected'
    return v['name'], 'error', 'ANALYSIS-ERROR on variant: %s' % e
  if v['expect'] == 'silent':
    if rules:
      return v['name'], 'fail', 'behaviour-preserving twin reported by %s' % rules
    return v['name'], 'ok', 'silent'
  want = v['rule'] if isinstance(v['rule'], (list, tuple)) else [v['rule']]
  if not any(r in rules for r in want) and any(b[0] in want for b in baseline):
    return v['name'], 'skipped', 'rule already violated on the current tree'
  if not any(r in rules for r in want):
    return v['name'], 'fail', 'expected %s, reported %s' % (want, rules)
  return v['name'], 'ok', 'reported by %s' % rules


def load_seeds(prop):
  """Kept seeded changes for `prop` (/verif/seeded/<id>/patch.diff): replayed
  in memory against the current tree; each must add a violation."""
  import glob  # pylint: disable=g-import-not-at-top
  import json  # pylint: disable=g-import-not-at-top
  out = []
  base = os.path.join(os.path.dirname(os.path.dirname(os.path.abspath(
      __file__))), 'seeded')
  for d in sorted(glob.glob(os.path.join(base, '*'))):
    pf, mf = os.path.join(d, 'patch.diff'), os.path.join(d, 'meta.json')
    if not (os.path.isfile(pf) and os.path.isfile(mf)):
      continue
    try:
      with open(mf, encoding='utf-8') as f:
        meta = json.load(f)
    except ValueError:
      continue
    if meta.get('property') == prop:
      out.append((os.path.basename(d), pf))
  return out


def _run_seed(args):
  prop, name, pf, baseline = args
  baseline = set(baseline)
  from sa import check  # pylint: disable=g-import-not-at-top
  from sa import patchlib  # pylint: disable=g-import-not-at-top

  def read(rel):
    with open(os.path.join(core.REPO_DIR, rel), encoding='utf-8') as f:
      return f.read()
  try:
    with open(pf, encoding='utf-8') as f:
      ov = patchlib.overrides_for(f.read(), read)
    for rel, src in ov.items():
      if rel.endswith('.py'):
        compile(src, rel, 'exec')
  except (patchlib.PatchError, OSError, SyntaxError, IndexError) as e:
    return name, 'skipped', 'seed does not apply to the current tree: %s' % e
  try:
    _, rep = check.run_property(prop, 'quick', write=False, overrides=ov)
  except core.AnalysisError as e:
    return name, 'error', 'ANALYSIS-ERROR on seed: %s' % e
  new_v = [x for x in rep.violations if (x['rule'], x['key']) not in baseline]
  if new_v:
    return name, 'ok', 'reported by %s' % sorted(set(x['rule'] for x in new_v))
  if rep.analysis_errors:
    return name, 'error', 'ANALYSIS-ERROR on seed: %s' % '; '.join(
        rep.analysis_errors)[:300]
  if baseline:
    return name, 'skipped', 'current tree already violates; no new report'
  return name, 'fail', 'seeded change not reported'


def load_benign():
  """Kept behaviour-preserving refactorings (/verif/benign/<id>/patch.diff,
  written by independent agents): replayed in memory against the current tree;
  none may add a violation to any property."""
  import glob  # pylint: disable=g-import-not-at-top
  base = os.path.join(os.path.dirname(os.path.dirname(os.path.abspath(
      __file__))), 'benign')
  return [(os.path.basename(os.path.dirname(p)), p)
          for p in sorted(glob.glob(os.path.join(base, '*', 'patch.diff')))]


def _run_benign(args):
  prop, name, pf, baseline, base_errs = args
  baseline = set(baseline)
  from sa import check  # pylint: disable=g-import-not-at-top
  from sa import patchlib  # pylint: disable=g-import-not-at-top

  def read(rel):
    with open(os.path.join(core.REPO_DIR, rel), encoding='utf-8') as f:
      return f.read()
  try:
    with open(pf, encoding='utf-8') as f:
      ov = patchlib.overrides_for(f.read(), read)
    for rel, src in ov.items():
      if rel.endswith('.py'):
        compile(src, rel, 'exec')
  except (patchlib.PatchError, OSError, SyntaxError, IndexError) as e:
    return name, 'skipped', 'does not apply to the current tree: %s' % e
  try:
    _, rep = check.run_property(prop, 'quick', write=False, overrides=ov)
  except core.AnalysisError as e:
    return name, 'fail', 'ANALYSIS-ERROR on a behaviour-preserving patch: %s' % e
  new_v = [x for x in rep.violations if (x['rule'], x['key']) not in baseline]
  if new_v:
    return name, 'fail', 'behaviour-preserving refactoring reported by %s' % \
        sorted(set('%s %s' % (x['rule'], x['key'][:60]) for x in new_v))
  errs = [e for e in rep.analysis_errors if e not in base_errs]
  if errs:
    return name, 'fail', 'ANALYSIS-ERROR on a behaviour-preserving patch: %s' \
        % errs[0][:200]
  return name, 'ok', 'silent'


def run_for(prop, jobs=None, baseline=None):
  variants = load_variants(prop)
  if baseline is None:
    from sa import check  # pylint: disable=g-import-not-at-top
    _, rep = check.run_property(prop, 'quick', write=False)
    baseline = [(v['rule'], v['key']) for v in rep.violations]
  jobs = jobs or min(16, os.cpu_count() or 4)
  results = []
  with concurrent.futures.ProcessPoolExecutor(max_workers=jobs) as ex:
    for r in ex.map(_run_one, [(prop, v, tuple(baseline)) for v in variants]):
      results.append(r)
  seeds = load_seeds(prop)
  seed_results = []
  with concurrent.futures.ProcessPoolExecutor(max_workers=jobs) as ex:
    for r in ex.map(_run_seed, [(prop, n, pf, tuple(baseline))
                                for n, pf in seeds]):
      seed_results.append(r)
  benign_all = load_benign()
  benign_results = []
  from sa import check as _check  # pylint: disable=g-import-not-at-top
  from sa import patchlib as _patchlib  # pylint: disable=g-import-not-at-top
  _, _rep0 = _check.run_property(prop, 'quick', write=False)
  base_errs = tuple(_rep0.analysis_errors)
  # only refactorings of modules this property's rules read
  touched = {f.module.relpath for f in _rep0.repo.accessed}
  benign = []
  for n, pf in benign_all:
    try:
      with open(pf, encoding='utf-8') as fh:
        files = set(_patchlib.parse(fh.read()))
    except (OSError, _patchlib.PatchError):
      files = set()
    if files & touched:
      benign.append((n, pf))
  with concurrent.futures.ProcessPoolExecutor(max_workers=jobs) as ex:
    for r in ex.map(_run_benign, [(prop, n, pf, tuple(baseline), base_errs)
                                  for n, pf in benign], chunksize=2):
      benign_results.append(r)
  bad = [r for r in results + seed_results + benign_results
         if r[1] in ('fail', 'error')]
  summary = {
      'benign_refactorings_kept': len(benign_all),
      'benign_refactorings_replayed': len(benign),
      'benign_refactorings_silent': sum(1 for r in benign_results
                                        if r[1] == 'ok'),
      'benign_not_silent': ['%s: %s' % (r[0], r[2]) for r in benign_results
                            if r[1] != 'ok'],
      'seeded_changes_replayed': len(seeds),
      'seeded_changes_reported': sum(1 for r in seed_results if r[1] == 'ok'),
      'seeded_results': ['%s: %s (%s)' % r for r in seed_results],
      'variants': len(variants),
      'fired_as_expected': sum(
          1 for v, r in zip(variants, results)
          if v['expect'] == 'fire' and r[1] == 'ok'),
      'silent_as_expected': sum(
          1 for v, r in zip(variants, results)
          if v['expect'] == 'silent' and r[1] == 'ok'),
      'skipped': [r[0] for r in results if r[1] == 'skipped'],
      'results': ['%s: %s (%s)' % r for r in results],
  }
  if bad:
    for r in bad:
      print('SELFTEST-FAIL property=%s variant=%s: %s' % (prop, r[0], r[2]))
    raise core.AnalysisError('checker self-validation failed for %d variant(s)'
                             % len(bad))
  return summary


if __name__ == '__main__':
  import sys
  import json
  for p in sys.argv[1:]:
    try:
      print(json.dumps(run_for(p), indent=1))
    except core.AnalysisError as e:
      print('ANALYSIS-ERROR', e)
