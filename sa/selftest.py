"""Checker self-validation (thorough tier and development).

Every variant is an in-memory edit of one source file of the *current* tree
(nothing is written under /repo, nothing is executed): `fire` variants break
one rule instance and must be reported by exactly the named rule; `silent`
variants are behaviour-preserving rewrites and must not be reported at all.
A variant whose `old` text no longer occurs in the file is skipped (counted).
A wrong verdict is a SELFTEST-FAIL: the machinery is broken (exit 2), never a
property violation.
"""

import concurrent.futures
import importlib
import os
import sys

sys.path.insert(0, os.path.dirname(os.path.dirname(os.path.abspath(__file__))))

from sa import core


def load_variants(prop):
  try:
    mod = importlib.import_module('sa.variants.%s' % prop.lower())
  except ImportError:
    return []
  return list(mod.VARIANTS)


def _run_one(args):
  prop, v, baseline = args
  baseline = set(baseline)
  from sa import check  # pylint: disable=g-import-not-at-top
  path = os.path.join(core.REPO_DIR, v['file'])
  try:
    with open(path, encoding='utf-8') as f:
      src = f.read()
  except OSError:
    return v['name'], 'skipped', 'file missing'
  if src.count(v['old']) != 1:
    return v['name'], 'skipped', 'anchor text occurs %d times' % src.count(v['old'])
  new = src.replace(v['old'], v['new'])
  try:
    compile(new, v['file'], 'exec')
  except SyntaxError as e:
    return v['name'], 'error', 'variant does not compile: %s' % e
  try:
    _, rep = check.run_property(prop, 'quick', write=False,
                                overrides={v['file']: new})
    new_v = [x for x in rep.violations
             if (x['rule'], x['key']) not in baseline]
    if not new_v and rep.analysis_errors:
      raise core.AnalysisError('; '.join(rep.analysis_errors)[:300])
    rules = sorted(set(x['rule'] for x in new_v))
  except core.AnalysisError as e:
    if v['expect'] == 'fire' and v.get('rule') == 'ANALYSIS-ERROR':
      return v['name'], 'ok', 'analysis error as expected'
    return v['name'], 'error', 'ANALYSIS-ERROR on variant: %s' % e
  if v['expect'] == 'silent':
    if rules:
      return v['name'], 'fail', 'behaviour-preserving twin reported by %s' % rules
    return v['name'], 'ok', 'silent'
  want = v['rule'] if isinstance(v['rule'], (list, tuple)) else [v['rule']]
  if not any(r in rules for r in want) and any(b[0] in want for b in baseline):
    return v['name'], 'skipped', 'rule already violated on the current tree'
  if not any(r in rules for r in want):
    return v['name'], 'fail', 'expected %s, reported %s' % (want, rules)
  return v['name'], 'ok', 'reported by %s' % rules


def run_for(prop, jobs=None, baseline=None):
  variants = load_variants(prop)
  if not variants:
    return {'variants': 0}
  if baseline is None:
    from sa import check  # pylint: disable=g-import-not-at-top
    _, rep = check.run_property(prop, 'quick', write=False)
    baseline = [(v['rule'], v['key']) for v in rep.violations]
  jobs = jobs or min(16, os.cpu_count() or 4)
  results = []
  with concurrent.futures.ProcessPoolExecutor(max_workers=jobs) as ex:
    for r in ex.map(_run_one, [(prop, v, tuple(baseline)) for v in variants]):
      results.append(r)
  bad = [r for r in results if r[1] in ('fail', 'error')]
  summary = {
      'variants': len(variants),
      'fired_as_expected': sum(
          1 for v, r in zip(variants, results)
          if v['expect'] == 'fire' and r[1] == 'ok'),
      'silent_as_expected': sum(
          1 for v, r in zip(variants, results)
          if v['expect'] == 'silent' and r[1] == 'ok'),
      'skipped': [r[0] for r in results if r[1] == 'skipped'],
      'results': ['%s: %s (%s)' % r for r in results],
  }
  if bad:
    for r in bad:
      print('SELFTEST-FAIL property=%s variant=%s: %s' % (prop, r[0], r[2]))
    raise core.AnalysisError('checker self-validation failed for %d variant(s)'
                             % len(bad))
  return summary


if __name__ == '__main__':
  import sys
  import json
  for p in sys.argv[1:]:
    try:
      print(json.dumps(run_for(p), indent=1))
    except core.AnalysisError as e:
      print('ANALYSIS-ERROR', e)
