"""Reusable rule templates (T-DTABLE, T-MUST, T-DOM, T-REGION, T-WHO ...)."""

import ast
import itertools

from sa import cfg as cfgm
from sa import core
from sa.core import (AnalysisError, call_name, dotted, last_attr, norm, site,
                     unparse, walk_no_nested)


# --------------------------------------------------------------------------
# Decision tables


def enumerate_valuations(atoms, consistent=None):
  for bits in itertools.product((False, True), repeat=len(atoms)):
    v = dict(zip(atoms, bits))
    if consistent is None or consistent(v):
      yield v


def make_decider(valuation, classify, on_unknown=None):
  """decide() for cfg.walk_paths: evaluates test atoms under a valuation.

  classify(expr, steps) -> atom key | ('not', key) | bool | None (unknown)."""

  def leaf_factory(steps, depth=0):

    def leaf(expr):
      if isinstance(expr, ast.Name) and depth < 4:
        rhs = cfgm.Path(steps, None).value_of(expr.id)
        if rhs is not None:
          v = cfgm.beval(rhs, leaf_factory(_steps_before_def(steps, expr.id),
                                           depth + 1))
          if v is not None:
            return v
      # `<local> is None` / `is not None`: decided by what the local was last
      # bound to on this path (None, or an object just constructed)
      if isinstance(expr, ast.Compare) and len(expr.ops) == 1 and isinstance(
          expr.ops[0], (ast.Is, ast.IsNot)) and isinstance(
              expr.left, ast.Name) and isinstance(
                  expr.comparators[0], ast.Constant) and \
          expr.comparators[0].value is None and depth < 4:
        res = cfgm.path_resolve(cfgm.Path(steps, None), expr.left)
        is_none = None
        if isinstance(res, ast.Constant):
          is_none = res.value is None
        elif isinstance(res, (ast.Tuple, ast.List, ast.Dict, ast.Set)):
          is_none = False
        elif isinstance(res, ast.Call) and (last_attr(res) or 'x')[:1].isupper():
          is_none = False  # a constructor call
        if is_none is not None:
          return is_none if isinstance(expr.ops[0], ast.Is) else not is_none
      k = classify(expr, steps)
      if k is None:
        if on_unknown is not None:
          on_unknown(expr)
        return None
      if isinstance(k, bool):
        return k
      if isinstance(k, tuple) and k[0] == 'not':
        return not valuation[k[1]]
      return valuation[k]

    return leaf

  def decide(node, steps):
    if node.kind != 'test':
      return None
    v = cfgm.beval(node.ast, leaf_factory(steps))
    if v is None:
      return None
    return 'T' if v else 'F'

  decide.leaf_factory = leaf_factory
  return decide


def _steps_before_def(steps, name):
  for i in range(len(steps) - 1, -1, -1):
    s = steps[i][0].ast
    if steps[i][0].kind == 'stmt' and isinstance(s, ast.Assign) and \
        len(s.targets) == 1 and isinstance(s.targets[0], ast.Name) and \
        s.targets[0].id == name:
      return steps[:i]
  return steps


def eval_expr(expr, valuation, classify, path, before_index=None):
  """Three-valued value of a boolean expression at a point of a path."""
  steps = path.steps if before_index is None else path.steps[:before_index]
  dec = make_decider(valuation, classify)
  return cfgm.beval(expr, dec.leaf_factory(steps))


def decision_table(report, rule, finfo, atoms, classify, spec, consistent=None,
                   follow_exc=None, describe=None):
  """Walks finfo's CFG under every consistent valuation of `atoms` and hands
  every resulting path to spec(valuation, path) -> None | error text.

  Exhaustive over the atom abstraction; test atoms not recognised by classify
  fork both ways (both continuations must satisfy the spec)."""
  g = cfgm.cfg_of(finfo.node)
  n_val = 0
  n_paths = 0
  bad = 0
  seen_cat = {}
  unknown = {}
  for val in enumerate_valuations(atoms, consistent):
    n_val += 1
    try:
      classify.valuation = val  # a classifier may consult the row it is in
    except AttributeError:
      pass
    dec = make_decider(val, classify,
                       on_unknown=lambda e: unknown.setdefault(norm(e), e))
    val_paths = cfgm.walk_paths(g, dec, follow_exc=follow_exc)
    if not val_paths and 'no-terminating-path' not in seen_cat:
      seen_cat['no-terminating-path'] = 1
      bad += 1
      report.violation(
          rule, finfo.qualname, 'table|no-terminating-path', finfo.node,
          'under valuation {%s} no path through %s reaches an exit within two '
          'trips round any loop: the function cannot leave its loop (e.g. the '
          'return that ends the iteration is gone)' %
          (', '.join('%s=%s' % (k, val[k]) for k in atoms), finfo.qualname))
    for p in val_paths:
      n_paths += 1
      err = spec(val, p)
      if err:
        bad += 1
        cat = err.split(':')[0]
        if cat in seen_cat:
          seen_cat[cat] += 1
          continue
        seen_cat[cat] = 1
        last = p.steps[-1][0] if p.steps else g.entry
        tests = [
            '%s=%s' % (norm(n.ast)[:40], l) for n, l in p.steps
            if n.kind == 'test'
        ]
        report.violation(
            rule, finfo.qualname, 'table|' + cat,
            last.ast if last.ast is not None else finfo.node,
            '%s; first failing valuation {%s}; branch decisions %s' %
            (err, ', '.join('%s=%s' % (k, val[k]) for k in atoms), tests))
  report.table(rule, n_val)
  if not bad:
    report.ok(rule, finfo.node,
              '%s: decision table over atoms %s: %d valuations, %d paths agree '
              'with the specification%s' %
              (finfo.qualname, list(atoms), n_val, n_paths,
               (' (%s)' % describe) if describe else ''))
  return n_val, n_paths, unknown


# --------------------------------------------------------------------------
# Path / dominance helpers on top of the CFG


def cfg(finfo):
  return cfgm.cfg_of(finfo.node)


def nodes_with_call(g, attr=None, name=None, pred=None):
  out = []
  for n in g.nodes:
    for sub in n.subnodes():
      if isinstance(sub, ast.Call):
        if attr is not None and last_attr(sub) != attr:
          continue
        if name is not None and call_name(sub) != name:
          continue
        if pred is not None and not pred(sub):
          continue
        out.append((n, sub))
  return out


def nodes_assigning(g, target_dotted=None, attr=None):
  """CFG stmt nodes assigning to a dotted target (exact) or any `.attr`."""
  out = []
  for n in g.nodes:
    if n.kind != 'stmt' or n.ast is None:
      continue
    for t in core.assigned_targets(n.ast):
      d = dotted(t)
      if target_dotted is not None and d == target_dotted:
        out.append(n)
      elif attr is not None and isinstance(t, ast.Attribute) and t.attr == attr:
        out.append(n)
  return out


def test_nodes(g, pred):
  return [n for n in g.nodes if n.kind == 'test' and pred(n.ast)]


def edge_avoider(test_pred, label):
  """avoid_edge callback: edges leaving a matching test atom with `label`."""

  def f(src, l, dst):
    return src.kind == 'test' and l == label and test_pred(src.ast)

  return f


def any_edge(*fs):

  def f(src, l, dst):
    return any(x(src, l, dst) for x in fs)

  return f


def is_call_to(expr, name=None, attr=None):
  if not isinstance(expr, ast.Call):
    return False
  if name is not None:
    return call_name(expr) == name
  return last_attr(expr) == attr


def ends_with(d, suffix):
  return d is not None and (d == suffix or d.endswith('.' + suffix))


def in_handler_or_finally(node, stop_func=None):
  """Innermost (try, field) where field in handlers/finalbody, else None."""
  for t, field in core.enclosing_try_field(node):
    if field in ('handlers', 'finalbody'):
      return t, field
  return None


def shielded_by_try(node, exc_names=('Exception', 'BaseException', None)):
  """The innermost Try whose *body* contains node and that has a handler for one
  of exc_names (None = bare except).  Returns (try, handler) or None."""
  for t, field in core.enclosing_try_field(node):
    if field != 'body':
      continue
    for h in t.handlers:
      names = []
      if h.type is None:
        names = [None]
      elif isinstance(h.type, ast.Tuple):
        names = [last_attr(e) for e in h.type.elts]
      else:
        names = [last_attr(h.type)]
      if any(nm in exc_names for nm in names):
        return t, h
  return None


def handler_swallows(handler):
  """True if no path through the handler body re-raises / returns / breaks."""
  for n in walk_no_nested(handler):
    if isinstance(n, (ast.Raise, ast.Return, ast.Break)):
      return False
  return True


def func_body_calls(finfo, attr=None, name=None):
  return core.calls_in(finfo.node, name=name, attr=attr)


def order_on_all_paths(g, first_pred, second_pred):
  """No path reaches a `second` node without having passed a `first` node."""
  seconds = [n for n in g.nodes if second_pred(n)]
  for s in seconds:
    if not g.dominated_by(s, first_pred):
      return False, s
  return True, None


def stmt_index(block, node):
  """Index in `block` (list of stmts) of the statement containing node."""
  for i, s in enumerate(block):
    if s is node or any(n is node for n in ast.walk(s)):
      return i
  return -1


def resolve_local(finfo, name, before=None):
  """Unique simple assignment `name = expr` in the function (None if 0 or >1)."""
  defs = []
  for n in walk_no_nested(finfo.node):
    if isinstance(n, ast.Assign) and len(n.targets) == 1 and \
        isinstance(n.targets[0], ast.Name) and n.targets[0].id == name:
      defs.append(n.value)
  return defs


def param_names(fnode):
  a = fnode.args
  return [x.arg for x in a.posonlyargs + a.args + a.kwonlyargs]


def check_no_dead_code(report, repo, rule):
  """Generic obligation: a function analysed by the rules has no statement
  that is unreachable in its CFG (a rule that quantifies over paths would
  otherwise hold vacuously for the cut-off part, e.g. a loop moved behind a
  return)."""
  report.rule(rule, 'every statement of every function the rules analysed is '
              'reachable from the function entry (path rules are not vacuous)')
  n = 0
  for f in list(repo.accessed):
    try:
      g = cfgm.cfg_of(f.node)
    except AnalysisError:
      continue
    reach = set()
    for node in g.nodes:
      if node.ast is not None:
        reach.add(id(node.ast))
        if node.kind in ('test', 'for', 'with_enter', 'handler', 'loop') and \
            node.tag is not None and not isinstance(node.tag, str):
          reach.add(id(node.tag))
    dead = []
    for st in walk_no_nested(f.node):
      if not isinstance(st, ast.stmt) or st is f.node:
        continue
      if isinstance(st, (ast.If, ast.While, ast.Try, ast.With, ast.For,
                         ast.FunctionDef, ast.ClassDef, ast.Assert)):
        if isinstance(st, (ast.For, ast.With)) and id(st) not in reach:
          dead.append(st)
        continue
      if isinstance(st, ast.Expr) and isinstance(st.value, ast.Constant):
        continue
      # defensive leftovers (`raise ...` / bare return / pass after an
      # exhaustive branch) carry no behaviour: not reported
      if isinstance(st, (ast.Raise, ast.Pass, ast.Break, ast.Continue)) or (
          isinstance(st, ast.Return) and not any(
              isinstance(x, ast.Call) for x in ast.walk(st))):
        continue
      if id(st) not in reach:
        dead.append(st)
    n += 1
    if dead:
      report.violation(
          rule, f.qualname, 'unreachable:' + norm(dead[0]), dead[0],
          '%s contains unreachable code (%s ...): everything the rules show '
          'about paths through it is vacuous for that part, and the behaviour '
          'it implemented is gone' % (f.qualname, norm(dead[0])[:60]))
  report.ok(rule, 'openhtf', '%d analysed functions have no unreachable '
            'statements' % n)


# ---------------------------------------------------------------------------
# reaching definitions (name-independent rules resolve locals through these)

def defs_at(node):
  """Local names (re)bound by a CFG node -> {name: value expr or None}."""
  out = {}
  a = node.ast
  if node.kind == 'stmt' and a is not None:
    if isinstance(a, ast.Assign):
      for t in a.targets:
        if isinstance(t, ast.Name):
          out[t.id] = a.value
        else:
          for x in core._flatten_target(t):  # pylint: disable=protected-access
            if isinstance(x, ast.Name):
              out[x.id] = None
    elif isinstance(a, ast.AnnAssign) and a.value is not None and isinstance(
        a.target, ast.Name):
      out[a.target.id] = a.value
    elif isinstance(a, ast.AugAssign) and isinstance(a.target, ast.Name):
      out[a.target.id] = None
    elif isinstance(a, ast.Delete):
      for t in a.targets:
        if isinstance(t, ast.Name):
          out[t.id] = None
    elif isinstance(a, (ast.Import, ast.ImportFrom)):
      for al in a.names:
        out[(al.asname or al.name).split('.')[0]] = None
  elif node.kind == 'for' and a is not None:
    for x in core._flatten_target(a.target):  # pylint: disable=protected-access
      if isinstance(x, ast.Name):
        out[x.id] = None
  elif node.kind == 'with_enter' and a is not None:
    items = a.items if isinstance(a, ast.With) else []
    for i in items:
      if i.optional_vars is not None:
        for x in core._flatten_target(i.optional_vars):  # pylint: disable=protected-access
          if isinstance(x, ast.Name):
            out[x.id] = i.context_expr
  elif node.kind == 'handler' and a is not None and getattr(a, 'name', None):
    out[a.name] = None
  for e in node.exprs:
    if e is None:
      continue
    for x in walk_no_nested(e):
      if isinstance(x, ast.NamedExpr) and isinstance(x.target, ast.Name):
        out[x.target.id] = x.value
  return out


def reaching_defs(g, node, name):
  """[(def node or g.entry, value expr or None)] of `name` that reach the
  evaluation of `node` (g.entry stands for a parameter / no definition)."""
  out = []
  seen = set()
  stack = [p for _, p in node.preds]
  while stack:
    n = stack.pop()
    if n.id in seen:
      continue
    seen.add(n.id)
    d = defs_at(n)
    if name in d:
      out.append((n, d[name]))
      continue
    if n is g.entry:
      out.append((n, None))
      continue
    for _, p in n.preds:
      stack.append(p)
  return out


def value_exprs(g, node, expr, depth=3):
  """Expressions `expr` may evaluate to at `node`, following local names
  through their reaching definitions (bounded).  A name with an unknown /
  parameter definition is returned as itself."""
  if not isinstance(expr, ast.Name) or depth == 0:
    return [expr]
  out = []
  for dn, val in reaching_defs(g, node, expr.id):
    if val is None or dn is g.entry:
      out.append(expr)
    else:
      out.extend(value_exprs(g, dn, val, depth - 1))
  return out or [expr]


def local_from(finfo, pred, default=None, which=0, elt=0):
  """Name of the local variable bound from an expression satisfying `pred`
  (simple assignment, with-as, for target or walrus), in source order; the
  rules use this instead of spelling a local's name.  `default` if none."""
  found = []
  for n in walk_no_nested(finfo.node):
    if isinstance(n, ast.Assign) and len(n.targets) == 1 and isinstance(
        n.targets[0], ast.Name) and pred(n.value):
      found.append((n.lineno, n.col_offset, n.targets[0].id))
    elif isinstance(n, ast.Assign) and len(n.targets) == 1 and isinstance(
        n.targets[0], ast.Tuple) and len(n.targets[0].elts) > elt and \
        isinstance(n.targets[0].elts[elt], ast.Name) and pred(n.value):
      # tuple unpacking: the elt-th name
      found.append((n.lineno, n.col_offset, n.targets[0].elts[elt].id))
    elif isinstance(n, ast.AnnAssign) and n.value is not None and isinstance(
        n.target, ast.Name) and pred(n.value):
      found.append((n.lineno, n.col_offset, n.target.id))
    elif isinstance(n, ast.NamedExpr) and pred(n.value):
      found.append((n.lineno, n.col_offset, n.target.id))
    elif isinstance(n, ast.With):
      for i in n.items:
        if isinstance(i.optional_vars, ast.Name) and pred(i.context_expr):
          found.append((n.lineno, n.col_offset, i.optional_vars.id))
    elif isinstance(n, ast.For) and isinstance(n.target, ast.Name) and pred(
        n.iter):
      found.append((n.lineno, n.col_offset, n.target.id))
  names = []
  for _, _, x in sorted(found):
    if x not in names:
      names.append(x)
  if len(names) <= which:
    return default
  name = names[which]
  # follow plain copies `m = name` (e.g. the result variable of an inlined
  # helper handed on to the caller's local)
  for _ in range(4):
    nxt = [n.targets[0].id for n in walk_no_nested(finfo.node)
           if isinstance(n, ast.Assign) and len(n.targets) == 1 and isinstance(
               n.targets[0], ast.Name) and isinstance(n.value, ast.Name) and
           n.value.id == name and n.targets[0].id != name]
    if len(set(nxt)) != 1:
      break
    # only a pure hand-over: the receiving name has no other definition
    if len(resolve_local(finfo, nxt[0])) != 1:
      break
    name = nxt[0]
  return name


def calls(name=None, attr=None):
  """Predicate factory for local_from: the expression is a call to ..."""
  def pred(e):
    if not isinstance(e, ast.Call):
      return False
    if name is not None and call_name(e) != name:
      return False
    if attr is not None and last_attr(e) != attr:
      return False
    return True
  return pred


def contains_call(name=None, attr=None):
  inner = calls(name, attr)
  return lambda e: any(inner(x) for x in ast.walk(e))


def branch_must_raise(g, test_node, label):
  """Every normal continuation of test_node's `label` branch ends in an
  explicit raise (no path to the normal exit, transparent statements such as
  logging in between are allowed)."""
  first = test_node.succ(label)
  if first is None:
    return False
  seen = [first] + g.reach([first], avoid_edge=lambda a, l, b: l == 'exc')
  if any(n is g.exit for n in seen):
    return False
  return any(isinstance(n.ast, ast.Raise) for n in seen)


def is_transparent(node):
  """A CFG node that is only a logging statement (see cfg.is_log_call): it
  has no effect any rule is about and may stand anywhere."""
  a = node.ast
  return node.kind == 'stmt' and isinstance(a, ast.Expr) and \
      cfgm.is_log_call(a.value)


def resolved(finfo, e, depth=3):
  """[e] if e is not a local name; else the expressions assigned to that name
  in the function (followed through name-to-name copies, bounded).  Lets a
  rule accept `f(g(x))` and `t = g(x); f(t)` alike."""
  if not isinstance(e, ast.Name) or depth == 0:
    return [e]
  defs = resolve_local(finfo, e.id)
  if not defs:
    return [e]
  out = []
  for d in defs:
    out.extend(resolved(finfo, d, depth - 1))
  return out


def quantifier_loops(g):
  """Early-return loops of the canonical quantifier shape (core C8 turns
  `return any/all(...)` into it as well):

      for x in IT:            ->  dict(kind='any'|'all', loop=<for node>,
        if <conds>: return K        iter=IT, target=x,
      return not K                  conds=[(atom expr, polarity), ...])

  conds are the test atoms (with the polarity of the edge taken) that dominate
  the inner return and lie inside the loop."""
  out = []
  for lp in [n for n in g.nodes if n.kind == 'for']:
    body = lp.succ('iter')
    if body is None:
      continue
    inside = [body] + g.reach([body], avoid=lambda n: n is lp)
    inner = [n for n in inside if isinstance(n.ast, ast.Return) and isinstance(
        n.ast.value, ast.Constant) and isinstance(n.ast.value.value, bool)]
    done = lp.succ('done')
    after = [done] + g.reach([done], avoid_edge=lambda a, l, b: l == 'exc') \
        if done is not None else []
    tail = [n for n in after if isinstance(n.ast, ast.Return)]
    if len(inner) != 1 or not tail or not all(
        isinstance(t.ast.value, ast.Constant) and isinstance(
            t.ast.value.value, bool) for t in tail):
      continue
    k = inner[0].ast.value.value
    if any(t.ast.value.value == k for t in tail):
      continue
    conds = []
    for t in inside:
      if t.kind != 'test':
        continue
      for pol in ('T', 'F'):
        if g.dominated_by_edge(inner[0], lambda s, l, d, _t=t, _p=pol:
                               s is _t and l == _p):
          conds.append((t.ast, pol == 'T'))
    out.append(dict(kind='any' if k else 'all', loop=lp, iter=lp.ast.iter,
                    target=lp.ast.target, conds=conds, inner=inner[0]))
  return out


def flow_graph(finfo):
  """Flow-insensitive "is built from" relation between the local names of a
  function: name -> set of expressions that flow into it (assignments, stores
  through it such as d[k] = v / d.append(v) / d.update(v), loop targets)."""
  g = {}

  def add(name, expr):
    g.setdefault(name, []).append(expr)
  for n in ast.walk(finfo.node):
    if isinstance(n, ast.Assign):
      for t in n.targets:
        for x in core._flatten_target(t):  # pylint: disable=protected-access
          if isinstance(x, ast.Name):
            add(x.id, n.value)
          elif isinstance(x, (ast.Subscript, ast.Attribute)):
            base = x
            while isinstance(base, (ast.Subscript, ast.Attribute)):
              base = base.value
            if isinstance(base, ast.Name):
              add(base.id, n.value)
    elif isinstance(n, (ast.AnnAssign, ast.AugAssign)) and isinstance(
        n.target, ast.Name) and n.value is not None:
      add(n.target.id, n.value)
    elif isinstance(n, (ast.For, ast.comprehension)):
      for x in core._flatten_target(n.target):  # pylint: disable=protected-access
        if isinstance(x, ast.Name):
          add(x.id, n.iter)
    elif isinstance(n, ast.With):
      for i in n.items:
        if isinstance(i.optional_vars, ast.Name):
          add(i.optional_vars.id, i.context_expr)
    elif isinstance(n, ast.NamedExpr) and isinstance(n.target, ast.Name):
      add(n.target.id, n.value)
    elif isinstance(n, ast.Call) and isinstance(n.func, ast.Attribute) and \
        n.func.attr in core.MUTATORS and isinstance(n.func.value, ast.Name):
      for a in n.args:
        add(n.func.value.id, a)
  return g


def sources_of(finfo, expr, graph=None):
  """(names, expressions) that `expr` is transitively built from."""
  graph = graph if graph is not None else flow_graph(finfo)
  names, exprs = set(), [expr]
  work = [expr]
  while work:
    e = work.pop()
    for x in ast.walk(e):
      if isinstance(x, ast.Name) and x.id not in names:
        names.add(x.id)
        for d in graph.get(x.id, []):
          exprs.append(d)
          work.append(d)
  return names, exprs


def copy_class(finfo, name):
  """Names connected to `name` through plain name-to-name copies in the
  function (`a = b`): the local an inlined helper used, its result variable
  and the caller's local are one value to a rule."""
  cls = {name}
  pairs = [(n.targets[0].id, n.value.id) for n in walk_no_nested(finfo.node)
           if isinstance(n, ast.Assign) and len(n.targets) == 1 and isinstance(
               n.targets[0], ast.Name) and isinstance(n.value, ast.Name)]
  changed = True
  while changed:
    changed = False
    for a, b in pairs:
      if (a in cls) != (b in cls):
        cls.update((a, b))
        changed = True
  return cls


class _PathSubst(ast.NodeTransformer):

  def __init__(self, path, idx, depth):
    self.path, self.idx, self.depth = path, idx, depth

  def visit_Name(self, n):
    if not isinstance(n.ctx, ast.Load) or self.depth <= 0:
      return n
    for i in range(self.idx - 1, -1, -1):
      s = self.path.steps[i][0]
      a = s.ast
      if s.kind == 'stmt' and isinstance(a, ast.Assign) and len(
          a.targets) == 1 and isinstance(a.targets[0], ast.Name) and \
          a.targets[0].id == n.id:
        v = a.value
        pure = all(isinstance(x, (ast.Name, ast.Attribute, ast.Subscript,
                                  ast.Constant, ast.Load, ast.Compare, ast.In,
                                  ast.NotIn, ast.Is, ast.IsNot, ast.Eq,
                                  ast.NotEq))
                   for x in ast.walk(v))
        if not pure:
          return n
        from sa import inline  # pylint: disable=g-import-not-at-top
        return _PathSubst(self.path, i, self.depth - 1).visit(
            inline._fast_copy(v))  # pylint: disable=protected-access
    return n


def unfold_self_predicate(repo, relpath, clsname, expr):
  """`self.m()` (no arguments) -> E when method m of the class is the single
  statement `return E` (a predicate written out as a method); else expr."""
  if isinstance(expr, ast.Call) and not expr.args and not expr.keywords and \
      isinstance(expr.func, ast.Attribute) and core.is_name(expr.func.value,
                                                            'self'):
    q = '%s.%s' % (clsname, expr.func.attr)
    if repo.has_func(relpath, q):
      body = [b for b in repo.func(relpath, q).node.body
              if not (isinstance(b, ast.Expr) and
                      isinstance(b.value, ast.Constant))]
      if len(body) == 1 and isinstance(body[0], ast.Return) and \
          body[0].value is not None:
        return body[0].value
  return expr


def expand_locals(path, expr, before_index=None, depth=4):
  """Copy of expr in which every local name is replaced by the access path /
  comparison it was last bound to on `path` (pure expressions only): lets a
  rule compare `declaration.default_value` with
  `self._declarations[item].default_value`."""
  from sa import inline  # pylint: disable=g-import-not-at-top
  idx = len(path.steps) if before_index is None else before_index
  return _PathSubst(path, idx, depth).visit(inline._fast_copy(expr))  # pylint: disable=protected-access


def dict_builds(finfo):
  """Dictionaries built per element, as a comprehension or as a loop storing
  into a dict: [dict(key=, value=, target=, iter=, name=)] (name: the local
  holding the dict in the loop form, None for a comprehension)."""
  out = []
  for n in walk_no_nested(finfo.node):
    if isinstance(n, ast.DictComp) and len(n.generators) == 1:
      g = n.generators[0]
      out.append(dict(key=n.key, value=n.value, target=g.target, iter=g.iter,
                      name=None, node=n))
    elif isinstance(n, ast.For):
      for st in n.body:
        if isinstance(st, ast.Assign) and len(st.targets) == 1 and isinstance(
            st.targets[0], ast.Subscript) and isinstance(
                st.targets[0].value, ast.Name):
          out.append(dict(key=st.targets[0].slice, value=st.value,
                          target=n.target, iter=n.iter,
                          name=st.targets[0].value.id, node=n))
  return out


def is_any_over_values(e, attr, owner_suffix):
  """`any(<t>.<attr> for <t> in <...owner_suffix>.values())` without filters
  (also over a list comprehension)."""
  if not (isinstance(e, ast.Call) and isinstance(e.func, ast.Name) and
          e.func.id == 'any' and len(e.args) == 1 and not e.keywords and
          isinstance(e.args[0], (ast.GeneratorExp, ast.ListComp))):
    return False
  ge = e.args[0]
  if len(ge.generators) != 1 or ge.generators[0].ifs:
    return False
  gen = ge.generators[0]
  return isinstance(gen.target, ast.Name) and dotted(ge.elt) == \
      gen.target.id + '.' + attr and isinstance(gen.iter, ast.Call) and \
      not gen.iter.args and (dotted(gen.iter.func) or '').endswith(
          owner_suffix + '.values')
