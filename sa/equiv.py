"""Behaviour-preserving rewrite sweep: the false-alarm side of self-validation.

Every rewrite is an in-memory single-point AST edit of one function that the
property's rules analyse, chosen so that the function computes the same thing
(rename of a local, a no-op statement inserted, an if/else swapped under
`not`, a returned expression bound to a temporary first, a conditional
expression expanded into an if statement, a multi-item `with` nested, an
`and` guard nested, an augmented assignment expanded).  The property's check
must stay silent on each of them: a report on a rewrite means the rule is a
brittle proxy (matches a name / position / statement shape rather than the
behaviour) and is a defect of the checker, never a finding.
"""

import ast
import concurrent.futures
import copy
import json
import os
import sys

sys.path.insert(0, os.path.dirname(os.path.dirname(os.path.abspath(__file__))))

from sa import core  # pylint: disable=g-import-not-at-top
from sa import mutants  # pylint: disable=g-import-not-at-top


def _locals_of(fn):
  """Names bound inside fn (anywhere, nested scopes included) that are not
  parameters, globals or nonlocals of any scope in fn."""
  params = set()
  banned = set()
  bound = set()
  for n in ast.walk(fn):
    if isinstance(n, (ast.FunctionDef, ast.AsyncFunctionDef, ast.Lambda)):
      a = n.args
      for x in a.posonlyargs + a.args + a.kwonlyargs:
        params.add(x.arg)
      if a.vararg:
        params.add(a.vararg.arg)
      if a.kwarg:
        params.add(a.kwarg.arg)
      if n is not fn and not isinstance(n, ast.Lambda):
        banned.add(n.name)
    elif isinstance(n, (ast.Global, ast.Nonlocal)):
      banned.update(n.names)
    elif isinstance(n, ast.ClassDef):
      banned.add(n.name)
    elif isinstance(n, ast.Name) and isinstance(n.ctx, (ast.Store, ast.Del)):
      bound.add(n.id)
    elif isinstance(n, ast.ExceptHandler) and n.name:
      bound.add(n.name)
    elif isinstance(n, (ast.Import, ast.ImportFrom)):
      for al in n.names:
        banned.add((al.asname or al.name).split('.')[0])
  return sorted(bound - params - banned)


def _all_names(fn):
  out = set()
  for n in ast.walk(fn):
    if isinstance(n, ast.Name):
      out.add(n.id)
    elif isinstance(n, ast.arg):
      out.add(n.arg)
  return out


def enumerate_rewrites(fn, logger_name='_LOG'):
  out = []
  if fn.name in ('__str__', '__repr__'):
    return out
  for name in _locals_of(fn):
    if name.startswith('__') or name == '_':
      continue
    out.append(('rename-local %s' % name, ('rename', name)))
  nodes = list(core.walk_no_nested(fn))
  for i, n in enumerate(nodes):
    if isinstance(n, ast.If) and n.orelse:
      out.append(('invert-if@%d' % n.lineno, ('invert', i)))
    if isinstance(n, ast.If) and not n.orelse and isinstance(
        n.test, ast.BoolOp) and isinstance(n.test.op, ast.And):
      out.append(('nest-and-guard@%d' % n.lineno, ('nestand', i)))
    if isinstance(n, ast.Return) and n.value is not None and not isinstance(
        n.value, (ast.Name, ast.Constant)):
      out.append(('return-via-temp@%d' % n.lineno, ('rettemp', i)))
    if isinstance(n, (ast.Assign, ast.Return)) and isinstance(
        n.value, ast.IfExp) and (isinstance(n, ast.Return) or (
            len(n.targets) == 1 and isinstance(n.targets[0], ast.Name))):
      out.append(('ifexp-to-if@%d' % n.lineno, ('ifexp', i)))
    if isinstance(n, ast.With) and len(n.items) > 1:
      out.append(('with-split@%d' % n.lineno, ('withsplit', i)))
    if isinstance(n, ast.AugAssign) and isinstance(n.target, ast.Name):
      out.append(('expand-augassign@%d' % n.lineno, ('aug', i)))
    if isinstance(n, ast.Assign) and len(n.targets) == 1 and isinstance(
        n.targets[0], ast.Name):
      out.append(('annotate-assign@%d' % n.lineno, ('annotate', i)))
    if isinstance(n, ast.UnaryOp) and isinstance(n.op, ast.Not) and isinstance(
        n.operand, ast.BoolOp):
      out.append(('de-morgan@%d' % n.lineno, ('demorgan', i)))
    if isinstance(n, ast.Compare) and len(n.ops) == 1 and isinstance(
        n.ops[0], (ast.Lt, ast.Gt, ast.LtE, ast.GtE)):
      out.append(('flip-ordering@%d' % n.lineno, ('flipcmp', i)))
    if isinstance(n, ast.For) and len(n.body) == 1 and isinstance(
        n.body[0], ast.If) and not n.body[0].orelse:
      out.append(('continue-guard@%d' % n.lineno, ('contguard', i)))
  last = fn.body[-1] if fn.body else None
  if isinstance(last, ast.If) and not last.orelse and not any(
      isinstance(x, (ast.Yield, ast.YieldFrom)) for x in ast.walk(fn)):
    out.append(('guard-clause@%d' % last.lineno, ('guardclause',)))
  if not (fn.body and isinstance(fn.body[0], ast.Expr) and isinstance(
      fn.body[0].value, ast.Constant)):
    out.append(('add-docstring', ('docstring',)))
  for bi, (owner, field, blk) in enumerate(mutants._blocks(fn)):  # pylint: disable=protected-access
    for k, s in enumerate(blk):
      if k == 0 and isinstance(s, ast.Expr) and isinstance(
          s.value, ast.Constant):
        continue
      out.append(('noop-before@%d' % s.lineno, ('noop', bi, k)))
      if logger_name:
        out.append(('log-before@%d' % s.lineno, ('log', bi, k, logger_name)))
    if not isinstance(blk[-1], (ast.Return, ast.Raise, ast.Continue,
                                ast.Break)):
      out.append(('noop-at-end-of-block@%d' % blk[-1].lineno,
                  ('noop', bi, len(blk))))
  return out


def _fresh(fn, base):
  names = _all_names(fn)
  cand = base
  while cand in names:
    cand += '_'
  return cand


def apply_rewrite(fn, spec):
  kind = spec[0]
  nodes = list(core.walk_no_nested(fn))
  if kind == 'rename':
    old = spec[1]
    new = _fresh(fn, old + '_renamed')
    for n in ast.walk(fn):
      if isinstance(n, ast.Name) and n.id == old:
        n.id = new
      elif isinstance(n, ast.ExceptHandler) and n.name == old:
        n.name = new
  elif kind == 'invert':
    n = nodes[spec[1]]
    n.test = ast.UnaryOp(op=ast.Not(), operand=n.test)
    n.body, n.orelse = n.orelse, n.body
  elif kind == 'nestand':
    n = nodes[spec[1]]
    first, rest = n.test.values[0], n.test.values[1:]
    inner_test = rest[0] if len(rest) == 1 else ast.BoolOp(op=ast.And(),
                                                           values=rest)
    inner = ast.If(test=inner_test, body=n.body, orelse=[])
    n.test = first
    n.body = [inner]
  elif kind == 'rettemp':
    n = nodes[spec[1]]
    tmp = _fresh(fn, 'result')
    asg = ast.Assign(targets=[ast.Name(id=tmp, ctx=ast.Store())],
                     value=n.value)
    ret = ast.Return(value=ast.Name(id=tmp, ctx=ast.Load()))
    mutants._replace_stmt(fn, n, [asg, ret])  # pylint: disable=protected-access
  elif kind == 'ifexp':
    n = nodes[spec[1]]
    e = n.value
    if isinstance(n, ast.Return):
      new = ast.If(test=e.test, body=[ast.Return(value=e.body)],
                   orelse=[ast.Return(value=e.orelse)])
    else:
      t = n.targets[0]
      new = ast.If(
          test=e.test,
          body=[ast.Assign(targets=[copy.deepcopy(t)], value=e.body)],
          orelse=[ast.Assign(targets=[copy.deepcopy(t)], value=e.orelse)])
    mutants._replace_stmt(fn, n, [new])  # pylint: disable=protected-access
  elif kind == 'withsplit':
    n = nodes[spec[1]]
    inner = ast.With(items=n.items[1:], body=n.body)
    n.items = n.items[:1]
    n.body = [inner]
  elif kind == 'aug':
    n = nodes[spec[1]]
    new = ast.Assign(
        targets=[n.target],
        value=ast.BinOp(left=ast.Name(id=n.target.id, ctx=ast.Load()),
                        op=n.op, right=n.value))
    mutants._replace_stmt(fn, n, [new])  # pylint: disable=protected-access
  elif kind == 'annotate':
    n = nodes[spec[1]]
    new = ast.AnnAssign(target=n.targets[0],
                        annotation=ast.Name(id='object', ctx=ast.Load()),
                        value=n.value, simple=1)
    mutants._replace_stmt(fn, n, [new])  # pylint: disable=protected-access
  elif kind == 'demorgan':
    n = nodes[spec[1]]
    b = n.operand
    new = ast.BoolOp(
        op=ast.Or() if isinstance(b.op, ast.And) else ast.And(),
        values=[ast.UnaryOp(op=ast.Not(), operand=v) for v in b.values])
    mutants._replace(fn, n, new)  # pylint: disable=protected-access
  elif kind == 'flipcmp':
    n = nodes[spec[1]]
    flip = {ast.Lt: ast.Gt, ast.Gt: ast.Lt, ast.LtE: ast.GtE, ast.GtE: ast.LtE}
    n.left, n.comparators[0] = n.comparators[0], n.left
    n.ops[0] = flip[type(n.ops[0])]()
  elif kind == 'contguard':
    n = nodes[spec[1]]
    inner = n.body[0]
    n.body = [ast.If(test=ast.UnaryOp(op=ast.Not(), operand=inner.test),
                     body=[ast.Continue()], orelse=[])] + inner.body
  elif kind == 'guardclause':
    last = fn.body[-1]
    fn.body[-1:] = [ast.If(test=ast.UnaryOp(op=ast.Not(), operand=last.test),
                           body=[ast.Return(value=None)],
                           orelse=[])] + last.body
  elif kind == 'docstring':
    fn.body.insert(0, ast.Expr(value=ast.Constant(value='Documented.')))
  elif kind in ('noop', 'log'):
    owner, field, blk = mutants._blocks(fn)[spec[1]]  # pylint: disable=protected-access
    if kind == 'noop':
      st = ast.Assign(targets=[ast.Name(id=_fresh(fn, 'unused_marker'),
                                        ctx=ast.Store())],
                      value=ast.Constant(value=None))
    else:
      st = ast.Expr(value=ast.Call(
          func=ast.Attribute(value=ast.Name(id=spec[3], ctx=ast.Load()),
                             attr='debug', ctx=ast.Load()),
          args=[ast.Constant(value='checkpoint')], keywords=[]))
    blk.insert(spec[2], st)
  ast.fix_missing_locations(fn)


def _run(args):
  prop, rel, qual, desc, spec, baseline = args
  from sa import check  # pylint: disable=g-import-not-at-top
  with open(os.path.join(core.REPO_DIR, rel), encoding='utf-8') as f:
    src = f.read()
  tree = ast.parse(src)
  fn = mutants._func_node(tree, qual)  # pylint: disable=protected-access
  if fn is None:
    return desc, 'skip', '', rel, qual, spec
  try:
    apply_rewrite(fn, spec)
    new = ast.unparse(tree)
    compile(new, rel, 'exec')
  except Exception as e:  # pylint: disable=broad-except
    return desc, 'skip', 'invalid rewrite: %r' % e, rel, qual, spec
  try:
    _, rep = check.run_property(prop, 'quick', write=False,
                                overrides={rel: new})
  except core.AnalysisError as e:
    return desc, 'broken', str(e)[:160], rel, qual, spec
  except Exception as e:  # pylint: disable=broad-except
    return desc, 'broken', 'internal: %r' % e, rel, qual, spec
  new_v = [v for v in rep.violations if (v['rule'], v['key']) not in baseline]
  if new_v:
    return (desc, 'alarm', '; '.join(sorted(set(
        '%s %s' % (v['rule'], v['key'][:70]) for v in new_v)))[:400], rel,
            qual, spec)
  if rep.analysis_errors:
    return desc, 'broken', rep.analysis_errors[0][:160], rel, qual, spec
  return desc, 'silent', '', rel, qual, spec


def sweep(prop, jobs=None, limit=None, kinds=None):
  funcs, base = mutants.analysed_functions(prop)
  tasks = []
  for rel, qual in funcs:
    with open(os.path.join(core.REPO_DIR, rel), encoding='utf-8') as f:
      tree = ast.parse(f.read())
    fn = mutants._func_node(tree, qual)  # pylint: disable=protected-access
    if fn is None:
      continue
    lg = None
    for st in tree.body:
      if isinstance(st, ast.Assign) and isinstance(st.value, ast.Call) and \
          core.call_name(st.value) == 'logging.getLogger' and isinstance(
              st.targets[0], ast.Name):
        lg = st.targets[0].id
    for desc, spec in enumerate_rewrites(fn, lg):
      if kinds and spec[0] not in kinds:
        continue
      tasks.append((prop, rel, qual, '%s::%s %s' % (rel.split('/')[-1], qual,
                                                    desc), spec, tuple(base)))
  total = len(tasks)
  if limit and len(tasks) > limit:
    step = len(tasks) / float(limit)
    seed = int(os.environ.get('VERIF_SEED', '0') or 0)
    tasks = [tasks[int((i * step + seed) % len(tasks))] for i in range(limit)]
  jobs = jobs or min(16, os.cpu_count() or 4)
  res = []
  with concurrent.futures.ProcessPoolExecutor(max_workers=jobs) as ex:
    for r in ex.map(_run, tasks, chunksize=4):
      res.append(r)
  out = {
      'functions': len(funcs),
      'rewrites_enumerated': total,
      'rewrites': len(res),
      'silent': sum(1 for r in res if r[1] == 'silent'),
      'alarms': sum(1 for r in res if r[1] == 'alarm'),
      'broken_analysis': sum(1 for r in res if r[1] == 'broken'),
      'skipped': sum(1 for r in res if r[1] == 'skip'),
  }
  return out, res


if __name__ == '__main__':
  kinds = None
  args = sys.argv[1:]
  if args and args[0].startswith('--kinds='):
    kinds = args[0].split('=', 1)[1].split(',')
    args = args[1:]
  for p in args:
    summary, res = sweep(p, kinds=kinds)
    print(p, json.dumps(summary))
    os.makedirs('/tmp/sa_equiv', exist_ok=True)
    with open('/tmp/sa_equiv/%s.txt' % p, 'w') as f:
      for r in res:
        if r[1] != 'silent':
          f.write('%s\t%s\t%s\n' % (r[1], r[0], r[2]))
