"""Repo-specific static analyser for google/openhtf (see /verif/DESIGN.md).

Nothing under /repo is ever imported or executed by this package: sources are
parsed with `ast` and verdicts are computed from syntax trees, statement-level
control-flow graphs and a whole-repository index.
"""
