#!/venv/bin/python
"""Regenerates /verif/MANIFEST.json from the rule modules that exist."""

import importlib
import json
import os
import sys

sys.path.insert(0, os.path.dirname(os.path.dirname(os.path.abspath(__file__))))

VERIF = os.path.dirname(os.path.dirname(os.path.abspath(__file__)))

BASELINE_OFF = ('cd /repo && /venv/bin/python -m pytest -ra -q -p no:cacheprovider '
                '--timeout=900 --continue-on-collection-errors')

NOT_APPLICABLE_REASONS = {}


def main():
  props = []
  with open(os.path.join(VERIF, 'properties.jsonl')) as f:
    for line in f:
      if line.strip():
        props.append(json.loads(line))
  checks, na, served = [], [], []
  for p in props:
    pid = p['id']
    path = os.path.join(VERIF, 'sa', 'rules', pid.lower() + '.py')
    if not os.path.exists(path):
      na.append({
          'property_id': pid,
          'reason': NOT_APPLICABLE_REASONS.get(
              pid, 'no sound static rule implemented (yet) for this property; '
              'not claimed rather than checked by another technique')
      })
      continue
    mod = importlib.import_module('sa.rules.' + pid.lower())
    served.append(pid)
    checks.append({
        'property_id': pid,
        'quick_cmd': '/venv/bin/python sa/check.py %s --tier quick' % pid,
        'thorough_cmd': '/venv/bin/python sa/check.py %s --tier thorough' % pid,
        'evidence_file': '/verif/evidence/%s.json' % pid,
        'replay_cmd_template': '/venv/bin/python sa/check.py --replay {path}',
        'engine': 'sa',
        'technique': getattr(
            mod, 'TECHNIQUE',
            'static analysis: repo-specific AST/CFG rules (must-pass-through, '
            'guard dominance, decision-table extraction, who-may-write)'),
        'level_claimed': {
            'category': 'other',
            'text': ('Static analysis of the current sources; decides necessary '
                     'structural conditions of the property for every input / '
                     'schedule that goes through the analysed code, not the '
                     'end-to-end behaviour. DECIDES: ' + mod.DECIDES +
                     ' DOES NOT DECIDE: ' + mod.DOES_NOT_DECIDE),
            'design_ref': 'DESIGN.md section 4, ' + pid,
        },
        'level_note': ('Trusted base: Python ast; the rule tables and spec '
                       'functions in sa/rules/%s.py written from the property '
                       'statement; may-raise approximation of the CFG (calls, '
                       'subscripts, yields, %% formatting). A property can '
                       'still be broken through code no rule is anchored in '
                       '(measured by seed rounds 5 and 6, DESIGN.md 9.7c/d). '
                       % pid.lower() + getattr(mod, 'LEVEL_NOTE', '')),
    })
  manifest = {
      'version': 1,
      'setup_cmd': 'true',
      'hooks': {
          'guard': 'OPENHTF_VERIF',
          'enable': 'none needed: the checks parse /repo sources and never '
                    'import or execute them; no hook exists in /repo',
          'baseline_off_cmd': BASELINE_OFF,
          'source_commits': [],
          'add_only': True,
      },
      'engines': [{
          'name': 'sa',
          'path': 'sa/',
          'serves_properties': served,
          'kind_free_text': 'repo-specific static analyser (ast, statement CFG '
                            'with short-circuit decomposition, decision-table '
                            'extraction, whole-repo effect queries); pure '
                            'stdlib, runs under /venv/bin/python',
      }],
      'checks': checks,
      'not_applicable': na,
      'notes': ('Family: static analysis only (nothing under /repo is imported '
                'or executed). Every check parses the current tree, brings it '
                'to an analysis normal form (private renames undone against '
                'sa/reference.json, private helpers that are not rule anchors '
                'inlined, canonical statement shapes) and evaluates its rules. '
                'A construct a rule expects and does not find is reported as a '
                'VIOLATION naming the function and construct (exit 1); an '
                'anchored function that vanished or an internal failure of a '
                'rule is an ANALYSIS-ERROR (exit 2), never a silent pass. Known '
                'findings are in known_findings.json; fixed defects are '
                'recorded there with their fix: commits. The thorough tier adds '
                'the self-validation of the checker (hand variants, 218 kept '
                'seeded changes, 311 kept behaviour-preserving refactorings, '
                'mutation and equivalence sweeps). See DESIGN.md for what each '
                'rule decides and its blind spots.'),
  }
  with open(os.path.join(VERIF, 'MANIFEST.json'), 'w') as f:
    json.dump(manifest, f, indent=1)
    f.write('\n')
  print('claimed: %s; not applicable: %s' %
        (served, [x['property_id'] for x in na]))


if __name__ == '__main__':
  main()
