"""C08 - plug lifecycle."""

import ast

from sa import cfg as cfgm
from sa import core, lib
from sa.core import call_name, dotted, last_attr, norm, walk_no_nested
from sa.lib import ends_with

DECIDES = (
    'who may construct / register / tear down plugs (whole repo); construction '
    'guarded by "not already constructed", every constructed instance is '
    'registered before the next constructor runs, class-level logger swap '
    'restored in finally, constructor failure tears down what exists and '
    're-raises; each tearDown runs shielded in its own thread, joined with the '
    'per-plug configured timeout, killed if alive, the loop is never left '
    'early and both maps are cleared afterwards; tear-down lies on every exit '
    'path of the executor thread, after nodes and diagnosers, before '
    'finalisation, and callbacks come after the executor finished; test_start '
    'gets only its own plugs and a plug-initialisation failure is terminal '
    'before any phase; injection passes (name, class) pairs resolved to the '
    'per-class instance.')
DOES_NOT_DECIDE = (
    'behaviour of plug code; the plug_teardown_timeout_s timing itself.')

PL = 'openhtf/plugs/__init__.py'
TE = 'openhtf/core/test_executor.py'
TD = 'openhtf/core/test_descriptor.py'
PD = 'openhtf/core/phase_descriptor.py'
TESTUTIL = 'openhtf/util/test.py'


def r1_who(report, repo):
  rule = 'C08-R1'
  report.rule(rule, 'T-WHO: update_plug (registration) only from '
              'initialize_plugs; .tearDown() only from the tear-down thread and '
              'update_plug (test-only path); tear_down_plugs only from '
              '_execute_test_teardown and the constructor-failure path')
  n = 0
  for m, c in core.call_sites(repo, attr='tearDown'):
    if m.relpath == TESTUTIL:
      continue
    n += 1
    owner = core.owner_qualname(c)
    ok = m.relpath == PL and owner in ('_PlugTearDownThread._thread_proc',
                                       'PlugManager.update_plug')
    report.check(ok, rule, owner, c, c,
                 'tearDown() called from %s' % owner,
                 'tearDown() is called directly from %s (%s): not shielded, '
                 'not in its own thread, and a second call per instance '
                 'becomes possible' % (owner, m.relpath))
  report.expect_instances(rule, n, 2, 'tearDown call sites')
  n = 0
  for m, c in core.call_sites(repo, attr='tear_down_plugs'):
    if m.relpath == TESTUTIL:
      continue
    n += 1
    owner = core.owner_qualname(c)
    ok = (m.relpath == TE and owner == 'TestExecutor._execute_test_teardown') \
        or (m.relpath == PL and owner == 'PlugManager.initialize_plugs')
    report.check(ok, rule, owner, c, c, 'tear_down_plugs called from %s' % owner,
                 'tear_down_plugs is called from %s' % owner)
  report.expect_instances(rule, n, 2, 'tear_down_plugs call sites')
  n = 0
  for m, c in core.call_sites(repo, attr='update_plug'):
    if m.relpath == TESTUTIL:
      continue
    n += 1
    owner = core.owner_qualname(c)
    report.check(m.relpath == PL and owner == 'PlugManager.initialize_plugs',
                 rule, owner, c, c, 'update_plug called from %s' % owner,
                 'update_plug (which tears down a replaced instance inline) is '
                 'called from %s' % owner)
  report.expect_instances(rule, n, 1, 'update_plug call sites')
  # writers of the instance maps
  for attr in ('_plugs_by_type', '_plugs_by_name'):
    for m, node, kind, tgt in core.attr_write_sites(repo, attr):
      if m.relpath == TESTUTIL:
        continue
      owner = core.owner_qualname(node)
      ok = owner in ('PlugManager.__init__', 'PlugManager.update_plug',
                     'PlugManager.tear_down_plugs')
      report.check(ok, rule, owner, node, node,
                   '%s written in %s' % (attr, owner),
                   '%s is written in %s' % (attr, owner))


def r2_construct_once(report, repo, rule='C08-R2'):
  report.rule(rule, 'T-DOM/T-MUST: the constructor call is dominated by '
              '"plug_type not in self._plugs_by_type"; the instance is '
              'registered before the next iteration; logger swap restored in '
              'finally; failure tears down and re-raises')
  f = repo.func(PL, 'PlugManager.initialize_plugs')
  g = lib.cfg(f)
  loops = [n for n in walk_no_nested(f.node) if isinstance(n, ast.For)]
  report.expect_instances(rule, len(loops), 1, 'plug type loops')
  var = dotted(loops[0].target)
  ctors = [(n, c) for n, c in lib.nodes_with_call(g) if isinstance(
      c.func, ast.Name) and c.func.id == var and not c.args]
  report.expect_instances(rule, len(ctors), 1, 'plug constructor calls')

  def already(e):
    return isinstance(e, ast.Compare) and len(e.ops) == 1 and isinstance(
        e.ops[0], (ast.In, ast.NotIn)) and dotted(e.left) == var and \
        dotted(e.comparators[0]) == 'self._plugs_by_type'

  def guard(s, l, d):
    if s.kind != 'test' or not already(s.ast):
      return False
    return l == ('F' if isinstance(s.ast.ops[0], ast.In) else 'T')

  for n, c in ctors:
    report.check(g.dominated_by_edge(n, guard), rule, f.qualname,
                 'construct-once-guard', c,
                 'plug constructed only when its type has no instance yet',
                 'a plug class that already has an instance can be constructed '
                 'again (two instances per run; the first is torn down inline '
                 'or leaked)')
    regs = lib.nodes_with_call(g, name='self.update_plug')
    head = [x for x in g.nodes if x.kind == 'for' and x.ast is loops[0]]
    ok = bool(regs) and bool(head)
    if ok:
      reach = g.reach([n], avoid=lambda x: any(x is r for r, _ in regs),
                      avoid_edge=lambda a, l, b: l in ('exc', 'raise'))
      ok = not any(x is head[0] or x is g.exit for x in reach)
      tgt = dotted(core.assigned_targets(core.enclosing_stmt(c))[0])
      ok = ok and all(
          len(rc.args) == 2 and dotted(rc.args[0]) == var and tgt in
          lib.copy_class(f, dotted(rc.args[1]) or '?') for _, rc in regs)
    report.check(ok, rule, f.qualname, 'register-before-next', c,
                 'the new instance is registered (update_plug) before the next '
                 'constructor runs / the function returns',
                 'a constructed plug is not registered before the next '
                 'constructor runs: if a later constructor raises, the earlier '
                 'instances are unknown to tear_down_plugs and never torn down')
    fin = [t for t, fld in core.enclosing_try_field(c) if fld == 'body' and
           t.finalbody]
    ok = bool(fin) and any(
        isinstance(s, ast.Assign) and dotted(s.targets[0]) == var + '.logger'
        and dotted(s.value) == '_BASE_PLUGS_LOG' for s in fin[0].finalbody)
    report.check(ok, rule, f.qualname, 'logger-restored', c,
                 'class-level logger swap is undone in a finally block')
    sh = lib.shielded_by_try(c, ('Exception', 'BaseException', None))
    ok = sh is not None and core.calls_in(sh[1], name='self.tear_down_plugs') \
        and any(isinstance(s, ast.Raise) and s.exc is None for s in sh[1].body)
    report.check(bool(ok), rule, f.qualname, 'failure-path', c,
                 'constructor failure tears down the existing plugs and '
                 're-raises')


def _join_timeout_ok(expr, path, idx):
  """The join timeout derives directly from CONF.plug_teardown_timeout_s."""
  if isinstance(expr, ast.Name):
    v = path.value_of(expr.id, idx)
    if v is None:
      return False
    expr = v
  d = dotted(expr)
  if d == 'CONF.plug_teardown_timeout_s':
    return True
  if isinstance(expr, ast.Constant) and expr.value is None:
    return True
  if isinstance(expr, ast.IfExp):
    return _join_timeout_ok(expr.body, path, idx) and _join_timeout_ok(
        expr.orelse, path, idx) and dotted(expr.test) == \
        'CONF.plug_teardown_timeout_s'
  if isinstance(expr, ast.BoolOp):
    return all(_join_timeout_ok(x, path, idx) for x in expr.values)
  return False


def r3_teardown(report, repo):
  rule = 'C08-R3'
  report.rule(rule, 'T-SHIELD/T-MUST: tearDown() inside try/except Exception '
              'without re-raise; tear_down_plugs: one thread per instance, '
              'start, join(per-plug configured timeout), kill if alive, loop '
              'never left early, both maps cleared after the loop')
  f = repo.func(PL, '_PlugTearDownThread._thread_proc')
  cs = core.calls_in(f.node, attr='tearDown')
  report.expect_instances(rule, len(cs), 1, 'tearDown calls in the thread')
  sh = lib.shielded_by_try(cs[0], ('Exception', 'BaseException', None))
  report.check(sh is not None and lib.handler_swallows(sh[1]) and
               dotted(cs[0].func.value) == 'self._plug', rule, f.qualname,
               'shield', cs[0], 'self._plug.tearDown() shielded; a failing '
               'tearDown is logged, never propagated',
               'a failing tearDown is not contained in the tear-down thread')
  t = repo.func(PL, 'PlugManager.tear_down_plugs')
  g = lib.cfg(t)
  loops = [n for n in walk_no_nested(t.node) if isinstance(n, ast.For)]
  report.expect_instances(rule, len(loops), 1, 'tear-down loops')
  lp = loops[0]
  report.check(isinstance(lp.iter, ast.Call) and dotted(lp.iter.func) ==
               'self._plugs_by_type.items', rule, t.qualname, 'loop-all', lp,
               'loop over every constructed instance')
  bad = [n for n in walk_no_nested(lp)
         if isinstance(n, (ast.Break, ast.Return, ast.Raise))]
  report.check(not bad, rule, t.qualname, 'loop-not-left', lp,
               'tear-down loop has no break/return/raise',
               'the tear-down loop can be left early: remaining plugs are not '
               'torn down')
  inst = dotted(lp.target.elts[1]) if isinstance(lp.target, ast.Tuple) else None

  def decide(node, steps):
    return None

  paths = [p for p in cfgm.walk_paths(g, decide) if p.end == 'exit']
  report.expect_instances(
      rule, sum(1 for p in paths if any(l == 'iter' for n, l in p.steps
                                        if n.kind == 'for')), 2,
      'iterating paths')
  n_it = 0
  for p in paths:
    iterated = any(l == 'iter' for n, l in p.steps if n.kind == 'for')
    clears = [dotted(c.func.value) for c in p.calls(attr='clear')]
    if sorted(clears) != ['self._plugs_by_name', 'self._plugs_by_type']:
      report.violation(rule, t.qualname, 'maps-cleared', t.node,
                       'a path through tear_down_plugs clears %s: instances '
                       'stay registered and are torn down again / leak into a '
                       'later initialisation' % clears)
      break
    if not iterated:
      continue
    n_it += 1
    mk = p.calls(attr='_PlugTearDownThread')
    st = p.calls(attr='start')
    jn = p.calls(attr='join')
    alive = any(n.kind == 'test' and last_attr(n.ast) == 'is_alive' and l == 'T'
                for n, l in p.steps)
    kills = p.calls(attr='kill')
    err = None
    if len(mk) != 1 or not mk[0].args or dotted(mk[0].args[0]) != inst:
      err = 'one tear-down thread per plug instance'
    elif len(st) != 1 or len(jn) != 1:
      err = 'thread started and joined exactly once'
    elif not jn[0].args:
      err = None  # unbounded join is allowed only when no timeout configured
    if err is None and jn and jn[0].args:
      idx = p.index_of(lambda x: any(s is jn[0] for s in x.subnodes()))
      if not _join_timeout_ok(jn[0].args[0], p, idx):
        err = ('join timeout %s does not derive per plug from '
               'CONF.plug_teardown_timeout_s (a shared budget starves later '
               'plugs)' % norm(jn[0].args[0]))
    if err is None and alive and len(kills) != 1:
      err = 'a tear-down thread still alive after the join is killed'
    if err is None and not alive and kills:
      err = 'a finished tear-down thread is not killed'
    if err:
      report.violation(rule, t.qualname, 'per-plug:' + err.split(' ')[0],
                       t.node, 'tear_down_plugs iteration: expected ' + err)
      break
  else:
    report.ok(rule, t.node, 'tear_down_plugs: %d paths: per plug one shielded '
              'thread, start, join(CONF timeout), kill iff alive; maps cleared '
              'on every path' % len(paths))
  # clears come after the loop
  clear_nodes = [n for n, c in lib.nodes_with_call(g, attr='clear')]
  head = [x for x in g.nodes if x.kind == 'for']
  ok = all(not any(x is head[0] for x in g.reach([c])) for c in clear_nodes)
  report.check(ok, rule, t.qualname, 'clear-after-loop', t.node,
               'maps are cleared after the loop, not inside it')


def r4_order(report, repo):
  rule = 'C08-R4'
  report.rule(rule, 'T-ORDER: executor thread: test_start (its plugs) -> all '
              'plugs -> nodes -> diagnosers in the try, teardown in finally; '
              'Test.execute calls callbacks after the executor thread ended')
  f = repo.func(TE, 'TestExecutor._thread_proc')
  g = lib.cfg(f)
  order = ['self._execute_test_start', 'self._initialize_plugs',
           'self._execute_node', 'self._execute_test_diagnoser']
  nodes = {}
  for nm in order:
    ns = lib.nodes_with_call(g, name=nm)
    report.expect_instances(rule, len(ns), 1, nm)
    nodes[nm] = ns[0][0]
  for a, b in zip(order, order[1:]):
    if a == 'self._execute_test_start':
      # test_start is optional: b is dominated by the *test* of test_start
      ok = g.dominated_by(nodes[b], lambda n: n.kind == 'test' and
                          dotted(n.ast.left if isinstance(n.ast, ast.Compare)
                                 else n.ast) == 'self._test_start') and \
          not any(x is nodes[a] for x in g.reach([nodes[b]]))
    else:
      ok = g.dominated_by(nodes[b], lambda n, _a=a: n is nodes[_a])
    report.check(ok, rule, f.qualname, '%s<%s' % (a, b), nodes[b].ast,
                 '%s precedes %s' % (a, b))
  # plug init failure / terminal test_start => return before nodes
  for nm in ('self._initialize_plugs', 'self._execute_test_start'):
    n = nodes[nm]
    tn = [x for x in g.nodes if x.kind == 'test' and any(
        call_name(s) == nm for s in x.subnodes() if isinstance(s, ast.Call))]
    ok = bool(tn)
    if ok:
      t = tn[0].succ('T')
      reach = [t] + g.reach([t], avoid_edge=lambda a, l, b: l == 'exc')
      ok = not any(x is nodes['self._execute_node'] for x in reach)
    report.check(ok, rule, f.qualname, nm + '-terminal', n.ast,
                 'when %s reports failure no node is executed' % nm,
                 'node execution is reachable after %s reported a terminal '
                 'failure' % nm)
  e = repo.func(TD, 'Test.execute')
  ge = lib.cfg(e)
  waits = lib.nodes_with_call(ge, name='self._executor.wait')
  cbs = [n for n in ge.nodes if n.kind == 'for' and
         ends_with(dotted(n.ast.iter) or '', 'output_callbacks')]
  report.expect_instances(rule, len(cbs), 1, 'callback loops')
  ok = all(ge.dominated_by(c, lambda n: any(n is w for w, _ in waits))
           for c in cbs)
  report.check(ok, rule, e.qualname, 'callbacks-after-wait', cbs[0].ast,
               'output callbacks run only after _executor.wait() (executor '
               'thread, incl. plug tear-down, has finished)')


def r5_test_start_plugs(report, repo):
  rule = 'C08-R5'
  report.rule(rule, 'T-DTABLE: _execute_test_start initialises only the plugs '
              'of test_start and returns True before executing it when that '
              'fails')
  f = repo.func(TE, 'TestExecutor._execute_test_start')
  g = lib.cfg(f)
  inits = lib.nodes_with_call(g, name='self._initialize_plugs')
  report.expect_instances(rule, len(inits), 1, 'plug initialisations')
  n, c = inits[0]
  arg = core.get_kw(c, 'plug_types', 0)
  ok = isinstance(arg, ast.ListComp) and dotted(arg.generators[0].iter) == \
      'self._test_start.plugs' and isinstance(arg.elt, ast.Attribute) and \
      arg.elt.attr == 'cls' and not arg.generators[0].ifs
  report.check(ok, rule, f.qualname, 'only-test-start-plugs', c,
               'only [p.cls for p in self._test_start.plugs] is initialised '
               'before test_start',
               'test_start is preceded by initialisation of %s (must be '
               'exactly its own plugs)' % norm(arg) if arg is not None else
               'all plugs')
  ex = lib.nodes_with_call(g, attr='execute_phase')
  report.expect_instances(rule, len(ex), 1, 'test_start executions')
  ok = g.dominated_by_edge(
      ex[0][0], lambda s, l, d: s.kind == 'test' and l == 'F' and
      call_name(s.ast) == 'self._initialize_plugs')
  report.check(ok, rule, f.qualname, 'init-failure-terminal', ex[0][1],
               'test_start runs only if its plugs initialised',
               'test_start can run although its plug initialisation failed')
  ip = repo.func(TE, 'TestExecutor._initialize_plugs')
  gi = lib.cfg(ip)
  okr = True
  nret = 0
  for n_ in gi.nodes:
    if n_.kind == 'stmt' and isinstance(n_.ast, ast.Return):
      nret += 1
      in_handler = gi.dominated_by(n_, lambda x: x.kind == 'handler')
      val = n_.ast.value.value if isinstance(n_.ast.value, ast.Constant) else '?'
      if val is not (True if in_handler else False):
        okr = False
  falls_off = any(l != 'ret' and t is gi.exit for n_ in gi.nodes
                  for l, t in n_.succs)
  report.check(okr and nret == 2 and not falls_off, rule, ip.qualname,
               'failure-is-reported', ip.node,
               '_initialize_plugs returns True exactly on the failure path and '
               'False on success',
               '_initialize_plugs does not report a plug constructor failure '
               'to its caller (returns are %s): phases run although plug '
               'initialisation failed' % [
                   norm(x.ast) for x in gi.nodes if x.kind == 'stmt' and
                   isinstance(x.ast, ast.Return)])
  cs = core.calls_in(ip.node, attr='initialize_plugs')
  ok = len(cs) == 1 and dotted(core.get_kw(cs[0], 'plug_types', 0)) == \
      'plug_types' and lib.shielded_by_try(cs[0]) is not None
  report.check(ok, rule, ip.qualname, 'threads-plug-types', ip.node,
               '_initialize_plugs passes plug_types through and shields the '
               'call')


def r5b_work_list(report, repo):
  rule = 'C08-R5'
  f = repo.func(PL, 'PlugManager.initialize_plugs')
  par = lib.param_names(f.node)[1]
  loops = [n for n in walk_no_nested(f.node) if isinstance(n, ast.For)]
  src = dotted(loops[0].iter) if loops else None
  defs = lib.resolve_local(f, src) if src and src != par else []
  ok = False

  def none_test(t):
    """(param is tested against None, True if the T branch means 'given')"""
    if isinstance(t, ast.Compare) and len(t.ops) == 1 and dotted(
        t.left) == par and isinstance(t.comparators[0], ast.Constant) and \
        t.comparators[0].value is None and isinstance(
            t.ops[0], (ast.Is, ast.IsNot)):
      return isinstance(t.ops[0], ast.IsNot)
    return None
  if len(defs) == 1:
    d = defs[0]
    if isinstance(d, ast.IfExp) and none_test(d.test) is not None:
      given, other = (d.body, d.orelse) if none_test(d.test) else (d.orelse,
                                                                   d.body)
      ok = dotted(given) == par and dotted(other) == 'self._plug_types'
  elif len(defs) == 2:
    # statement form: `if plug_types is not None: x = plug_types else: x = ...`
    g = lib.cfg(f)
    ok = True
    for n in g.nodes:
      if n.kind == 'stmt' and isinstance(n.ast, ast.Assign) and any(
          core.is_name(t, src) for t in n.ast.targets):
        want_given = dotted(n.ast.value) == par
        if not want_given and dotted(n.ast.value) != 'self._plug_types':
          ok = False
        ok = ok and g.dominated_by_edge(
            n, lambda s_, l, d_, _w=want_given: s_.kind == 'test' and
            none_test(s_.ast) is not None and
            (l == 'T') == (none_test(s_.ast) == _w))
  report.check(ok, rule, f.qualname, 'explicit-empty-list',
               f.node,
               'the plugs to construct are `plug_types` whenever it is given '
               '(also when empty), else the test\'s plug types',
               'the work list is %s: an explicitly empty list (test_start '
               'without plugs) falls through to ALL plug types, which are then '
               'constructed before test_start runs' %
               [norm(d) for d in defs])


def r6_injection(report, repo):
  rule = 'C08-R6'
  report.rule(rule, 'T-AGREE: PhaseDescriptor.__call__ hands (plug.name, '
              'plug.cls) pairs to provide_plugs, which maps name -> the '
              'instance registered for that class')
  f = repo.func(PD, 'PhaseDescriptor.__call__')
  cs = core.calls_in(f.node, attr='provide_plugs')
  report.expect_instances(rule, len(cs), 1, 'provide_plugs calls')
  a = cs[0].args[0] if cs[0].args else None
  pv = dotted(a.generators[0].target) if isinstance(
      a, (ast.GeneratorExp, ast.ListComp)) else None
  ok = pv is not None and isinstance(
      a.elt, ast.Tuple) and [dotted(x) for x in a.elt.elts] == [
          pv + '.name', pv + '.cls'] and dotted(a.generators[0].iter) == \
      'self.plugs'
  report.check(ok, rule, f.qualname, 'pairs', cs[0],
               'provide_plugs((plug.name, plug.cls) for plug in self.plugs ...)')
  if ok:
    ifs = a.generators[0].ifs
    report.check(len(ifs) <= 1 and all(dotted(i) == pv + '.update_kwargs'
                                       for i in ifs), rule, f.qualname,
                 'update_kwargs', cs[0], 'only update_kwargs filters injection')
  st = core.enclosing_stmt(cs[0])
  # the dict the phase function is finally called with (**<name>)
  kwn = {dotted(k.value) for c in core.calls_in(f.node) for k in c.keywords
         if k.arg is None and (dotted(c.func) == 'self.func' or any(
             dotted(x) == 'self.func' for x in c.args))}
  report.check(isinstance(st, ast.Expr) and isinstance(st.value, ast.Call) and
               last_attr(st.value) == 'update' and
               dotted(st.value.func.value) in kwn, rule, f.qualname, 'kwargs',
               st,
               'provided plugs are merged into the phase kwargs')
  p = repo.func(PL, 'PlugManager.provide_plugs')
  rets = [n for n in walk_no_nested(p.node) if isinstance(n, ast.Return)]
  builds = lib.dict_builds(p)
  ok = len(rets) == 1 and len(builds) == 1
  if ok:
    b = builds[0]
    tg = b['target']
    ok = isinstance(tg, ast.Tuple) and len(tg.elts) == 2 and \
        dotted(b['key']) == dotted(tg.elts[0]) and isinstance(
            b['value'], ast.Subscript) and dotted(b['value'].value) == \
        'self._plugs_by_type' and dotted(b['value'].slice) == dotted(
            tg.elts[1]) and dotted(b['iter']) == lib.param_names(p.node)[1] \
        and (rets[0].value is b['node'] or dotted(rets[0].value) == b['name'])
  report.check(ok, rule, p.qualname, 'name->instance', p.node,
               'provide_plugs returns {name: self._plugs_by_type[cls]}')
  up = repo.func(PL, 'PlugManager.update_plug')
  ok = any(isinstance(n, ast.Assign) and isinstance(n.targets[0], ast.Subscript)
           and dotted(n.targets[0].value) == 'self._plugs_by_type' and
           dotted(n.targets[0].slice) == 'plug_type' and
           dotted(n.value) == 'plug_value' for n in walk_no_nested(up.node))
  report.check(ok, rule, up.qualname, 'by-type', up.node,
               'update_plug registers the instance under its class')


def run(report, repo):
  report.guard(r1_who, report, repo)
  report.guard(r2_construct_once, report, repo)
  report.guard(r3_teardown, report, repo)
  report.guard(r4_order, report, repo)
  report.guard(r5_test_start_plugs, report, repo)
  report.guard(r5b_work_list, report, repo)
  report.guard(r6_injection, report, repo)
  from sa.rules import c01, c03  # pylint: disable=g-import-not-at-top
  report.guard(c01.r4_teardown_ladder, report, repo, rule='C08-R4l')
  report.guard(c03.r5_thread_proc, report, repo)
  from sa.rules import extra5 as _e5  # pylint: disable=g-import-not-at-top
  from sa.rules import c01 as _c01  # pylint: disable=g-import-not-at-top
  report.guard(_c01.r6_internal_error, report, repo, rule='C08-R7')
  report.guard(_e5.executor_wait_is_unbounded, report, repo, 'C08-R8')
  from sa.rules import extra5 as _e6  # pylint: disable=g-import-not-at-top
  report.guard(_e6.plug_types_from_every_phase, report, repo, 'C08-R9')
