"""C15 - ADB connection lifecycle."""

import ast
import re

from sa import cfg as cfgm
from sa import core, lib
from sa.core import call_name, dotted, last_attr, norm, walk_no_nested
from sa.lib import ends_with

DECIDES = (
    'connect(): every returned connection is on a path whose last received '
    'message is CNXN and is built from its maxdata and banner; every '
    'signature is made for a message that was tested to be an AUTH TOKEN '
    'challenge after it was received (paths with two loop iterations are '
    'enumerated), keys are tried in list order, exactly one public-key offer '
    'after the loop with the first key, no AUTH is written without keys, noise '
    'is skipped only through read_until; stream ids: candidate selection and '
    'insertion in one map-lock region, insertion only for an id not in the '
    'map, candidates start at a value shown >= 1 by its shape and stay below '
    'the limit, exhaustion raises; open_stream returns a stream only after '
    'ensure_opened; remote id set only from PENDING and never changed; '
    'close_stream_transport: test, delete and CLSE in one lock region, CLSE '
    'only for a present id with a known remote id; close is idempotent; '
    'illegal packet types raise AdbProtocolError and every error site of the '
    'USB stack has a well-formed format (printf arity).')
DOES_NOT_DECIDE = (
    'acceptance of whole reply sequences as a language; id arithmetic beyond '
    'the structural lower/upper bound.')

AP = 'openhtf/plugs/usb/adb_protocol.py'
ST = 'AdbStreamTransport'


def _connect_paths(f):
  g = lib.cfg(f)

  def decide(node, steps):
    if node.kind == 'for':
      visits = sum(1 for n, _ in steps if n is node)
      return ['iter', 'done'] if visits < 2 else ['done']
    return None

  return g, cfgm.walk_paths(g, decide, max_paths=20000)


def _msg_events(p, upto, mv='msg'):
  """Events about `msg` on a path prefix: ('assign', call) / ('test', kind)."""
  ev = []
  for n, l in p.steps[:upto]:
    if n.kind == 'stmt' and isinstance(n.ast, ast.Assign) and any(
        core.is_name(t, mv) for t in n.ast.targets):
      ev.append(('assign', n.ast.value))
    elif n.kind == 'test' and isinstance(n.ast, ast.Compare) and \
        len(n.ast.ops) == 1:
      d = dotted(n.ast.left)
      c = n.ast.comparators[0]
      op = n.ast.ops[0]
      if d == mv + '.command' and core.const_str(c) == 'CNXN':
        is_cnxn = (l == 'T') == isinstance(op, ast.Eq)
        ev.append(('cnxn', is_cnxn))
      if d == mv + '.arg0' and ends_with(dotted(c) or '', 'AUTH_TOKEN'):
        is_tok = (l == 'T') == isinstance(op, ast.Eq)
        ev.append(('token', is_tok))
  return ev


def r1_r2_connect(report, repo):
  rule1, rule2 = 'C15-R1', 'C15-R2'
  report.rule(rule1, 'T-DOM (paths): every `return cls(...)` in connect() '
              'follows a CNXN: explicit test on the last received message or '
              'read_until((\'CNXN\',)); constructor gets msg.arg1 and msg.data')
  report.rule(rule2, 'T-DOM/T-ORDER (paths): every rsa_key.sign() signs a '
              'message tested to be AUTH_TOKEN after it was received; keys in '
              'list order; one AUTH_RSAPUBLICKEY offer after the loop with '
              'rsa_keys[0]; no AUTH written without keys; reads only through '
              'read_until')
  f = repo.func(AP, 'AdbConnection.connect')
  g, paths = _connect_paths(f)
  # the local holding the message received last
  mv = lib.local_from(f, lib.calls(attr='read_until'), 'msg')
  n_ret = n_sign = 0
  bad1 = bad2 = None
  for p in paths:
    for i, (n, l) in enumerate(p.steps):
      if n.kind == 'stmt' and isinstance(n.ast, ast.Return) and isinstance(
          n.ast.value, ast.Call) and call_name(n.ast.value) == 'cls':
        n_ret += 1
        ev = _msg_events(p, i, mv)
        ok = False
        for kind, v in reversed(ev):
          if kind == 'cnxn':
            ok = v
            break
          if kind == 'assign':
            ok = last_attr(v) == 'read_until' and isinstance(
                v.args[0], ast.Tuple) and [core.const_str(e)
                                           for e in v.args[0].elts] == ['CNXN']
            break
        if not ok:
          bad1 = bad1 or n.ast
        a = n.ast.value.args
        if [dotted(x) for x in a[1:3]] != [mv + '.arg1', mv + '.data']:
          bad1 = bad1 or n.ast
      for sub in n.subnodes():
        if isinstance(sub, ast.Call) and last_attr(sub) == 'sign':
          n_sign += 1
          ev = _msg_events(p, i, mv)
          ok = False
          for kind, v in reversed(ev):
            if kind == 'token':
              ok = v
              break
            if kind == 'assign':
              break
          if not ok or dotted(sub.args[0]) != mv + '.data':
            bad2 = bad2 or sub
  report.expect_instances(rule1, n_ret, 3, 'connection returns on paths')
  report.expect_instances(rule2, n_sign, 2, 'signatures on paths')
  report.check(bad1 is None, rule1, f.qualname, 'return-without-cnxn',
               bad1 or f.node,
               'all %d returning paths have CNXN as the last received message '
               'and pass msg.arg1 / msg.data' % n_ret,
               'a connection is returned on a path where the last message '
               'received was not established to be CNXN (or is built from '
               'other fields): connect() can succeed on an AUTH reply')
  report.check(bad2 is None, rule2, f.qualname, 'sign-without-token-test',
               bad2 or f.node,
               'all %d signing paths (up to two loop iterations) test the '
               'message to be AUTH_TOKEN after receiving it' % n_sign,
               'a key signs msg.data on a path where the message received last '
               'was not tested to be an AUTH TOKEN challenge (e.g. check done '
               'once before the loop): a non-token payload gets signed')
  loops = [n for n in walk_no_nested(f.node) if isinstance(n, ast.For)]
  ok = len(loops) == 1 and dotted(loops[0].iter) == 'rsa_keys' and \
      isinstance(loops[0].target, ast.Name)
  report.check(ok, rule2, f.qualname, 'keys-in-order', f.node,
               'keys are tried by iterating rsa_keys itself')
  sg = [c for c in core.calls_in(f.node, attr='sign')]
  report.check(all(dotted(c.func.value) == dotted(loops[0].target) and
                   any(p_ is loops[0] for p_ in core.parents(c)) for c in sg)
               if loops else False, rule2, f.qualname, 'sign-in-loop', f.node,
               'signing uses the loop\'s current key')
  auths = [c for c in core.calls_in(f.node, attr='AdbMessage')
           if core.const_str(core.get_kw(c, 'command', 0)) == 'AUTH']
  pub = [c for c in auths if ends_with(dotted(core.get_kw(c, 'arg0', 1)) or '',
                                       'AUTH_RSAPUBLICKEY')]
  sig = [c for c in auths if ends_with(dotted(core.get_kw(c, 'arg0', 1)) or '',
                                       'AUTH_SIGNATURE')]
  ok = len(pub) == 1 and len(sig) == 1 and loops and \
      not any(p_ is loops[0] for p_ in core.parents(pub[0])) and \
      any(p_ is loops[0] for p_ in core.parents(sig[0])) and \
      'rsa_keys[0].get_public_key()' in norm(core.get_kw(pub[0], 'data', 3))
  report.check(bool(ok), rule2, f.qualname, 'public-key-once-after-loop', f.node,
               'exactly one public-key offer, after the loop, from rsa_keys[0]',
               'the public key is offered inside the loop / more than once / '
               'from another key')
  if ok:
    pn = g.nodes_of(pub[0])
    heads = [n for n in g.nodes if n.kind == 'for']
    okp = all(g.dominated_by_edge(x, lambda s, l, d: s is heads[0] and
                                  l == 'done') for x in pn)
    report.check(okp, rule2, f.qualname, 'offer-after-all-keys', pub[0],
                 'the offer is reached only after every key was tried')
  for c in auths:
    okk = all(g.dominated_by_edge(
        x, lambda s, l, d: s.kind == 'test' and l == 'T' and
        dotted(s.ast) == 'rsa_keys') for x in g.nodes_of(c))
    report.check(okk, rule2, f.qualname, 'no-auth-without-keys', c,
                 'AUTH is written only when keys were supplied')
  raises = [n for n in walk_no_nested(f.node) if isinstance(n, ast.Raise) and
            n.exc is not None and last_attr(n.exc) == 'DeviceAuthError']
  report.check(len(raises) >= 1, rule2, f.qualname, 'auth-error', f.node,
               'missing keys raise DeviceAuthError')
  reads = [c for c in core.calls_in(f.node) if last_attr(c) in (
      'read_message', 'read', 'read_until')]
  report.check(bool(reads) and all(last_attr(c) == 'read_until' for c in reads),
               rule2, f.qualname, 'reads-via-read_until', f.node,
               'every read in connect() goes through read_until (unrelated '
               'packets are skipped, nothing else is)')
  for c in reads:
    exp = c.args[0] if c.args else None
    vals = [core.const_str(e) for e in exp.elts] if isinstance(
        exp, ast.Tuple) else []
    report.check(vals and set(vals) <= {'AUTH', 'CNXN'}, rule2, f.qualname, c,
                 c, 'read_until waits for %s only' % vals)


def r3_ids(report, repo):
  rule = 'C15-R3'
  report.rule(rule, 'T-REGION/T-DOM: _make_stream_transport: selection and '
              'insertion in one `with _stream_transport_map_lock`; insertion '
              'dominated by "candidate not in map"; candidates start >= 1 '
              '(shape (x % LIMIT) + 1) and stay below STREAM_ID_LIMIT; '
              'exhaustion raises AdbStreamUnavailableError')
  f = repo.func(AP, 'AdbConnection._make_stream_transport')
  g = lib.cfg(f)
  LOCK = 'self._stream_transport_map_lock'
  ins = [n for n in g.nodes if n.kind == 'stmt' and isinstance(
      n.ast, ast.Assign) and isinstance(n.ast.targets[0], ast.Subscript) and
         dotted(n.ast.targets[0].value) == 'self._stream_transport_map']
  report.expect_instances(rule, len(ins), 1, 'map insertions')
  i = ins[0]
  key = dotted(i.ast.targets[0].slice)
  keys = lib.copy_class(f, key) if key else set()

  def free(s, l, d):
    if s.kind != 'test' or not isinstance(s.ast, ast.Compare):
      return False
    if dotted(s.ast.left) not in keys or 'self._stream_transport_map' not in norm(
        s.ast.comparators[0]):
      return False
    return l == ('T' if isinstance(s.ast.ops[0], ast.NotIn) else 'F')

  report.check(g.dominated_by_edge(i, free), rule, f.qualname,
               'insert-only-free-id', i.ast,
               'an id is inserted only after it was found absent from the map',
               'a local id can be inserted without having been found free: '
               'two open streams can share an id')
  tests = [n for n in g.nodes if n.kind == 'test' and free(n, 'T', None) or
           (n.kind == 'test' and free(n, 'F', None))]
  ok = LOCK in core.held_withs(i.ast) and bool(tests) and all(
      LOCK in core.held_withs(t.ast) for t in tests)
  regs = [w for w in core.enclosing_withs(i.ast)
          if LOCK in core.with_item_names(w)]
  ok = ok and bool(regs) and all(
      any(x is regs[0] for x in core.enclosing_withs(t.ast)) for t in tests)
  report.check(ok, rule, f.qualname, 'one-lock-region', i.ast,
               'membership test and insertion in one map-lock region',
               'the membership test and the insertion are not in one lock '
               'region: two threads can pick the same id')
  ctor = core.calls_in(f.node, attr='AdbStreamTransport')
  report.check(len(ctor) == 1 and dotted(ctor[0].args[1]) == key and
               dotted(i.ast.value) is not None, rule, f.qualname, 'same-id',
               f.node, 'the transport is created with the id it is stored under')
  rngs = [c for c in core.calls_in(f.node, name='range')]
  report.expect_instances(rule, len(rngs), 2, 'candidate ranges')
  lows = [norm(c.args[0]) for c in rngs]
  highs = [norm(c.args[1]) for c in rngs]
  ok = sorted(lows) == ['1', 'self._last_id_used'] and \
      'STREAM_ID_LIMIT' in highs and 'self._last_id_used' in highs
  report.check(ok, rule, f.qualname, 'ranges', f.node,
               'candidates: range(last, LIMIT) then range(1, last)',
               'candidate ranges are %s: ids may be 0 or reach the limit' %
               list(zip(lows, highs)))
  asg = [n.ast for n in g.nodes if n.kind == 'stmt' and isinstance(
      n.ast, ast.Assign) and dotted(n.ast.targets[0]) == 'self._last_id_used'
         and not (isinstance(n.ast.value, ast.Name) and
                  n.ast.value.id in keys)]
  okshape = len(asg) == 1
  if okshape:
    v = asg[0].value
    okshape = isinstance(v, ast.BinOp) and isinstance(v.op, ast.Add)
    if okshape:
      a, b = v.left, v.right
      if isinstance(a, ast.Constant):
        a, b = b, a
      okshape = isinstance(b, ast.Constant) and b.value == 1 and isinstance(
          a, ast.BinOp) and isinstance(a.op, ast.Mod) and \
          dotted(a.right) == 'STREAM_ID_LIMIT'
  report.check(okshape, rule, f.qualname, 'start-at-least-one',
               asg[0] if asg else f.node,
               'search start = (last % STREAM_ID_LIMIT) + 1, i.e. in '
               '[1, LIMIT]: id 0 is never a candidate',
               'the search start is %s: its shape does not show it to be >= 1 '
               '(e.g. (last + 1) %% LIMIT wraps to 0, a zero local id)' %
               (norm(asg[0].value) if asg else '?'))
  lim = repo.module(AP).constants.get('STREAM_ID_LIMIT')
  report.check(lim is not None, rule, 'adb_protocol', 'STREAM_ID_LIMIT', AP,
               'STREAM_ID_LIMIT is a module constant (%s)' %
               (norm(lim) if lim is not None else '?'))
  fors = [n for n in walk_no_nested(f.node) if isinstance(n, ast.For)]
  ok = len(fors) == 1 and fors[0].orelse and any(
      isinstance(s, ast.Raise) and last_attr(s.exc) ==
      'AdbStreamUnavailableError' for s in fors[0].orelse)
  report.check(ok, rule, f.qualname, 'exhaustion', f.node,
               'running out of candidates raises AdbStreamUnavailableError')


def r4_open(report, repo):
  rule = 'C15-R4'
  report.rule(rule, 'T-DOM: open_stream returns a stream only if '
              'ensure_opened() is true; ensure_opened refuses WRTE; '
              'an OKAY opens only from PENDING and rejects a '
              'changed id')
  f = repo.func(AP, 'AdbConnection.open_stream')
  g = lib.cfg(f)
  rets = [n for n in g.nodes if n.kind == 'stmt' and isinstance(
      n.ast, ast.Return) and isinstance(n.ast.value, ast.Call) and
          last_attr(n.ast.value) == 'AdbStream']
  report.expect_instances(rule, len(rets), 1, 'stream returns')
  ok = all(g.dominated_by_edge(
      r, lambda s, l, d: s.kind == 'test' and l == 'T' and
      last_attr(s.ast) == 'ensure_opened') for r in rets)
  report.check(ok, rule, f.qualname, 'only-after-okay', rets[0].ast,
               'a stream object is returned only when ensure_opened() '
               'succeeded',
               'open_stream can return a stream that was not acknowledged by '
               'the device')
  w = [c for c in core.calls_in(f.node, attr='AdbMessage')]
  ok = len(w) == 1 and core.const_str(core.get_kw(w[0], 'command', 0)) == 'OPEN' \
      and dotted(core.get_kw(w[0], 'arg0', 1)) == lib.local_from(
          f, lib.calls(name='self._make_stream_transport'),
          'stream_transport') + '.local_id'
  report.check(ok, rule, f.qualname, 'open-message', f.node,
               'OPEN carries the newly allocated local id')
  e = repo.func(AP, ST + '.ensure_opened')
  hm = core.calls_in(e.node, name='self._handle_message')
  kw = core.get_kw(hm[0], 'handle_wrte', 1) if hm else None
  rets = [n for n in walk_no_nested(e.node) if isinstance(n, ast.Return)]
  ok = len(hm) == 1 and isinstance(kw, ast.Constant) and kw.value is False and \
      len(rets) == 1 and all(call_name(x) == 'self.is_open'
                             for x in lib.resolved(e, rets[0].value))
  report.check(ok, rule, e.qualname, 'first-message', e.node,
               'the first message must be OKAY or CLSE (WRTE refused); result '
               'is is_open()')
  # the set-or-check logic is read where it takes effect: in enqueue_message
  # on the OKAY branch (a private helper holding it is inlined by the loader)
  s = repo.func(AP, ST + '.enqueue_message')
  emsg = lib.param_names(s.node)[1]
  rid = emsg + '.arg0'

  def classify(expr, steps):
    d = dotted(expr)
    if isinstance(expr, ast.Compare) and len(expr.ops) == 1 and \
        d is None and dotted(expr.left) == emsg + '.command' and isinstance(
            expr.ops[0], ast.Eq):
      c_ = core.const_str(expr.comparators[0])
      if c_ == 'OKAY':
        return 'is_okay'
      if c_ in ('WRTE', 'CLSE'):
        return False  # the table below is about the OKAY branch only
    if d == 'self.remote_id':
      return 'have'
    if isinstance(expr, ast.Compare) and len(expr.ops) == 1:
      l, r, op = dotted(expr.left), dotted(expr.comparators[0]), expr.ops[0]
      if {l, r} == {'self.remote_id', rid}:
        return 'changed' if isinstance(op, ast.NotEq) else ('not', 'changed')
      if l == 'self.closed_state' and ends_with(r or '', 'ClosedState.PENDING'):
        return 'pending' if isinstance(op, ast.Eq) else ('not', 'pending')
    return None

  def spec(v, p):
    sets = [n for n, _ in p.steps if n.kind == 'stmt' and isinstance(
        n.ast, ast.Assign) and dotted(n.ast.targets[0]) in ('self.remote_id',
                                                            'self.closed_state')]
    if not v['is_okay']:
      return 'other-row: remote id / state touched for a non-OKAY message' \
          if sets else None
    if not v['have']:
      if not v['pending']:
        return None if p.end == 'raise' else \
            'first-id-row: opening from a non-PENDING state must fail'
      if p.end != 'exit':
        return 'first-id-row: raises'
      got = sorted(dotted(n.ast.targets[0]) for n in sets)
      if got != ['self.closed_state', 'self.remote_id']:
        return 'first-id-row: must record the id and become OPEN'
      for n in sets:
        if dotted(n.ast.targets[0]) == 'self.remote_id' and \
            dotted(n.ast.value) != rid:
          return 'first-id-row: records another value'
        if dotted(n.ast.targets[0]) == 'self.closed_state' and not ends_with(
            dotted(n.ast.value) or '', 'ClosedState.OPEN'):
          return 'first-id-row: does not become OPEN'
      return None
    if sets:
      return 'known-id-row: a known remote id is overwritten'
    if v['changed'] and p.end == 'exit':
      return 'known-id-row: a changed remote id must raise AdbProtocolError'
    if not v['changed'] and p.end != 'exit':
      return 'known-id-row: the same id must be accepted'
    return None

  lib.decision_table(report, rule, s, ['is_okay', 'have', 'pending', 'changed'],
                     classify, spec)


def r5_close(report, repo):
  rule = 'C15-R5'
  report.rule(rule, 'T-REGION/T-DOM: close_stream_transport: membership test, '
              'del and CLSE send in one lock region; CLSE only when the id was '
              'present and a remote id is known; AdbStreamTransport.close is '
              'idempotent')
  f = repo.func(AP, 'AdbConnection.close_stream_transport')
  st = lib.param_names(f.node)[1]

  def classify(expr, steps):
    if isinstance(expr, ast.Compare) and dotted(expr.left) == st + '.local_id' \
        and 'self._stream_transport_map' in norm(expr.comparators[0]):
      return 'present' if isinstance(expr.ops[0], ast.In) else ('not',
                                                                 'present')
    if dotted(expr) == st + '.remote_id':
      return 'remote'
    # test-and-release in one step: `<map>.pop(<id>, None) is not None`
    if isinstance(expr, ast.Compare) and len(expr.ops) == 1 and isinstance(
        expr.ops[0], (ast.Is, ast.IsNot)) and isinstance(
            expr.comparators[0], ast.Constant) and \
        expr.comparators[0].value is None and _is_pop(
            expr.left, cfgm.Path(steps, None)):
      return 'present' if isinstance(expr.ops[0], ast.IsNot) else ('not',
                                                                    'present')
    return None

  def _is_pop(e, path):
    return isinstance(e, ast.Call) and last_attr(e) == 'pop' and \
        dotted(e.func.value) == 'self._stream_transport_map' and \
        len(e.args) == 2 and isinstance(e.args[1], ast.Constant) and \
        e.args[1].value is None and cfgm.path_dotted(path, e.args[0]) == \
        st + '.local_id'

  LOCK = 'self._stream_transport_map_lock'

  def spec(v, p):
    if p.end != 'exit':
      return None
    dels = [n for n, _ in p.steps if n.kind == 'stmt' and (isinstance(
        n.ast, ast.Delete) or any(_is_pop(x, p) for x in n.subnodes()))]
    clse = [c for c in p.calls(attr='AdbMessage')
            if core.const_str(core.get_kw(c, 'command', 0)) == 'CLSE']
    r = p.last_return().value
    rv = r.value if isinstance(r, ast.Constant) else lib.eval_expr(
        r, v, classify, p, before_index=len(p.steps) - 1)
    if dels and not v['present'] and all(
        not isinstance(n.ast, ast.Delete) for n in dels):
      dels = []  # pop(id, None) of an absent id releases nothing
    if v['present']:
      if len(dels) != 1:
        return 'present-row: the id must be released exactly once'
      if (len(clse) == 1) != v['remote']:
        return ('present-row: CLSE sent %d times with remote id known=%s' %
                (len(clse), v['remote']))
      if clse and [cfgm.path_dotted(p, a) for a in clse[0].args[1:3]] != [
          st + '.local_id', st + '.remote_id']:
        return 'present-row: CLSE does not carry (local id, remote id)'
      if rv is not True:
        return 'present-row: must return True'
      for x in dels + [lib.cfg(f).nodes_of(c)[0] for c in clse]:
        if LOCK not in core.held_withs(x.ast if hasattr(x, 'ast') else x):
          return 'present-row: release / CLSE outside the map lock'
    else:
      if dels or clse:
        return 'absent-row: an absent id must not be released or answered'
      if rv is not False:
        return 'absent-row: must return False'
    return None

  lib.decision_table(report, rule, f, ['present', 'remote'], classify, spec)
  g = lib.cfg(f)
  tests = [n for n in g.nodes if n.kind == 'test' and classify(n.ast, [])
           in ('present', ('not', 'present'))]
  if not tests:
    # the pop() form: the statement that tests and releases
    tests = [n for n in g.nodes if n.kind == 'stmt' and any(
        isinstance(x, ast.Call) and last_attr(x) == 'pop' and
        dotted(x.func.value) == 'self._stream_transport_map'
        for x in n.subnodes())]
  report.check(bool(tests) and all(LOCK in core.held_withs(t.ast)
                                   for t in tests), rule, f.qualname,
               'test-in-lock', f.node, 'membership tested under the map lock')
  c = repo.func(AP, ST + '.close')
  gc = lib.cfg(c)
  eff = [n for n in gc.nodes if n.kind == 'stmt' and (
      isinstance(n.ast, ast.Assign) or any(
          isinstance(s, ast.Call) and last_attr(s) == 'close_stream_transport'
          for s in n.subnodes()))]
  def closed_test(s, l, d):
    if s.kind != 'test' or l != 'F':
      return False
    t = lib.unfold_self_predicate(repo, AP, ST, s.ast)  # self.is_closed()
    return isinstance(t, ast.Compare) and len(t.ops) == 1 and isinstance(
        t.ops[0], ast.Eq) and dotted(t.left) == 'self.closed_state' and \
        ends_with(dotted(t.comparators[0]) or '', 'ClosedState.CLOSED')
  ok = bool(eff) and all(gc.dominated_by_edge(n, closed_test) for n in eff)
  report.check(ok, rule, c.qualname, 'idempotent', c.node,
               'closing a CLOSED transport returns before doing anything')


_SPEC = re.compile(r'%(?:\((\w+)\))?[#0\- +]*(?:\*|\d+)?(?:\.(?:\*|\d+))?'
                   r'[hlL]?([diouxXeEfFgGcrsa%])')


def printf_arity(fmt):
  n = named = 0
  for m in _SPEC.finditer(fmt):
    if m.group(2) == '%':
      continue
    if m.group(1):
      named += 1
    else:
      n += 1
  return n, named


def r6_error_sites(report, repo, rule='C15-R6'):
  report.rule(rule, 'T-STR: every `<literal> % args` in the USB stack has as '
              'many conversion specifiers as arguments (an error site with a '
              'wrong arity raises TypeError instead of the intended ADB error)')
  n = 0
  mods = [r for r in repo.modules if r.startswith('openhtf/plugs/usb/')]
  for rel in sorted(mods):
    for node in ast.walk(repo.module(rel).tree):
      if not (isinstance(node, ast.BinOp) and isinstance(node.op, ast.Mod)):
        continue
      fmt = core.const_str(node.left)
      if fmt is None and isinstance(node.left, ast.BinOp):
        continue
      if fmt is None:
        continue
      n += 1
      pos, named = printf_arity(fmt)
      r = node.right
      if named and not pos:
        continue
      if isinstance(r, ast.Tuple):
        have = len(r.elts)
        if any(isinstance(e, ast.Starred) for e in r.elts):
          continue
      elif isinstance(r, (ast.Dict,)):
        continue
      else:
        have = 1
      owner = core.owner_qualname(node)
      report.check(
          have == pos, rule, owner, node, node,
          '%s: format %r has %d argument(s)' % (owner, fmt[:30], have),
          '%s: format %r expects %d argument(s) but is given %d (%s): this '
          'raises TypeError at run time instead of the intended message / ADB '
          'error' % (owner, fmt[:50], pos, have, norm(r)))
  report.expect_instances(rule, n, 30, 'printf-style format sites')


def r7_drain(report, repo):
  rule = 'C15-R7'
  report.rule(rule, 'T-DOM: a closed stream still hands out what was buffered: '
              'AdbStreamTransport.read reports "closed" only through the '
              'message wait (never before consulting its buffer) and '
              'read_for_stream raises AdbStreamClosedError only after the '
              'message queue was found empty')
  f = repo.func(AP, ST + '.read')
  g = lib.cfg(f)
  waits = [n for n, c in lib.nodes_with_call(
      g, name='self._read_messages_until_true')]
  report.expect_instances(rule, len(waits), 1, 'message waits in read()')
  for n in g.nodes:
    closed_test = n.kind == 'test' and 'closed_state' in norm(n.ast)
    raises_closed = n.kind == 'stmt' and isinstance(n.ast, ast.Raise) and \
        n.ast.exc is not None and last_attr(n.ast.exc) == 'AdbStreamClosedError'
    if closed_test or raises_closed:
      ok = g.dominated_by_edge(
          n, lambda s_, l, d: s_.kind == 'test' and l == 'F' and (
              dotted(s_.ast) in ('self._buffer_size', 'self._read_buffer')))
      report.check(
          ok, rule, f.qualname, 'closed-before-drain', n.ast,
          'closed state consulted only when the buffer is empty',
          'read() looks at the closed state / raises AdbStreamClosedError '
          'without the buffer being known empty: data buffered when the CLSE '
          'arrived is lost instead of being drained first')
  report.ok(rule, f.node, 'read() serves buffered bytes through the message '
            'wait predicate; it has no closed-state shortcut')
  rf = repo.func(AP, 'AdbConnection.read_for_stream')
  n = 0
  for r in walk_no_nested(rf.node):
    if isinstance(r, ast.Raise) and r.exc is not None and \
        last_attr(r.exc) == 'AdbStreamClosedError':
      n += 1
      h = [p for p in core.parents(r) if isinstance(p, ast.ExceptHandler)]
      ok = bool(h) and last_attr(h[0].type) == 'Empty' and any(
          last_attr(c) == 'get_nowait'
          for c in core.calls_in(ast.Module(body=h[0]._parent.body,
                                            type_ignores=[])))
      report.check(ok, rule, rf.qualname, 'closed-after-queue-empty', r,
                   'AdbStreamClosedError only after message_queue.get_nowait() '
                   'found nothing',
                   'read_for_stream reports the stream closed without draining '
                   'its message queue first')
  report.expect_instances(rule, n, 1, 'closed-stream raises')


def r8_banner(report, repo):
  rule = 'C15-R8'
  report.rule(rule, 'T-ARGS: AdbConnection.__init__ takes system type, serial '
              'and banner from the CNXN banner with a split bounded to three '
              'fields (the banner component may itself contain the separator) '
              'and a malformed banner raises AdbProtocolError')
  f = repo.func(AP, 'AdbConnection.__init__')
  bp = lib.param_names(f.node)[3]
  g = lib.cfg(f)
  splits = [(n, c) for n, c in lib.nodes_with_call(g, attr='split')
            if any(dotted(v) == bp for v in lib.value_exprs(g, n, c.func.value))]
  for n, c in splits:
    kw = {k.arg: k.value for k in c.keywords}
    lim = c.args[1] if len(c.args) > 1 else kw.get('maxsplit')
    ok = isinstance(lim, ast.Constant) and lim.value == 2
    report.check(ok, rule, f.qualname, 'bounded-split', c,
                 'banner split bounded to 3 fields',
                 'the CNXN banner is split without maxsplit=2: a banner text '
                 'that contains the separator is truncated or rejected')
  attrs = {dotted(t) for n in g.nodes if n.kind == 'stmt' and n.ast is not None
           for t in core.assigned_targets(n.ast)}
  missing = [a for a in ('self.systemtype', 'self.serial', 'self.banner')
             if a not in attrs]
  report.check(not missing, rule, f.qualname, 'fields', f.node,
               'systemtype, serial and banner are set from the CNXN banner',
               'AdbConnection.__init__ no longer sets %s' % missing)


def run(report, repo):
  report.guard(r8_banner, report, repo)
  report.guard(r1_r2_connect, report, repo)
  report.guard(r3_ids, report, repo)
  report.guard(r4_open, report, repo)
  report.guard(r5_close, report, repo)
  report.guard(r6_error_sites, report, repo)
  report.guard(r7_drain, report, repo)
  from sa.rules import c14  # pylint: disable=g-import-not-at-top
  # illegal mid-session packet types (table shared with C14-R1)
  report.guard(c14.r1_acks, report, repo)
  from sa.rules import extra4 as _x4  # pylint: disable=g-import-not-at-top
  report.guard(_x4.errors_do_not_reformat, report, repo, 'C15-R9')
  from sa.rules import extra5 as _e5b  # pylint: disable=g-import-not-at-top
  from sa.rules import extra4 as _e4  # pylint: disable=g-import-not-at-top
  report.guard(_e4.read_until_close_drains, report, repo, 'C15-R10')
  from sa.rules import extra5 as _e5c  # pylint: disable=g-import-not-at-top
  report.guard(_e5c.read_until_filters_only_by_command, report, repo, 'C15-R11')
  from sa.rules import extra5 as _e6b  # pylint: disable=g-import-not-at-top
  report.guard(_e6b.connection_keeps_device_maxdata, report, repo, 'C15-R12')
