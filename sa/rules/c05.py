"""C05 - phase result -> outcome mapping, repeat limit, run_if."""

import ast

from sa import cfg as cfgm
from sa import core, lib
from sa.core import call_name, dotted, last_attr, norm, walk_no_nested
from sa.lib import ends_with

DECIDES = (
    'both phase-outcome computations of PhaseState as exhaustive decision '
    'tables (ERROR / SKIP / FAIL / PASS rows, STOP override under '
    'stop_on_measurement_fail, marginal only on PASS, outcome definitely '
    'assigned); the repeat loop of PhaseExecutor.execute_phase (counter starts '
    'at 1, incremented only on the back-edge, back-edge only if _should_repeat '
    'and not last repeat, last repeat iff count >= limit, limit = option or '
    'default 3) and the _should_repeat table; run_if falsy/raising paths '
    'return before any record context or thread is created; validation of the '
    'body return value in the phase thread; repeat-limit override; diagnosers '
    'skipped for none/aborted/repeat/skip results, otherwise each run shielded; '
    'one record per entered context and the order of PhaseState.finalize.')
DOES_NOT_DECIDE = (
    'the number of invocations as a function of a behaviour sequence (needs '
    'the values; the bound <= repeat_limit follows from the loop rule); '
    'behaviour of user callables.')

TS = 'openhtf/core/test_state.py'
PE = 'openhtf/core/phase_executor.py'
PD = 'openhtf/core/phase_descriptor.py'


def _assign_nodes(p, target):
  return [n for n, _ in p.steps if n.kind == 'stmt' and isinstance(
      n.ast, ast.Assign) and any(dotted(t) == target for t in n.ast.targets)]


def _member(expr, p=None, idx=None):
  """Last component of a dotted enum member, following one local."""
  if isinstance(expr, ast.Name) and p is not None:
    v = p.value_of(expr.id, idx)
    if v is not None:
      expr = v
  d = dotted(expr)
  return d.split('.')[-1] if d else None


def r1_prediagnosis(report, repo):
  rule = 'C05-R1'
  report.rule(rule, 'T-DTABLE/T-ASSIGN: _set_prediagnosis_phase_outcome = the '
              'statement\'s table; outcome assigned on every path')
  f = repo.func(TS, 'PhaseState._set_prediagnosis_phase_outcome')
  atoms = ['none', 'terminal', 'hit_limit', 'repeat', 'skip', 'fail_subtest',
           'fail_continue', 'meas_pass', 'stop_on_fail']

  def is_result(e, steps):
    d = dotted(e)
    if d == 'self.result' or d == 'self.phase_record.result':
      return True
    if isinstance(e, ast.Name):
      v = cfgm.Path(steps, None).value_of(e.id)
      return v is not None and dotted(v) in ('self.result',
                                             'self.phase_record.result')
    return False

  def classify(expr, steps):
    if isinstance(expr, ast.Compare) and len(expr.ops) == 1 and isinstance(
        expr.comparators[0], ast.Constant) and \
        expr.comparators[0].value is None and is_result(expr.left, steps):
      return 'none' if isinstance(expr.ops[0], (ast.Is, ast.Eq)) else ('not',
                                                                       'none')
    if isinstance(expr, ast.Attribute) and is_result(expr.value, steps):
      return {
          'is_terminal': 'terminal',
          'is_repeat': 'repeat',
          'is_skip': 'skip',
          'is_fail_subtest': 'fail_subtest',
          'is_fail_and_continue': 'fail_continue'
      }.get(expr.attr)
    d = dotted(expr)
    if d == 'self.hit_repeat_limit':
      return 'hit_limit'
    if d == 'self.options.stop_on_measurement_fail':
      return 'stop_on_fail'
    if call_name(expr) == 'self._measurements_pass':
      return 'meas_pass'
    return None

  def consistent(v):
    kinds = [v['terminal'], v['repeat'], v['skip'], v['fail_subtest'],
             v['fail_continue']]
    if sum(kinds) > 1:
      return False
    if v['none'] and any(kinds):
      return False
    return True

  def spec(v, p):
    if p.end != 'exit':
      return 'raises on a path'
    outs = _assign_nodes(p, 'self.phase_record.outcome')
    if len(outs) != 1:
      return 'assign: phase outcome assigned %d times on a path' % len(outs)
    idx = p.index_of(lambda n: n is outs[0])
    got = _member(outs[0].ast.value, p, idx)
    if v['none'] or v['terminal'] or v['hit_limit']:
      want = 'ERROR'
    elif v['repeat'] or v['skip']:
      want = 'SKIP'
    elif v['fail_subtest'] or v['fail_continue']:
      want = 'FAIL'
    elif not v['meas_pass']:
      want = 'FAIL'
    else:
      want = 'PASS'
    if got != want:
      return 'row: outcome %s, expected %s' % (got, want)
    stops = [n for n in _assign_nodes(p, 'self.result') +
             _assign_nodes(p, 'self.phase_record.result')
             if any(ends_with(dotted(x) or '', 'PhaseResult.STOP')
                    for x in ast.walk(n.ast.value))]
    reached_meas = not (v['none'] or v['terminal'] or v['hit_limit'] or
                        v['repeat'] or v['skip'] or v['fail_subtest'] or
                        v['fail_continue'])
    want_stop = reached_meas and not v['meas_pass'] and v['stop_on_fail']
    if bool(stops) != want_stop:
      return 'stop-override: result:=STOP %s, expected %s' % (bool(stops),
                                                              want_stop)
    marg = _assign_nodes(p, 'self.phase_record.marginal') + _assign_nodes(
        p, 'self.marginal')
    if want == 'PASS':
      ok = len(marg) == 1 and (lib.is_any_over_values(
          marg[0].ast.value, 'marginal', 'measurements') or (
              repo.has_func(TS, 'PhaseState._measurements_marginal') and
              call_name(marg[0].ast.value) == 'self._measurements_marginal'))
      if not ok:
        return ('marginal: PASS must set marginal to any(meas.marginal) over '
                'all measurements of the phase')
    elif marg:
      return 'marginal: marginal assigned on a non-PASS row'
    return None

  lib.decision_table(report, rule, f, atoms, classify, spec, consistent)
  return classify


def r2_postdiagnosis(report, repo):
  rule = 'C05-R2'
  report.rule(rule, 'T-DTABLE: _set_postdiagnosis_phase_outcome: ERROR sticky; '
              'terminal result after diagnosers => ERROR; PASS + failure '
              'diagnosis => FAIL; nothing else changes')
  f = repo.func(TS, 'PhaseState._set_postdiagnosis_phase_outcome')
  atoms = ['is_error', 'none', 'terminal', 'is_pass', 'fail_diag']

  def classify(expr, steps):
    # locals holding a snapshot of the outcome / result taken on this path are
    # read through (`o = self.phase_record.outcome; if o == ERROR`)
    path = cfgm.Path(steps, None)

    def dotted(e):  # pylint: disable=redefined-outer-name
      return cfgm.path_dotted(path, e) or core.dotted(e)
    if isinstance(expr, ast.Compare) and len(expr.ops) == 1:
      l, r = expr.left, expr.comparators[0]
      op = expr.ops[0]
      if dotted(l) == 'self.phase_record.outcome':
        m = (dotted(r) or '').split('.')[-1]
        eq = isinstance(op, (ast.Eq, ast.Is))
        ne = isinstance(op, (ast.NotEq, ast.IsNot))
        if m == 'ERROR' and (eq or ne):
          return 'is_error' if eq else ('not', 'is_error')
        if m == 'PASS' and (eq or ne):
          return 'is_pass' if eq else ('not', 'is_pass')
      if dotted(l) in ('self.result', 'self.phase_record.result') and \
          isinstance(r, ast.Constant) and r.value is None:
        return 'none' if isinstance(op, (ast.Is, ast.Eq)) else ('not', 'none')
    d = dotted(expr)
    if d in ('self.result.is_terminal', 'self.phase_record.result.is_terminal'):
      return 'terminal'
    if d == 'self.phase_record.failure_diagnosis_results':
      return 'fail_diag'
    return None

  def consistent(v):
    if v['is_error'] and v['is_pass']:
      return False
    if v['none'] and v['terminal']:
      return False
    return True

  def spec(v, p):
    if p.end != 'exit':
      return 'raises on a path'
    outs = _assign_nodes(p, 'self.phase_record.outcome')
    got = [_member(n.ast.value) for n in outs]
    if v['is_error']:
      want = []
    elif v['none'] or v['terminal']:
      want = ['ERROR']
    elif not v['is_pass']:
      want = []
    elif v['fail_diag']:
      want = ['FAIL']
    else:
      want = []
    if got != want:
      return 'row: post-diagnosis outcome writes %s, expected %s' % (got, want)
    return None

  lib.decision_table(report, rule, f, atoms, classify, spec, consistent)


def _ret_bool(p, v, classify):
  r = p.last_return()
  if r is None or r.value is None:
    return None
  if isinstance(r.value, ast.Constant):
    return bool(r.value.value)
  idx = len(p.steps) - 1
  return lib.eval_expr(r.value, v, classify, p, before_index=idx)


def r3_repeat(report, repo):
  rule = 'C05-R3'
  report.rule(rule, 'T-LOOP/T-DTABLE: execute_phase: one loop; counter from 1, '
              '+1 only on the back-edge; back-edge iff _should_repeat and not '
              'last; last iff count >= limit; limit = option or default (3); '
              '_should_repeat true iff timeout&repeat_on_timeout | REPEAT | '
              'force_repeat | repeat_on_measurement_fail & record FAIL')
  f = repo.func(PE, 'PhaseExecutor.execute_phase')
  loops = [n for n in walk_no_nested(f.node) if isinstance(n, (ast.While, ast.For))]
  report.check(len(loops) == 1 and isinstance(loops[0], ast.While), rule,
               f.qualname, 'single-loop', f.node, 'one while loop')
  if len(loops) != 1:
    return
  # names are taken from the code: `last` is what _execute_phase_once is given
  # as its second argument, `count`/`limit` are the sides of its definition
  once = core.calls_in(f.node, name='self._execute_phase_once')
  report.expect_instances(rule, len(once), 1, '_execute_phase_once calls')
  last = dotted(once[0].args[1]) if len(once[0].args) > 1 else None
  lasts = [n for n in walk_no_nested(loops[0]) if isinstance(n, ast.Assign) and
           last is not None and any(core.is_name(t, last) for t in n.targets)]
  count = limit = None
  ok = len(lasts) == 1 and isinstance(lasts[0].value, ast.Compare) and \
      len(lasts[0].value.ops) == 1 and isinstance(
          lasts[0].value.left, ast.Name) and isinstance(
              lasts[0].value.comparators[0], ast.Name)
  if ok:
    cmp_ = lasts[0].value
    if isinstance(cmp_.ops[0], ast.GtE):
      count, limit = cmp_.left.id, cmp_.comparators[0].id
    elif isinstance(cmp_.ops[0], ast.LtE):
      limit, count = cmp_.left.id, cmp_.comparators[0].id
    else:
      ok = False
  lims = [n for n in walk_no_nested(f.node) if isinstance(n, ast.Assign) and
          limit is not None and any(core.is_name(t, limit) for t in n.targets)]
  # the side that is `options.repeat_limit or DEFAULT` is the limit
  ok = ok and len(lims) == 1
  report.check(ok, rule, f.qualname, 'is_last_repeat', lasts[0] if lasts else
               f.node, 'is_last_repeat = repeat_count >= repeat_limit, '
               'recomputed every iteration',
               'is_last_repeat is not `repeat_count >= repeat_limit`: the body '
               'can be invoked more (or fewer) than repeat_limit times')
  # counter discipline
  inits = [n for n in walk_no_nested(f.node) if isinstance(n, ast.Assign) and
           count is not None and any(core.is_name(t, count) for t in n.targets)]
  augs = [n for n in walk_no_nested(f.node) if isinstance(n, ast.AugAssign) and
          count is not None and core.is_name(n.target, count)]
  ok = len(inits) == 1 and isinstance(inits[0].value, ast.Constant) and \
      inits[0].value.value == 1 and len(augs) == 1 and isinstance(
          augs[0].op, ast.Add) and isinstance(augs[0].value, ast.Constant) and \
      augs[0].value.value == 1 and not core.in_block(inits[0], loops[0], 'body')
  report.check(ok, rule, f.qualname, 'counter', f.node,
               'repeat_count starts at 1 outside the loop and is incremented by '
               '1 at exactly one site',
               'repeat counter discipline broken (init %s, increments %s): the '
               'invocation bound repeat_limit no longer follows' %
               ([norm(x) for x in inits], [norm(x) for x in augs]))
  ok = len(lims) == 1 and isinstance(lims[0].value, ast.BoolOp) and isinstance(
      lims[0].value.op, ast.Or) and len(lims[0].value.values) == 2 and \
      ends_with(dotted(lims[0].value.values[0]) or '', 'options.repeat_limit') \
      and ends_with(dotted(lims[0].value.values[1]) or '',
                    'DEFAULT_REPEAT_LIMIT')
  report.check(ok, rule, f.qualname, 'repeat_limit', lims[0] if lims else f.node,
               'repeat_limit = options.repeat_limit or DEFAULT_REPEAT_LIMIT')
  dflt = repo.module(PD).constants.get('DEFAULT_REPEAT_LIMIT')
  report.check(isinstance(dflt, ast.Constant) and dflt.value == 3, rule,
               'phase_descriptor', 'DEFAULT_REPEAT_LIMIT', PD,
               'DEFAULT_REPEAT_LIMIT == 3')

  def once_calls(steps):
    return sum(1 for n, _ in steps for s in n.subnodes()
               if isinstance(s, ast.Call) and
               call_name(s) == 'self._execute_phase_once')

  def classify(expr, steps):
    first = once_calls(steps) == 0 or (
        once_calls(steps) == 1 and not any(
            n.kind == 'stmt' and isinstance(n.ast, (ast.Continue, ast.AugAssign))
            for n, _ in steps))
    if not first:
      return None  # later iterations: explore both ways
    if call_name(expr) == 'self._stopping.is_set':
      return 'stopping'
    if call_name(expr) == 'self._should_repeat':
      return 'should_repeat'
    if last is not None and core.is_name(expr, last):
      return 'last'
    return None

  def spec(v, p):
    if p.end != 'exit':
      return None
    # first-iteration prefix
    calls = p.calls(name='self._execute_phase_once')
    incs = [i for i, (n, _) in enumerate(p.steps)
            if n.kind == 'stmt' and isinstance(n.ast, ast.AugAssign)]
    if v['stopping']:
      if calls:
        return 'cancelled-row: body invoked although the executor is stopping'
      r = p.last_return().value
      ok = isinstance(r, ast.Tuple) and isinstance(r.elts[0], ast.Call) and \
          last_attr(r.elts[0]) == 'PhaseExecutionOutcome' and isinstance(
              r.elts[0].args[0], ast.Constant) and r.elts[0].args[0].value is None
      return None if ok else 'cancelled-row: must return the timeout outcome'
    if not calls:
      return 'run-row: body not invoked'
    c0 = calls[0]
    a = [dotted(x) for x in c0.args]
    if a[:2] != [lib.param_names(f.node)[1], last]:
      return 'run-row: _execute_phase_once not given (phase, is_last_repeat)'
    first_ret = p.index_of(lambda n: n.kind == 'stmt' and isinstance(
        n.ast, ast.Return))
    if v['should_repeat'] and not v['last']:
      if not incs or incs[0] > first_ret >= 0 and len(calls) < 2:
        return 'repeat-row: must increment the counter and loop again'
      if len(calls) < 2 and not any(
          n.kind == 'test' and call_name(n.ast) == 'self._stopping.is_set'
          for n, _ in p.steps[incs[0]:]):
        return 'repeat-row: does not loop back'
      return None
    if len(calls) != 1 or incs:
      return ('final-row: body re-invoked (calls=%d) although should_repeat=%s '
              'last=%s' % (len(calls), v['should_repeat'], v['last']))
    r = p.last_return().value
    ok = isinstance(r, ast.Tuple) and len(r.elts) == 2 and isinstance(
        r.elts[0], ast.Name)
    if ok:
      # the returned outcome is the one produced by the call
      tgt = [n for n, _ in p.steps if n.kind == 'stmt' and isinstance(
          n.ast, ast.Assign) and n.ast.value is c0]
      ok = bool(tgt) and r.elts[0].id in [
          x.id for x in core.assigned_targets(tgt[0].ast)
          if isinstance(x, ast.Name)]
    return None if ok else 'final-row: must return the outcome of the last invocation'

  lib.decision_table(report, rule, f, ['stopping', 'should_repeat', 'last'],
                     classify, spec)

  # _should_repeat
  sr = repo.func(PE, 'PhaseExecutor._should_repeat')
  pn = lib.param_names(sr.node)
  ph, oc = pn[1], pn[2]
  atoms = ['timeout', 'rot', 'is_repeat', 'force', 'romf', 'recorded',
           'last_fail']

  def cl(expr, steps):
    d = dotted(expr)
    if d == oc + '.is_timeout':
      return 'timeout'
    if d == oc + '.is_repeat':
      return 'is_repeat'
    if d == ph + '.options.repeat_on_timeout':
      return 'rot'
    if d == ph + '.options.force_repeat':
      return 'force'
    if d == ph + '.options.repeat_on_measurement_fail':
      return 'romf'
    if len(pn) > 3 and d == pn[3]:
      return 'recorded'
    if isinstance(expr, ast.Compare) and len(expr.ops) == 1 and isinstance(
        expr.ops[0], (ast.Eq, ast.Is)) and ends_with(
            dotted(expr.comparators[0]) or '', 'PhaseOutcome.FAIL'):
      return 'last_fail'
    return None

  def sp(v, p):
    if p.end != 'exit':
      return 'raises on a path'
    got = _ret_bool(p, v, cl)
    want = (v['timeout'] and v['rot']) or v['is_repeat'] or v['force'] or (
        v['romf'] and v['recorded'] and v['last_fail'])
    if got is None:
      return 'return value not evaluable: %s' % norm(p.last_return())
    if got != want:
      return 'row: _should_repeat returns %s, expected %s' % (got, want)
    return None

  lib.decision_table(report, rule, sr, atoms, cl, sp,
                     lambda v: not (v['timeout'] and v['is_repeat']))


def r4_run_if(report, repo, rule='C05-R4'):
  report.rule(rule, 'T-ORDER: _execute_phase_once: falsy / raising run_if '
              'returns before running_phase_context is entered and before a '
              'PhaseExecutorThread is constructed')
  f = repo.func(PE, 'PhaseExecutor._execute_phase_once')
  g = lib.cfg(f)
  pn = lib.param_names(f.node)[1]

  def classify(expr, steps):
    d = dotted(expr)
    if d == pn + '.options.run_if':
      return 'has_run_if'
    if core.is_name(expr, 'run_phase') or call_name(expr) == \
        pn + '.options.run_if':
      return 'run_phase'
    return None

  def follow_exc(node, steps):
    t = node.succ('exc')
    return t is not None and t.kind == 'dispatch' and any(
        call_name(s) == pn + '.options.run_if' for s in node.subnodes()
        if isinstance(s, ast.Call))

  n_skip = [0]
  # methods of PhaseExecutor that (transitively) open a phase record context
  recorders = {'running_phase_context', 'add_phase_record'}
  changed = True
  while changed:
    changed = False
    for m in repo.methods(PE, 'PhaseExecutor'):
      if m.name in recorders:
        continue
      if any(last_attr(c) in recorders for c in core.calls_in(m.node)):
        recorders.add(m.name)
        changed = True

  def spec(v, p):
    if p.end != 'exit':
      return None
    ctx = [c for c in p.calls() if last_attr(c) in recorders]
    thr = p.calls(attr='PhaseExecutorThread')
    via_handler = any(n.kind == 'handler' for n, _ in p.steps)
    if v['has_run_if'] and (via_handler or not v['run_phase']):
      n_skip[0] += 1
      if ctx or thr:
        return ('run_if-row: a record context / phase thread is created '
                'although run_if was falsy or raised')
      r = p.last_return().value
      first = r.elts[0] if isinstance(r, ast.Tuple) else r
      first = cfgm.path_resolve(p, first, before_index=len(p.steps) - 1)
      if via_handler:
        ok = isinstance(first, ast.Call) and any(
            isinstance(x, ast.Call) and last_attr(x) == 'ExceptionInfo'
            for x in ast.walk(first))
        return None if ok else 'run_if-raise-row: must return the exception outcome'
      ok = isinstance(first, ast.Call) and first.args and ends_with(
          dotted(first.args[0]) or '', 'PhaseResult.SKIP')
      return None if ok else 'run_if-false-row: must return a SKIP outcome'
    if len(ctx) != 1:
      return 'run-row: running_phase_context entered %d times' % len(ctx)
    started = p.calls(attr='start')
    if started:
      res = []
      for i, (n, _) in enumerate(p.steps):
        if n.kind == 'stmt' and isinstance(n.ast, ast.Assign) and (
            dotted(n.ast.targets[0]) or '').endswith('.result'):
          val = cfgm.path_resolve(p, n.ast.value, before_index=i)
          if isinstance(val, ast.Call) and last_attr(val) == 'join_or_die':
            res.append(n)
      if len(res) != 1:
        return ('run-row: the result of the started phase thread '
                '(join_or_die) is not stored in the phase state exactly once')
    return None

  lib.decision_table(report, rule, f, ['has_run_if', 'run_phase'], classify,
                     spec, follow_exc=follow_exc)
  report.expect_instances(rule, n_skip[0], 2, 'run_if skip/raise paths')
  # repeat-limit override
  rule5 = 'C05-R5' if rule == 'C05-R4' else rule + 'b'
  hits = [n for n in walk_no_nested(f.node) if isinstance(n, ast.Assign) and
          any((dotted(t) or '').endswith('.hit_repeat_limit')
              for t in n.targets)]
  report.expect_instances(rule5, len(hits), 1, 'hit_repeat_limit writes')
  ov_names = []
  last_param = lib.param_names(f.node)[2]
  for h in hits:
    nodes = g.nodes_of(h)
    # both conjuncts must dominate
    ok = all(
        g.dominated_by_edge(x, lambda s, l, d: s.kind == 'test' and l == 'T' and
                            (dotted(s.ast) or '').endswith('.is_repeat')) and
        g.dominated_by_edge(x, lambda s, l, d: s.kind == 'test' and l == 'T' and
                            core.is_name(s.ast, last_param))
        for x in nodes)
    ok = ok and isinstance(h.value, ast.Constant) and h.value.value is True
    report.check(ok, rule5, f.qualname, 'hit_repeat_limit-guard', h,
                 'hit_repeat_limit set only for a REPEAT result on the last '
                 'allowed invocation')
    blk = []
    for field in ('body', 'orelse', 'finalbody'):
      cand = getattr(h._parent, field, None)
      if isinstance(cand, list) and any(x is h for x in cand):
        blk = cand
    ov = [n for n in blk if isinstance(n, ast.Assign) and len(n.targets) == 1
          and isinstance(n.targets[0], ast.Name) and any(
              ends_with(dotted(x) or '', 'PhaseResult.STOP')
              for x in ast.walk(n.value))]
    report.check(len(ov) == 1, rule5, f.qualname, 'override-stop', h,
                 'exceeding the repeat limit overrides the result with STOP')
    if len(ov) == 1:
      ov_names.append(ov[0].targets[0].id)
  rets = [n for n in g.nodes if isinstance(n.ast, ast.Return)]
  final = max(rets, key=lambda n: n.ast.lineno)
  first = final.ast.value.elts[0] if isinstance(
      final.ast.value, ast.Tuple) and final.ast.value.elts else final.ast.value
  vals = lib.value_exprs(g, final, first)
  ok = bool(ov_names) and bool(vals) and all(
      isinstance(v, ast.BoolOp) and isinstance(v.op, ast.Or) and
      len(v.values) == 2 and isinstance(v.values[0], ast.Name) and
      v.values[0].id in lib.copy_class(f, ov_names[0]) and
      (dotted(v.values[1]) or '').endswith('.result') for v in vals)
  report.check(ok, rule5, f.qualname, 'final-result', final.ast,
               'returned result = override_result or the (refreshed) phase '
               'state result')


def r5_thread_proc(report, repo, rule='C05-R5'):
  report.rule(rule, 'T-DTABLE: PhaseExecutorThread._thread_proc: None -> '
              'CONTINUE; non-PhaseResult => raise; FAIL_SUBTEST without subtest '
              '=> raise; _thread_exception stores the exception outcome and '
              'suppresses propagation; repeat-limit hit => STOP override')
  f = repo.func(PE, 'PhaseExecutorThread._thread_proc')
  # the local holding what the phase function returned
  pr = lib.local_from(f, lib.calls(name='self._phase_desc'), 'phase_return')

  def classify(expr, steps):
    if isinstance(expr, ast.Compare) and len(expr.ops) == 1:
      l, r, op = expr.left, expr.comparators[0], expr.ops[0]
      if core.is_name(l, pr) and isinstance(r, ast.Constant) and \
          r.value is None and isinstance(op, (ast.Is, ast.Eq)):
        reassigned = any(
            n.kind == 'stmt' and isinstance(n.ast, ast.Assign) and
            any(core.is_name(t, pr) for t in n.ast.targets) and
            not isinstance(n.ast.value, ast.Call) for n, _ in steps)
        return False if reassigned else 'ret_none'
      if core.is_name(l, pr) and ends_with(
          dotted(r) or '', 'PhaseResult.FAIL_SUBTEST') and isinstance(
              op, (ast.Is, ast.Eq)):
        return 'fail_subtest'
    if call_name(expr) == 'isinstance' and core.is_name(expr.args[0],
                                                        pr) and \
        ends_with(dotted(expr.args[1]) or '', 'PhaseResult'):
      return 'is_result'
    if dotted(expr) == 'self._subtest_rec':
      return 'has_subtest'
    return None

  def consistent(v):
    if v['ret_none'] and (not v['is_result'] or v['fail_subtest']):
      return False
    if v['fail_subtest'] and not v['is_result']:
      return False
    return True

  def spec(v, p):
    stores = _assign_nodes(p, 'self._phase_execution_outcome')
    if not v['is_result'] or (v['fail_subtest'] and not v['has_subtest']):
      if p.end == 'exit':
        return ('invalid-row: invalid phase result accepted (is_result=%s '
                'fail_subtest=%s has_subtest=%s)' %
                (v['is_result'], v['fail_subtest'], v['has_subtest']))
      r = p.raised()
      if r is None or not isinstance(r, ast.Raise) or last_attr(
          r.exc) != 'InvalidPhaseResultError':
        return 'invalid-row: must raise InvalidPhaseResultError'
      if stores:
        return 'invalid-row: outcome stored before rejection'
      return None
    if p.end != 'exit':
      return 'valid-row: raises for a valid result'
    if len(stores) != 1:
      return 'valid-row: outcome stored %d times' % len(stores)
    val = stores[0].ast.value
    ok = isinstance(val, ast.Call) and last_attr(val) == \
        'PhaseExecutionOutcome' and len(val.args) == 1
    if not ok:
      return 'valid-row: stored outcome does not wrap the phase return value'
    # what the wrapped value stands for on this path
    si = p.index_of(lambda n_: n_ is stores[0])
    res = cfgm.path_resolve(p, val.args[0], before_index=si)
    if v['ret_none']:
      if not ends_with(dotted(res) or '', 'PhaseResult.CONTINUE'):
        return 'none-row: None is not defaulted to CONTINUE'
    elif not (isinstance(res, ast.Call) and
              call_name(res) == 'self._phase_desc'):
      return 'valid-row: stored outcome does not wrap the phase return value'
    return None

  lib.decision_table(report, rule, f,
                     ['ret_none', 'is_result', 'fail_subtest', 'has_subtest'],
                     classify, spec, consistent)
  te = repo.func(PE, 'PhaseExecutorThread._thread_exception')
  st = [n for n in walk_no_nested(te.node) if isinstance(n, ast.Assign) and
        any(dotted(t) == 'self._phase_execution_outcome' for t in n.targets)]
  rets = [n for n in walk_no_nested(te.node) if isinstance(n, ast.Return)]
  ok = len(st) == 1 and any(
      isinstance(x, ast.Call) and last_attr(x) == 'ExceptionInfo'
      for x in ast.walk(st[0].value)) and len(rets) == 1 and isinstance(
          rets[0].value, ast.Constant) and rets[0].value.value is True
  report.check(ok, rule, te.qualname, 'exception-outcome', te.node,
               'a raising body is stored as an exception outcome and not '
               'propagated')


def r6_diagnosers(report, repo):
  rule = 'C05-R6'
  report.rule(rule, 'T-SHIELD/T-DTABLE: phase diagnosers skipped for None / '
              'aborted / REPEAT / SKIP results, otherwise every diagnoser is '
              'run, each inside try/except that does not leave the loop')
  f = repo.func(TS, 'PhaseState._execute_phase_diagnosers')

  def is_result(e, steps):
    d = dotted(e)
    if d in ('self.result', 'self.phase_record.result'):
      return True
    if isinstance(e, ast.Name):
      v = cfgm.Path(steps, None).value_of(e.id)
      return v is not None and dotted(v) in ('self.result',
                                             'self.phase_record.result')
    return False

  def classify(expr, steps):
    if isinstance(expr, ast.Compare) and len(expr.ops) == 1 and isinstance(
        expr.comparators[0], ast.Constant) and \
        expr.comparators[0].value is None and is_result(expr.left, steps):
      return 'none' if isinstance(expr.ops[0], (ast.Is, ast.Eq)) else ('not',
                                                                       'none')
    if isinstance(expr, ast.Attribute) and is_result(expr.value, steps):
      return {'is_aborted': 'aborted', 'is_repeat': 'repeat',
              'is_skip': 'skip'}.get(expr.attr)
    return None

  def spec(v, p):
    if p.end != 'exit':
      return None
    calls = p.calls(attr='execute_phase_diagnoser')
    iterated = any(l == 'iter' for n, l in p.steps if n.kind == 'for')
    skip = v['none'] or v['aborted'] or v['repeat'] or v['skip']
    if skip and calls:
      return 'skip-row: diagnosers run for a none/aborted/repeat/skip result'
    if not skip:
      fors = [n for n, l in p.steps if n.kind == 'for']
      if not fors:
        return 'run-row: diagnosers not iterated'
      if dotted(fors[0].ast.iter) != 'self.diagnosers':
        return 'run-row: loop is not over self.diagnosers'
      if iterated and len(calls) != 1:
        return 'run-row: diagnoser not run exactly once per element'
    return None

  lib.decision_table(report, rule, f, ['none', 'aborted', 'repeat', 'skip'],
                     classify, spec,
                     lambda v: not (v['none'] and (v['aborted'] or v['repeat']
                                                   or v['skip'])))
  loops = [n for n in walk_no_nested(f.node) if isinstance(n, ast.For)]
  for lp in loops:
    bad = [n for n in walk_no_nested(lp) if isinstance(n, (ast.Break, ast.Return))]
    report.check(not bad, rule, f.qualname, 'loop-not-left-early', lp,
                 'diagnoser loop has no break/return')
  # the per-diagnoser helper, if there is one, is inlined by the loader: the
  # rule reads the loop of the entry point only
  d1 = f
  cs = core.calls_in(d1.node, attr='execute_phase_diagnoser')
  report.expect_instances(rule, len(cs), 1, 'diagnoser executions')
  sh = lib.shielded_by_try(cs[0], ('Exception', 'BaseException', None))
  ok = sh is not None and not any(
      isinstance(n, ast.Raise) for n in walk_no_nested(sh[1])) and any(
          any(p_ is lp for p_ in core.parents(sh[0])) for lp in loops)
  report.check(ok, rule, d1.qualname, 'shield', cs[0],
               'each diagnoser runs inside try/except Exception that does not '
               're-raise (all diagnosers run even if one raises)',
               'a raising diagnoser is not contained: the remaining diagnosers '
               'do not run')
  if sh is not None:
    # handler: terminal -> log only; else result := exception outcome
    g = lib.cfg(d1)
    hn = [x for x in g.nodes if x.kind == 'handler' and x.ast is sh[1]]
    stores = lambda x: x.kind == 'stmt' and isinstance(x.ast, ast.Assign) and \
        any((dotted(t) or '').endswith('result') for t in x.ast.targets)
    bad = False
    for h in hn:
      if any(g.is_any_exit(x) for x in g.reach(
          [h], avoid=stores,
          avoid_edge=lambda a, l, b: l == 'exc' or (
              a.kind == 'test' and l == 'T' and
              (dotted(a.ast) or '').endswith('result.is_terminal')))):
        bad = True
    report.check(not bad, rule, d1.qualname, 'diagnoser-error-recorded', sh[1],
                 'a raising diagnoser becomes the phase result (ERROR) unless '
                 'the result is already terminal')


def r6b_diagnoses_reach_record(report, repo):
  rule = 'C05-R6'
  DL = 'openhtf/core/diagnoses_lib.py'
  f = repo.func(DL, 'DiagnosesManager.execute_phase_diagnoser')
  g = lib.cfg(f)
  heads = [n for n in g.nodes if n.kind == 'for']
  report.expect_instances(rule, len(heads), 1, 'diagnosis loops')
  h = heads[0]
  var = dotted(h.ast.target)
  adds = [n for n, c in lib.nodes_with_call(g, attr='add_diagnosis')
          if dotted(c.func.value) == lib.param_names(f.node)[2] and
          c.args and dotted(c.args[0]) == var]
  body = h.succ('iter')
  if any(body is a for a in adds):
    reach = []
  else:
    reach = [body] + g.reach([body], avoid=lambda n: any(n is a for a in adds),
                             avoid_edge=lambda a, l, b: l in ('exc', 'raise'))
  ok = bool(adds) and not any(x is h or x is g.exit for x in reach)
  report.check(ok, rule, f.qualname, 'every-diagnosis-recorded', h.ast,
               'every diagnosis a phase diagnoser returns is added to the '
               'phase state (and so to the phase record) unconditionally',
               'a diagnosis can be dropped before it reaches the phase record '
               '(e.g. skipped as a duplicate): a failure diagnosis re-issued '
               'by a later invocation no longer makes that invocation FAIL')
  runs = core.calls_in(f.node, attr='run')
  report.check(len(runs) == 1 and not core.repeated_by_loop(runs[0]), rule,
               f.qualname, 'diagnoser-run-once', f.node,
               'the diagnoser runs exactly once per invocation')
  ad = repo.func(TS, 'PhaseState.add_diagnosis')

  def classify(expr, steps):
    if dotted(expr) == lib.param_names(ad.node)[1] + '.is_failure':
      return 'failure'
    return None

  def spec(v, p):
    if p.end != 'exit':
      return 'raises'
    apps = [cfgm.path_dotted(p, c.func.value) for c in p.calls(attr='append')]
    want = ['self.phase_record.failure_diagnosis_results'] if v['failure'] \
        else ['self.phase_record.diagnosis_results']
    return None if apps == want else \
        'diagnosis appended to %s, expected %s' % (apps, want)

  lib.decision_table(report, rule, ad, ['failure'], classify, spec)


def r7_record_once(report, repo, rule='C05-R7'):
  report.rule(rule, 'T-MUST: running_phase_context: finalize() then '
              'add_phase_record in the finally (one record per entered '
              'context); PhaseState.finalize runs its five steps in order')
  f = repo.func(TS, 'TestState.running_phase_context')
  tries = [n for n in walk_no_nested(f.node) if isinstance(n, ast.Try) and
           n.finalbody and any(isinstance(x, ast.Yield)
                               for s in n.body for x in ast.walk(s))]
  if not tries:
    report.violation(rule, f.qualname, 'yield-in-try-finally', f.node,
                     'the phase body (yield) is not protected by try/finally: '
                     'a raising body leaves no phase record')
    return
  t = tries[0]
  names = [last_attr(c) for s in t.finalbody for c in core.calls_in(s)]
  ok = 'finalize' in names and 'add_phase_record' in names and \
      names.index('finalize') < names.index('add_phase_record') and \
      names.count('add_phase_record') == 1
  report.check(ok, rule, f.qualname, 'finalize-then-record', t,
               'finally: phase_state.finalize() then add_phase_record(...) '
               'exactly once',
               'finally block does %s: the phase record is not finalised and '
               'added exactly once per entered context' % names)
  others = [c for c in core.calls_in(f.node, attr='add_phase_record')
            if not core.in_block(c, t, 'finalbody')]
  report.check(not others, rule, f.qualname, 'no-other-add', f.node,
               'no phase record is added outside the finally')
  fin = repo.func(TS, 'PhaseState.finalize')
  want = ['_finalize_measurements', '_set_prediagnosis_phase_outcome',
          '_execute_phase_diagnosers', '_set_postdiagnosis_phase_outcome',
          'finalize_phase']
  paths = cfgm.walk_paths(lib.cfg(fin), lambda n, s: None)
  bad = None
  for p in paths:
    if p.end != 'exit':
      continue
    seq = [last_attr(c) for c in p.calls() if last_attr(c) in want]
    if seq != want:
      bad = seq
  report.check(bad is None and bool(paths), rule, fin.qualname, 'finalize-order',
               fin.node,
               'PhaseState.finalize: every path runs %s' % ' -> '.join(want),
               'a path through PhaseState.finalize runs %s, expected %s (e.g. '
               'a record without options / end time, or diagnosers before the '
               'outcome)' % (bad, want))


def run(report, repo):
  report.guard(r1_prediagnosis, report, repo)
  report.guard(r2_postdiagnosis, report, repo)
  report.guard(r3_repeat, report, repo)
  report.guard(r4_run_if, report, repo)
  report.guard(r5_thread_proc, report, repo)
  report.guard(r6_diagnosers, report, repo)
  report.guard(r6b_diagnoses_reach_record, report, repo)
  report.guard(r7_record_once, report, repo)
  from sa.rules import c01  # pylint: disable=g-import-not-at-top
  report.guard(c01.r7_last_record, report, repo, rule='C05-R8')
  from sa.rules import c06  # pylint: disable=g-import-not-at-top
  report.guard(c06.r7_measurements_pass, report, repo, rule='C05-R9')
  from sa.rules import extra4  # pylint: disable=g-import-not-at-top
  report.guard(extra4.snapshot_per_invocation, report, repo, 'C05-R10')
  from sa.rules import extra5  # pylint: disable=g-import-not-at-top
  report.guard(extra5.unset_options_do_not_override, report, repo, 'C05-R10')
  report.guard(extra5.thread_run_catches_exception_only, report, repo, 'C05-R11')
  from sa.rules import extra5 as _e6  # pylint: disable=g-import-not-at-top
  report.guard(_e6.always_fail_on_every_diagnosis, report, repo, 'C05-R12')
  from sa.rules import extra5 as _e6c  # pylint: disable=g-import-not-at-top
  from sa.rules import c12 as _c12x  # pylint: disable=g-import-not-at-top
  report.guard(_c12x.r3_join_or_die, report, repo, rule='C05-R13')
