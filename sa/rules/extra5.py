"""Rules written for round-5 seeded changes (see seeded/LOG.md): changes made
outside the central functions of a property - in helpers, data classes,
defaults, dunder methods, sibling implementations.  Each is a necessary
structural condition of a clause of the property named in `rule=`; they are
registered from the run() of the properties they belong to."""

import ast

from sa import cfg as cfgm
from sa import core, lib
from sa.core import call_name, dotted, last_attr, norm, walk_no_nested
from sa.lib import ends_with

ME = 'openhtf/core/measurements.py'
TS = 'openhtf/core/test_state.py'
TE = 'openhtf/core/test_executor.py'
TD = 'openhtf/core/test_descriptor.py'
PE = 'openhtf/core/phase_executor.py'
PD = 'openhtf/core/phase_descriptor.py'
PG = 'openhtf/core/phase_group.py'
PB = 'openhtf/core/phase_branches.py'
DL = 'openhtf/core/diagnoses_lib.py'
TH = 'openhtf/util/threads.py'
LG = 'openhtf/util/logs.py'
VA = 'openhtf/util/validators.py'
FP = 'openhtf/plugs/usb/fastboot_protocol.py'
AM = 'openhtf/plugs/usb/adb_message.py'
AP = 'openhtf/plugs/usb/adb_protocol.py'
UI = 'openhtf/plugs/user_input.py'
JF = 'openhtf/output/callbacks/json_factory.py'
TR = 'openhtf/core/test_record.py'
MO = 'openhtf/core/monitors.py'


def always_fail_on_every_diagnosis(report, repo, rule):
  report.rule(rule, 'T-DOM: DiagnosesManager._convert_result: every diagnosis '
              'it yields (single or from an iterable) has passed the '
              '`always_fail` promotion: is_failure=True is forced when the '
              'diagnoser is declared always_fail')
  f = repo.func(DL, 'DiagnosesManager._convert_result')
  g = lib.cfg(f)
  dparam = lib.param_names(f.node)[2]
  ys = [n for n in g.nodes if n.kind == 'stmt' and isinstance(
      n.ast, ast.Expr) and isinstance(n.ast.value, ast.Yield) and
        n.ast.value.value is not None]
  report.expect_instances(rule, len(ys), 2, 'yields of _convert_result')

  def af_test(n):
    return n.kind == 'test' and dotted(n.ast) == dparam + '.always_fail'
  for y in ys:
    ok = g.dominated_by(y, af_test)
    vals = lib.value_exprs(g, y, y.ast.value.value)
    promo = [v for v in vals if isinstance(v, ast.Call) and
             last_attr(v) == 'evolve' and any(
                 k.arg == 'is_failure' and isinstance(k.value, ast.Constant)
                 and k.value.value is True for k in v.keywords)]
    report.check(
        ok and bool(promo), rule, f.qualname,
        'always-fail-promotion:' + norm(y.ast)[:40], y.ast,
        'the yielded diagnosis went through the always_fail promotion',
        'a diagnosis is yielded without the always_fail promotion (%s): an '
        'always_fail diagnoser that takes this path produces no failure '
        'diagnosis and the run can PASS' % norm(y.ast))


def group_sequence_never_unwrapped(report, repo, rule):
  report.rule(rule, 'T-RET: phase_group._initialize_group_sequence returns '
              'None, the sequence it was given, or a fresh PhaseSequence '
              'around the nodes - never one of the nodes themselves (a lone '
              'branch / subtest must stay a node of the group\'s sequence)')
  f = repo.func(PG, '_initialize_group_sequence')
  p0 = lib.param_names(f.node)[0]
  g = lib.cfg(f)
  rets = [n for n in g.nodes if n.kind == 'stmt' and isinstance(n.ast,
                                                                ast.Return)]
  report.expect_instances(rule, len(rets), 2, 'returns')
  for r in rets:
    v = r.ast.value
    vals = lib.value_exprs(g, r, v) if isinstance(v, ast.Name) and \
        v.id != p0 else [v]
    ok = all(x is None or (isinstance(x, ast.Constant) and x.value is None) or
             core.is_name(x, p0) or (isinstance(x, ast.Call) and
                                     last_attr(x) == 'PhaseSequence')
             for x in vals)
    report.check(ok, rule, f.qualname, 'return:' + norm(r.ast)[:50], r.ast,
                 'returns None / the given sequence / a new PhaseSequence',
                 'returns %s: a node of the group part is used as the part '
                 'itself, so a lone branch or subtest runs as a plain sequence '
                 '(condition ignored, no record)' % norm(v))


def executor_abort_callers(report, repo, rule):
  report.rule(rule, 'T-WHO: TestExecutor.abort() is called on the test\'s '
              'executor only by Test.abort_from_sig_int (one abort per SIGINT: '
              'a second abort is the forced one that skips teardown)')
  n = 0
  for fi in repo.module(TD).all_funcs():
    for c in core.calls_in(fi.node, attr='abort'):
      if (dotted(c.func.value) or '').endswith('_executor'):
        n += 1
        report.check(fi.qualname == 'Test.abort_from_sig_int', rule,
                     fi.qualname, 'executor.abort', c,
                     'executor aborted from abort_from_sig_int',
                     '%s aborts the executor as well: together with the SIGINT '
                     'handler that is the second abort, which force-stops the '
                     'phase executor and skips the entered groups\' teardown' %
                     fi.qualname)
  report.expect_instances(rule, n, 1, 'executor.abort() call sites')


def profile_stats_is_total(report, repo, rule):
  report.rule(rule, 'T-DTABLE: KillableThread.get_profile_stats (called '
              'between a group\'s main phase and its teardown, also for a '
              'phase thread left behind alive) returns whenever a profiler '
              'exists; it raises only when profiling was not enabled')
  f = repo.func(TH, 'KillableThread.get_profile_stats')

  def classify(expr, steps):
    if isinstance(expr, ast.Compare) and len(expr.ops) == 1 and \
        dotted(expr.left) == 'self._profiler' and isinstance(
            expr.comparators[0], ast.Constant) and \
        expr.comparators[0].value is None:
      return 'has' if isinstance(expr.ops[0], ast.IsNot) else ('not', 'has')
    if dotted(expr) == 'self._profiler':
      return 'has'
    return None

  def spec(v, p):
    if v['has'] and p.end != 'exit':
      return ('raises although a profiler exists: with profiling on, a timed '
              'out phase whose thread is still alive makes the error escape '
              'between main and teardown - the entered group\'s teardown is '
              'skipped')
    return None
  lib.decision_table(report, rule, f, ['has'], classify, spec)


def unset_options_do_not_override(report, repo, rule):
  report.rule(rule, 'T-AGREE: every PhaseOptions field that __call__ copies '
              'onto the phase under `is not None` defaults to None, and every '
              'boolean field copied under a truth test defaults to False: a '
              'stacked decorator that does not mention an option leaves the '
              'earlier value alone')
  cls = repo.cls(PD, 'PhaseOptions')
  fields = dict(core.class_attr_fields(cls))
  f = repo.func(PD, 'PhaseOptions.__call__')
  g = lib.cfg(f)
  n = 0
  for t in g.nodes:
    if t.kind != 'test':
      continue
    e = t.ast
    none_guard = isinstance(e, ast.Compare) and len(e.ops) == 1 and isinstance(
        e.ops[0], ast.IsNot) and isinstance(e.comparators[0], ast.Constant) \
        and e.comparators[0].value is None
    fld = dotted(e.left) if none_guard else dotted(e)
    if not fld or not fld.startswith('self.') or fld[5:] not in fields:
      continue
    decl = fields[fld[5:]]
    dflt = core.get_kw(decl, 'default') if isinstance(decl, ast.Call) else None
    n += 1
    if none_guard:
      ok = isinstance(dflt, ast.Constant) and dflt.value is None
    else:
      ok = dflt is None or not isinstance(dflt, ast.Constant) or \
          not dflt.value
    report.check(ok, rule, 'PhaseOptions', 'default:' + fld[5:], decl,
                 '%s: the default does not pass its own copy guard' % fld[5:],
                 'PhaseOptions.%s defaults to %s, which passes the `%s` guard '
                 'of __call__: any later PhaseOptions decorator that does not '
                 'mention it resets the phase\'s earlier %s' % (
                     fld[5:], norm(dflt) if dflt is not None else '?',
                     norm(e), fld[5:]))
  if n == 0 and any(call_name(c) in ('getattr', 'setattr')
                    for c in core.calls_in(f.node)):
    report.ok(rule, f.node, '__call__ copies the options through a table '
              '(getattr/setattr): the per-field guards are not read off')
    return
  report.expect_instances(rule, n, 8, 'guarded option copies')


def thread_run_catches_exception_only(report, repo, rule):
  report.rule(rule, 'T-EXC: KillableThread.run hands only Exception to '
              '_thread_exception: ThreadTerminationError (a SystemExit) of a '
              'killed thread is not recorded as the body\'s own exception')
  f = repo.func(TH, 'KillableThread.run')
  tries = [t for t in walk_no_nested(f.node) if isinstance(t, ast.Try) and any(
      core.calls_in(s, name='self._thread_proc') for s in t.body)]
  report.expect_instances(rule, len(tries), 1, 'try around _thread_proc')
  for h in tries[0].handlers:
    if not core.calls_in(h, name='self._thread_exception'):
      continue
    ok = h.type is not None and dotted(h.type) == 'Exception'
    report.check(ok, rule, f.qualname, 'handler-class', h,
                 'except Exception',
                 'the handler that records the thread\'s exception catches %s: '
                 'a kill (ThreadTerminationError) is then recorded as an '
                 'exception result of the phase, the abort marker is lost '
                 '(diagnosers run for an aborted phase, the record says ERROR)'
                 % (norm(h.type) if h.type is not None else 'everything'))


def finalize_examines_every_measurement(report, repo, rule):
  report.rule(rule, 'T-MUST: PhaseState._finalize_measurements: every '
              'iteration of the measurement loop reaches the PARTIALLY_SET '
              'test (nothing exempts a measurement from end-of-phase '
              'validation)')
  f = repo.func(TS, 'PhaseState._finalize_measurements')
  g = lib.cfg(f)
  heads = [n for n in g.nodes if n.kind == 'for']
  report.expect_instances(rule, len(heads), 1, 'measurement loops')
  h = heads[0]

  def ps_test(n):
    return n.kind == 'test' and isinstance(n.ast, ast.Compare) and ends_with(
        dotted(n.ast.comparators[0]) or '', 'Outcome.PARTIALLY_SET')
  body = h.succ('iter')
  if ps_test(body):
    reach = []
  else:
    reach = [body] + g.reach([body], avoid=ps_test,
                             avoid_edge=lambda a, l, b: l == 'exc')
  bad = any(x is h or g.is_any_exit(x) for x in reach)
  report.check(not bad, rule, f.qualname, 'every-measurement-examined', h.ast,
               'each measurement reaches the PARTIALLY_SET test',
               'an iteration can finish without testing the measurement for '
               'PARTIALLY_SET (e.g. skipped for SKIP/REPEAT results): a '
               'dimensioned measurement stays PARTIALLY_SET in the record')


def cached_value_refreshed_when_set(report, repo, rule):
  report.rule(rule, 'T-DTABLE: Measurement.as_base_types: whenever the '
              'measurement has a value, the cached dict\'s measured_value '
              'entry is re-assigned from the value holder (no other condition)')
  f = repo.func(ME, 'Measurement.as_base_types')

  def classify(expr, steps):
    if dotted(expr) == 'self._measured_value.is_value_set':
      return 'set'
    return None

  def assigns(p):
    out = []
    for n, _ in p.steps:
      if n.kind == 'stmt' and isinstance(n.ast, ast.Assign):
        for t in n.ast.targets:
          if isinstance(t, ast.Subscript) and dotted(t.value) == \
              'self._cached' and core.const_str(t.slice) == 'measured_value':
            out.append(n)
    return out

  def spec(v, p):
    if p.end != 'exit':
      return None
    a = assigns(p)
    if v['set'] and len(a) != 1:
      return ('a path with a value set does not refresh '
              "_cached['measured_value']: after an override the serialised "
              'record keeps the first value next to the outcome of the last')
    if a and not any(isinstance(x, ast.Call) and last_attr(x) ==
                     'basetype_value' for x in ast.walk(a[0].ast.value)):
      return 'the cached value is not the holder\'s basetype_value()'
    return None
  lib.decision_table(report, rule, f, ['set'], classify, spec)


def executor_wait_is_unbounded(report, repo, rule):
  report.rule(rule, 'T-WHO/T-SIG: Test.execute waits for the executor thread '
              'to end with TestExecutor.wait(), which takes no timeout from its '
              'caller: output callbacks never run while teardown is still '
              'running')
  w = repo.func(TE, 'TestExecutor.wait')
  params = lib.param_names(w.node)
  report.check(len(params) == 1 and not w.node.args.vararg and
               not w.node.args.kwarg, rule, w.qualname, 'signature', w.node,
               'wait(self) only',
               'TestExecutor.wait accepts %s: a caller can make it return '
               'while the executor thread (plug tearDown) is still running' %
               params[1:])
  e = repo.func(TD, 'Test.execute')
  cs = [c for c in core.calls_in(e.node, attr='wait')
        if (dotted(c.func.value) or '').endswith('_executor')]
  report.expect_instances(rule, len(cs), 2, 'executor waits in Test.execute')
  for c in cs:
    report.check(not c.args and not c.keywords, rule, e.qualname,
                 'wait-call:' + norm(c), c, 'waits without a bound',
                 'Test.execute waits with a bound (%s): after it expires the '
                 'finally block finalises and calls the output callbacks '
                 'while plug tearDown is still running (outcome None)' %
                 norm(c))


def no_bare_next(report, repo, rule, relpath, qualname, why):
  report.rule(rule, 'T-TOTAL: %s does not use next(<iterator>) without a '
              'default (StopIteration would escape)' % qualname)
  f = repo.func(relpath, qualname)
  n = 0
  for c in core.calls_in(f.node, name='next'):
    n += 1
    report.check(len(c.args) >= 2, rule, f.qualname, 'next:' + norm(c)[:40], c,
                 'next() has a default',
                 '%s calls %s: when nothing matches StopIteration escapes; %s' %
                 (qualname, norm(c)[:60], why))
  report.ok(rule, f.node, '%d next() calls in %s' % (n, qualname))


def monitor_binds_measurement_once(report, repo, rule):
  report.rule(rule, 'T-ONCE: a monitor thread looks its measurement up (through '
              'test_state.test_api) once, when it starts - not per sample: a '
              'monitor left behind by a timed-out phase must not write into '
              'the phase that runs later')
  n = 0
  for f in repo.methods(MO, '_MonitorThread'):
    for x in ast.walk(f.node):
      if isinstance(x, ast.Attribute) and (dotted(x) or '').endswith(
          'test_state.test_api'):
        n += 1
        nested = any(isinstance(p, (ast.FunctionDef, ast.Lambda)) and
                     p is not f.node for p in core.parents(x))
        ok = f.name == '_thread_proc' and not nested and \
            not core.repeated_by_loop(x)
        report.check(ok, rule, f.qualname, 'test_api-lookup', x,
                     'looked up once at thread start',
                     '%s looks test_state.test_api up per sample (in a loop / '
                     'helper): an orphaned monitor of a timed-out phase writes '
                     'its samples into the same-named measurement of the next '
                     'phase' % f.qualname)
  report.expect_instances(rule, n, 1, 'test_api lookups in _MonitorThread')


def read_until_filters_only_by_command(report, repo, rule):
  report.rule(rule, 'T-EXC/T-DOM: AdbTransportAdapter.read_until has no '
              'exception handler (a malformed frame reported by read_message '
              'propagates), returns a message only behind the '
              '`command in expected_commands` test and raises AdbTimeoutError '
              'otherwise')
  f = repo.func(AM, 'AdbTransportAdapter.read_until')
  hs = [n for n in ast.walk(f.node) if isinstance(n, ast.ExceptHandler)]
  report.check(not hs, rule, f.qualname, 'no-handler', hs[0] if hs else f.node,
               'read_until catches nothing',
               'read_until catches %s: frames that read_message rejects '
               '(unknown command, short header, bad checksum) are skipped '
               'silently instead of failing the connection' %
               (norm(hs[0].type) if hs and hs[0].type is not None else
                'everything'))
  g = lib.cfg(f)
  ep = lib.param_names(f.node)[1]
  names = lib.copy_class(f, ep)

  def member_edge(want_in):
    def pred(s, l, d):
      if s.kind != 'test' or not isinstance(s.ast, ast.Compare) or len(
          s.ast.ops) != 1 or not isinstance(s.ast.ops[0], (ast.In, ast.NotIn)):
        return False
      if not (dotted(s.ast.left) or '').endswith('.command'):
        return False
      c = s.ast.comparators[0]
      if not (isinstance(c, ast.Name) and c.id in names):
        return False
      is_in = isinstance(s.ast.ops[0], ast.In)
      return (l == 'T') == (is_in == want_in)
    return pred
  rets = [n for n in g.nodes if n.kind == 'stmt' and isinstance(
      n.ast, ast.Return) and n.ast.value is not None]
  raises = [n for n in g.nodes if n.kind == 'stmt' and isinstance(
      n.ast, ast.Raise) and n.ast.exc is not None and
            last_attr(n.ast.exc) == 'AdbTimeoutError']
  report.expect_instances(rule, len(rets), 1, 'returns of read_until')
  report.expect_instances(rule, len(raises), 1, 'timeout raises')
  ok = all(g.dominated_by_edge(r, member_edge(True)) for r in rets) and \
      all(g.dominated_by_edge(r, member_edge(False)) for r in raises)
  report.check(ok, rule, f.qualname, 'return-only-expected', f.node,
               'a message is returned only if its command is expected; '
               'otherwise AdbTimeoutError',
               'read_until returns a message without testing its command '
               'against expected_commands (the loop helper returns the last '
               'message read when the timeout expires): a stray packet at the '
               'deadline is handed to connect() as AUTH / CNXN')


def download_without_length_buffers(report, repo, rule):
  report.rule(rule, 'T-AGREE: FastbootCommands.download with no source_len: '
              'the announced size is the length of what is read from the '
              'stream from its current position (no seek / tell: an already '
              'consumed prefix is neither counted nor resent)')
  f = repo.func(FP, 'FastbootCommands.download')
  src = lib.param_names(f.node)[1]
  bad = [c for c in core.calls_in(f.node) if last_attr(c) in ('seek', 'tell')]
  report.check(not bad, rule, f.qualname, 'no-seek', bad[0] if bad else f.node,
               'the source stream is not repositioned',
               'download repositions / measures the caller\'s stream (%s): a '
               'stream that is not at position 0 is announced with the wrong '
               'size and its consumed prefix is transmitted as image data' %
               (norm(bad[0]) if bad else ''))
  g = lib.cfg(f)
  lens = [n for n in g.nodes if n.kind == 'stmt' and isinstance(
      n.ast, ast.Assign) and call_name(n.ast.value) == 'len']
  ok = False
  for n in lens:
    arg = n.ast.value.args[0] if n.ast.value.args else None
    vals = lib.value_exprs(g, n, arg) if isinstance(arg, ast.Name) else [arg]
    if vals and all(isinstance(v, ast.Call) and last_attr(v) == 'read' and
                    dotted(v.func.value) in lib.copy_class(f, src)
                    for v in vals) and \
        g.dominated_by_edge(n, lambda s, l, d: s.kind == 'test' and l == 'T'
                            and isinstance(s.ast, ast.Compare) and
                            isinstance(s.ast.ops[0], ast.Eq) and
                            isinstance(s.ast.comparators[0], ast.Constant) and
                            s.ast.comparators[0].value == 0):
      ok = True
  report.check(ok, rule, f.qualname, 'length-of-what-was-read', f.node,
               'source_len = len(source_file.read()) when none was given')


def prompt_writes_notify(report, repo, rule):
  report.rule(rule, 'T-MUST: every write to UserInput._prompt (what _asdict '
              'shows) outside __init__ is followed, on every way out of the '
              'method, by notify_update()')
  n = 0
  for f in repo.methods(UI, 'UserInput'):
    if f.name == '__init__':
      continue
    g = lib.cfg(f)
    for node in g.nodes:
      if node.kind == 'stmt' and isinstance(
          node.ast, (ast.Assign, ast.AnnAssign, ast.AugAssign, ast.Delete)) \
          and any(dotted(t) == 'self._prompt'
                  for t in core.assigned_targets(node.ast)):
        n += 1
        notif = lambda x: any(isinstance(s, ast.Call) and call_name(s) ==
                              'self.notify_update' for s in x.subnodes())
        # calls in between are taken not to raise; an explicit raise counts
        reach = g.reach([node], avoid=notif, avoid_edge=lambda a, l, b: l ==
                        'exc' and a.kind in ('stmt', 'test') and
                        not isinstance(a.ast, ast.Raise))
        bad = any(g.is_any_exit(x) for x in reach)
        report.check(not bad, rule, f.qualname, 'prompt-write:' +
                     norm(node.ast)[:40], node.ast,
                     'the change of the prompt is announced',
                     '%s changes self._prompt (%s) and can leave without '
                     'notify_update(): the plug\'s _asdict() changes but a '
                     'subscribed watcher is never woken' % (
                         f.qualname, norm(node.ast)[:50]))
  report.expect_instances(rule, n, 2, 'writes to UserInput._prompt')


def test_logger_has_no_forwarders(report, repo, rule):
  report.rule(rule, 'T-WHO: HtfTestLogger adds no method that forwards to '
              'another logging method (debug/info/warning/...): such a wrapper '
              'is one frame nearer to Logger.findCaller, so records logged '
              'through it carry logs.py as their source')
  levels = {'debug', 'info', 'warning', 'warn', 'error', 'exception',
            'critical', 'fatal', 'log', '_log'}
  n = 0
  for f in repo.methods(LG, 'HtfTestLogger'):
    n += 1
    for c in core.calls_in(f.node):
      if isinstance(c.func, ast.Attribute) and core.is_name(
          c.func.value, 'self') and c.func.attr in levels and \
          core.get_kw(c, 'stacklevel') is None:
        report.violation(
            rule, f.qualname, 'forwards:' + c.func.attr, c,
            'HtfTestLogger.%s forwards to self.%s() without a stacklevel: '
            'every record logged through it is attributed to logs.py instead '
            'of the caller\'s file and line' % (f.name, c.func.attr))
  report.ok(rule, repo.cls(LG, 'HtfTestLogger'),
            '%d methods of HtfTestLogger, none forwards a log call' % n)


def sigint_once_flag_writers(report, repo, rule):
  report.rule(rule, 'T-WHO: Test.HANDLED_SIGINT_ONCE is written only by '
              'Test.handle_sig_int (set once, process wide): re-arming it while '
              'another test is still winding down lets a second SIGINT escape '
              'that test\'s wait')
  n = 0
  for fi in repo.all_funcs():
    for x in walk_no_nested(fi.node):
      if isinstance(x, (ast.Assign, ast.AugAssign, ast.AnnAssign, ast.Delete)):
        for t in core.assigned_targets(x):
          if (dotted(t) or '').endswith('HANDLED_SIGINT_ONCE'):
            n += 1
            report.check(fi.qualname == 'Test.handle_sig_int' and
                         fi.path.endswith('test_descriptor.py'), rule,
                         fi.qualname, 'writes-flag', x,
                         'written by handle_sig_int',
                         '%s writes HANDLED_SIGINT_ONCE (%s)' % (fi.qualname,
                                                                  norm(x)))
  report.expect_instances(rule, n, 1, 'HANDLED_SIGINT_ONCE writes')


def with_args_builds_new_validator_list(report, repo, rule):
  report.rule(rule, 'T-OWN: Measurement.with_args hands the copy validator '
              'lists it has just built (a comprehension / list()), never '
              'self.validators / self.conditional_validators themselves')
  f = repo.func(ME, 'Measurement.with_args')
  g = lib.cfg(f)
  cs = [(n, c) for n, c in lib.nodes_with_call(g, attr='attr_copy')]
  report.expect_instances(rule, len(cs), 1, 'attr_copy calls in with_args')
  for n, c in cs:
    for kw in ('validators', 'conditional_validators'):
      v = core.get_kw(c, kw)
      vals = lib.value_exprs(g, n, v) if isinstance(v, ast.Name) else [v]
      ok = bool(vals) and all(
          isinstance(x, (ast.ListComp, ast.List)) or (
              isinstance(x, ast.Call) and call_name(x) in ('list',
                                                          'copy.copy',
                                                          'copy.deepcopy'))
          for x in vals)
      report.check(ok, rule, f.qualname, 'fresh:' + kw, c,
                   '%s of the copy is a new list' % kw,
                   'with_args can pass %s on unchanged (%s): the derived '
                   'measurement, its siblings and the base phase then share '
                   'one list, and a validator added to one shows up in all' %
                   (kw, [norm(x)[:40] for x in vals]))


def attachments_paired_by_position(report, repo, rule):
  report.rule(rule, 'T-AGREE: convert_test_record_to_json re-attaches the raw '
              'attachments to each rendered phase record by position '
              '(zip of the rendered and the original phase lists): records of '
              'a repeated phase share a descriptor id and must not share '
              'attachments')
  f = repo.func(JF, 'convert_test_record_to_json')
  rec = lib.param_names(f.node)[0]
  zips = [c for c in core.calls_in(f.node, name='zip') if len(c.args) == 2 and
          any(isinstance(a, ast.Subscript) and core.const_str(a.slice) ==
              'phases' for a in c.args) and
          any(dotted(a) == rec + '.phases' for a in c.args)]
  keyed = [n for n in ast.walk(f.node) if isinstance(n, ast.Constant) and
           n.value == 'descriptor_id'] + [
               n for n in ast.walk(f.node) if isinstance(n, ast.Attribute) and
               n.attr == 'descriptor_id']
  report.check(len(zips) == 1 and not keyed, rule, f.qualname,
               'paired-by-position', f.node,
               'rendered and original phase records are zipped',
               'attachments are matched to rendered phase records other than '
               'by position (%s): every record of a REPEATed phase gets the '
               'attachments of one of its runs' %
               ('by descriptor_id' if keyed else 'no zip of the two lists'))
