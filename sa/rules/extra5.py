"""Rules written for round-5 seeded changes (see seeded/LOG.md): changes made
outside the central functions of a property - in helpers, data classes,
defaults, dunder methods, sibling implementations.  Each is a necessary
structural condition of a clause of the property named in `rule=`; they are
registered from the run() of the properties they belong to."""

import ast

from sa import cfg as cfgm
from sa import core, lib
from sa.core import call_name, dotted, last_attr, norm, walk_no_nested
from sa.lib import ends_with

ME = 'openhtf/core/measurements.py'
TS = 'openhtf/core/test_state.py'
TE = 'openhtf/core/test_executor.py'
TD = 'openhtf/core/test_descriptor.py'
PE = 'openhtf/core/phase_executor.py'
PD = 'openhtf/core/phase_descriptor.py'
PG = 'openhtf/core/phase_group.py'
PB = 'openhtf/core/phase_branches.py'
DL = 'openhtf/core/diagnoses_lib.py'
TH = 'openhtf/util/threads.py'
LG = 'openhtf/util/logs.py'
VA = 'openhtf/util/validators.py'
FP = 'openhtf/plugs/usb/fastboot_protocol.py'
AM = 'openhtf/plugs/usb/adb_message.py'
AP = 'openhtf/plugs/usb/adb_protocol.py'
UI = 'openhtf/plugs/user_input.py'
JF = 'openhtf/output/callbacks/json_factory.py'
TR = 'openhtf/core/test_record.py'
MO = 'openhtf/core/monitors.py'


def always_fail_on_every_diagnosis(report, repo, rule):
  report.rule(rule, 'T-DOM: DiagnosesManager._convert_result: every diagnosis '
              'it yields (single or from an iterable) has passed the '
              '`always_fail` promotion: is_failure=True is forced when the '
              'diagnoser is declared always_fail')
  f = repo.func(DL, 'DiagnosesManager._convert_result')
  g = lib.cfg(f)
  dparam = lib.param_names(f.node)[2]
  ys = [n for n in g.nodes if n.kind == 'stmt' and isinstance(
      n.ast, ast.Expr) and isinstance(n.ast.value, ast.Yield) and
        n.ast.value.value is not None]
  report.expect_instances(rule, len(ys), 2, 'yields of _convert_result')

  def af_test(n):
    return n.kind == 'test' and dotted(n.ast) == dparam + '.always_fail'
  for y in ys:
    ok = g.dominated_by(y, af_test)
    vals = lib.value_exprs(g, y, y.ast.value.value)
    promo = [v for v in vals if isinstance(v, ast.Call) and
             last_attr(v) == 'evolve' and any(
                 k.arg == 'is_failure' and isinstance(k.value, ast.Constant)
                 and k.value.value is True for k in v.keywords)]
    report.check(
        ok and bool(promo), rule, f.qualname,
        'always-fail-promotion:' + norm(y.ast)[:40], y.ast,
        'the yielded diagnosis went through the always_fail promotion',
        'a diagnosis is yielded without the always_fail promotion (%s): an '
        'always_fail diagnoser that takes this path produces no failure '
        'diagnosis and the run can PASS' % norm(y.ast))


def group_sequence_never_unwrapped(report, repo, rule):
  report.rule(rule, 'T-RET: phase_group._initialize_group_sequence returns '
              'None, the sequence it was given, or a fresh PhaseSequence '
              'around the nodes - never one of the nodes themselves (a lone '
              'branch / subtest must stay a node of the group\'s sequence)')
  f = repo.func(PG, '_initialize_group_sequence')
  p0 = lib.param_names(f.node)[0]
  g = lib.cfg(f)
  rets = [n for n in g.nodes if n.kind == 'stmt' and isinstance(n.ast,
                                                                ast.Return)]
  report.expect_instances(rule, len(rets), 2, 'returns')
  for r in rets:
    v = r.ast.value
    vals = lib.value_exprs(g, r, v) if isinstance(v, ast.Name) and \
        v.id != p0 else [v]
    ok = all(x is None or (isinstance(x, ast.Constant) and x.value is None) or
             core.is_name(x, p0) or (isinstance(x, ast.Call) and
                                     last_attr(x) == 'PhaseSequence')
             for x in vals)
    report.check(ok, rule, f.qualname, 'return:' + norm(r.ast)[:50], r.ast,
                 'returns None / the given sequence / a new PhaseSequence',
                 'returns %s: a node of the group part is used as the part '
                 'itself, so a lone branch or subtest runs as a plain sequence '
                 '(condition ignored, no record)' % norm(v))


def executor_abort_callers(report, repo, rule):
  report.rule(rule, 'T-WHO: TestExecutor.abort() is called on the test\'s '
              'executor only by Test.abort_from_sig_int (one abort per SIGINT: '
              'a second abort is the forced one that skips teardown)')
  n = 0
  for fi in repo.module(TD).all_funcs():
    for c in core.calls_in(fi.node, attr='abort'):
      if (dotted(c.func.value) or '').endswith('_executor'):
        n += 1
        report.check(fi.qualname == 'Test.abort_from_sig_int', rule,
                     fi.qualname, 'executor.abort', c,
                     'executor aborted from abort_from_sig_int',
                     '%s aborts the executor as well: together with the SIGINT '
                     'handler that is the second abort, which force-stops the '
                     'phase executor and skips the entered groups\' teardown' %
                     fi.qualname)
  report.expect_instances(rule, n, 1, 'executor.abort() call sites')


def profile_stats_is_total(report, repo, rule):
  report.rule(rule, 'T-DTABLE: KillableThread.get_profile_stats (called '
              'between a group\'s main phase and its teardown, also for a '
              'phase thread left behind alive) returns whenever a profiler '
              'exists; it raises only when profiling was not enabled')
  f = repo.func(TH, 'KillableThread.get_profile_stats')

  def classify(expr, steps):
    if isinstance(expr, ast.Compare) and len(expr.ops) == 1 and \
        dotted(expr.left) == 'self._profiler' and isinstance(
            expr.comparators[0], ast.Constant) and \
        expr.comparators[0].value is None:
      return 'has' if isinstance(expr.ops[0], ast.IsNot) else ('not', 'has')
    if dotted(expr) == 'self._profiler':
      return 'has'
    return None

  def spec(v, p):
    if v['has'] and p.end != 'exit':
      return ('raises although a profiler exists: with profiling on, a timed '
              'out phase whose thread is still alive makes the error escape '
              'between main and teardown - the entered group\'s teardown is '
              'skipped')
    return None
  lib.decision_table(report, rule, f, ['has'], classify, spec)


def unset_options_do_not_override(report, repo, rule):
  report.rule(rule, 'T-AGREE: every PhaseOptions field that __call__ copies '
              'onto the phase under `is not None` defaults to None, and every '
              'boolean field copied under a truth test defaults to False: a '
              'stacked decorator that does not mention an option leaves the '
              'earlier value alone')
  cls = repo.cls(PD, 'PhaseOptions')
  fields = dict(core.class_attr_fields(cls))
  f = repo.func(PD, 'PhaseOptions.__call__')
  g = lib.cfg(f)
  n = 0
  for t in g.nodes:
    if t.kind != 'test':
      continue
    e = t.ast
    none_guard = isinstance(e, ast.Compare) and len(e.ops) == 1 and isinstance(
        e.ops[0], ast.IsNot) and isinstance(e.comparators[0], ast.Constant) \
        and e.comparators[0].value is None
    fld = dotted(e.left) if none_guard else dotted(e)
    if not fld or not fld.startswith('self.') or fld[5:] not in fields:
      continue
    decl = fields[fld[5:]]
    dflt = core.get_kw(decl, 'default') if isinstance(decl, ast.Call) else None
    n += 1
    if none_guard:
      ok = isinstance(dflt, ast.Constant) and dflt.value is None
    else:
      ok = dflt is None or not isinstance(dflt, ast.Constant) or \
          not dflt.value
    report.check(ok, rule, 'PhaseOptions', 'default:' + fld[5:], decl,
                 '%s: the default does not pass its own copy guard' % fld[5:],
                 'PhaseOptions.%s defaults to %s, which passes the `%s` guard '
                 'of __call__: any later PhaseOptions decorator that does not '
                 'mention it resets the phase\'s earlier %s' % (
                     fld[5:], norm(dflt) if dflt is not None else '?',
                     norm(e), fld[5:]))
  if n == 0 and any(call_name(c) in ('getattr', 'setattr')
                    for c in core.calls_in(f.node)):
    report.ok(rule, f.node, '__call__ copies the options through a table '
              '(getattr/setattr): the per-field guards are not read off')
    return
  report.expect_instances(rule, n, 8, 'guarded option copies')


def thread_run_catches_exception_only(report, repo, rule):
  report.rule(rule, 'T-EXC: KillableThread.run hands only Exception to '
              '_thread_exception: ThreadTerminationError (a SystemExit) of a '
              'killed thread is not recorded as the body\'s own exception')
  f = repo.func(TH, 'KillableThread.run')
  tries = [t for t in walk_no_nested(f.node) if isinstance(t, ast.Try) and any(
      core.calls_in(s, name='self._thread_proc') for s in t.body)]
  report.expect_instances(rule, len(tries), 1, 'try around _thread_proc')
  for h in tries[0].handlers:
    if not core.calls_in(h, name='self._thread_exception'):
      continue
    ok = h.type is not None and dotted(h.type) == 'Exception'
    report.check(ok, rule, f.qualname, 'handler-class', h,
                 'except Exception',
                 'the handler that records the thread\'s exception catches %s: '
                 'a kill (ThreadTerminationError) is then recorded as an '
                 'exception result of the phase, the abort marker is lost '
                 '(diagnosers run for an aborted phase, the record says ERROR)'
                 % (norm(h.type) if h.type is not None else 'everything'))


def finalize_examines_every_measurement(report, repo, rule):
  report.rule(rule, 'T-MUST: PhaseState._finalize_measurements: every '
              'iteration of the measurement loop reaches the PARTIALLY_SET '
              'test (nothing exempts a measurement from end-of-phase '
              'validation)')
  f = repo.func(TS, 'PhaseState._finalize_measurements')
  g = lib.cfg(f)
  heads = [n for n in g.nodes if n.kind == 'for']
  report.expect_instances(rule, len(heads), 1, 'measurement loops')
  h = heads[0]

  def ps_test(n):
    return n.kind == 'test' and isinstance(n.ast, ast.Compare) and ends_with(
        dotted(n.ast.comparators[0]) or '', 'Outcome.PARTIALLY_SET')
  body = h.succ('iter')
  if ps_test(body):
    reach = []
  else:
    reach = [body] + g.reach([body], avoid=ps_test,
                             avoid_edge=lambda a, l, b: l == 'exc')
  bad = any(x is h or g.is_any_exit(x) for x in reach)
  report.check(not bad, rule, f.qualname, 'every-measurement-examined', h.ast,
               'each measurement reaches the PARTIALLY_SET test',
               'an iteration can finish without testing the measurement for '
               'PARTIALLY_SET (e.g. skipped for SKIP/REPEAT results): a '
               'dimensioned measurement stays PARTIALLY_SET in the record')


def cached_value_refreshed_when_set(report, repo, rule):
  report.rule(rule, 'T-DTABLE: Measurement.as_base_types: whenever the '
              'measurement has a value, the cached dict\'s measured_value '
              'entry is re-assigned from the value holder (no other condition)')
  f = repo.func(ME, 'Measurement.as_base_types')

  def classify(expr, steps):
    if dotted(expr) == 'self._measured_value.is_value_set':
      return 'set'
    return None

  def assigns(p):
    out = []
    for n, _ in p.steps:
      if n.kind == 'stmt' and isinstance(n.ast, ast.Assign):
        for t in n.ast.targets:
          if isinstance(t, ast.Subscript) and dotted(t.value) == \
              'self._cached' and core.const_str(t.slice) == 'measured_value':
            out.append(n)
    return out

  def spec(v, p):
    if p.end != 'exit':
      return None
    a = assigns(p)
    if v['set'] and len(a) != 1:
      return ('a path with a value set does not refresh '
              "_cached['measured_value']: after an override the serialised "
              'record keeps the first value next to the outcome of the last')
    if a and not any(isinstance(x, ast.Call) and last_attr(x) ==
                     'basetype_value' for x in ast.walk(a[0].ast.value)):
      return 'the cached value is not the holder\'s basetype_value()'
    return None
  lib.decision_table(report, rule, f, ['set'], classify, spec)


def executor_wait_is_unbounded(report, repo, rule):
  report.rule(rule, 'T-WHO/T-SIG: Test.execute waits for the executor thread '
              'to end with TestExecutor.wait(), which takes no timeout from its '
              'caller: output callbacks never run while teardown is still '
              'running')
  w = repo.func(TE, 'TestExecutor.wait')
  params = lib.param_names(w.node)
  report.check(len(params) == 1 and not w.node.args.vararg and
               not w.node.args.kwarg, rule, w.qualname, 'signature', w.node,
               'wait(self) only',
               'TestExecutor.wait accepts %s: a caller can make it return '
               'while the executor thread (plug tearDown) is still running' %
               params[1:])
  e = repo.func(TD, 'Test.execute')
  cs = [c for c in core.calls_in(e.node, attr='wait')
        if (dotted(c.func.value) or '').endswith('_executor')]
  report.expect_instances(rule, len(cs), 2, 'executor waits in Test.execute')
  for c in cs:
    report.check(not c.args and not c.keywords, rule, e.qualname,
                 'wait-call:' + norm(c), c, 'waits without a bound',
                 'Test.execute waits with a bound (%s): after it expires the '
                 'finally block finalises and calls the output callbacks '
                 'while plug tearDown is still running (outcome None)' %
                 norm(c))


def no_bare_next(report, repo, rule, relpath, qualname, why):
  report.rule(rule, 'T-TOTAL: %s does not use next(<iterator>) without a '
              'default (StopIteration would escape)' % qualname)
  f = repo.func(relpath, qualname)
  n = 0
  for c in core.calls_in(f.node, name='next'):
    n += 1
    report.check(len(c.args) >= 2, rule, f.qualname, 'next:' + norm(c)[:40], c,
                 'next() has a default',
                 '%s calls %s: when nothing matches StopIteration escapes; %s' %
                 (qualname, norm(c)[:60], why))
  report.ok(rule, f.node, '%d next() calls in %s' % (n, qualname))


def monitor_binds_measurement_once(report, repo, rule):
  report.rule(rule, 'T-ONCE: a monitor thread looks its measurement up (through '
              'test_state.test_api) once, when it starts - not per sample: a '
              'monitor left behind by a timed-out phase must not write into '
              'the phase that runs later')
  n = 0
  for f in repo.methods(MO, '_MonitorThread'):
    for x in ast.walk(f.node):
      if isinstance(x, ast.Attribute) and (dotted(x) or '').endswith(
          'test_state.test_api'):
        n += 1
        nested = any(isinstance(p, (ast.FunctionDef, ast.Lambda)) and
                     p is not f.node for p in core.parents(x))
        ok = f.name == '_thread_proc' and not nested and \
            not core.repeated_by_loop(x)
        report.check(ok, rule, f.qualname, 'test_api-lookup', x,
                     'looked up once at thread start',
                     '%s looks test_state.test_api up per sample (in a loop / '
                     'helper): an orphaned monitor of a timed-out phase writes '
                     'its samples into the same-named measurement of the next '
                     'phase' % f.qualname)
  report.expect_instances(rule, n, 1, 'test_api lookups in _MonitorThread')


def read_until_filters_only_by_command(report, repo, rule):
  report.rule(rule, 'T-EXC/T-DOM: AdbTransportAdapter.read_until has no '
              'exception handler (a malformed frame reported by read_message '
              'propagates), returns a message only behind the '
              '`command in expected_commands` test and raises AdbTimeoutError '
              'otherwise')
  f = repo.func(AM, 'AdbTransportAdapter.read_until')
  hs = [n for n in ast.walk(f.node) if isinstance(n, ast.ExceptHandler)]
  report.check(not hs, rule, f.qualname, 'no-handler', hs[0] if hs else f.node,
               'read_until catches nothing',
               'read_until catches %s: frames that read_message rejects '
               '(unknown command, short header, bad checksum) are skipped '
               'silently instead of failing the connection' %
               (norm(hs[0].type) if hs and hs[0].type is not None else
                'everything'))
  g = lib.cfg(f)
  ep = lib.param_names(f.node)[1]
  names = lib.copy_class(f, ep)

  def member_edge(want_in):
    def pred(s, l, d):
      if s.kind != 'test' or not isinstance(s.ast, ast.Compare) or len(
          s.ast.ops) != 1 or not isinstance(s.ast.ops[0], (ast.In, ast.NotIn)):
        return False
      if not (dotted(s.ast.left) or '').endswith('.command'):
        return False
      c = s.ast.comparators[0]
      if not (isinstance(c, ast.Name) and c.id in names):
        return False
      is_in = isinstance(s.ast.ops[0], ast.In)
      return (l == 'T') == (is_in == want_in)
    return pred
  rets = [n for n in g.nodes if n.kind == 'stmt' and isinstance(
      n.ast, ast.Return) and n.ast.value is not None]
  raises = [n for n in g.nodes if n.kind == 'stmt' and isinstance(
      n.ast, ast.Raise) and n.ast.exc is not None and
            last_attr(n.ast.exc) == 'AdbTimeoutError']
  report.expect_instances(rule, len(rets), 1, 'returns of read_until')
  report.expect_instances(rule, len(raises), 1, 'timeout raises')
  ok = all(g.dominated_by_edge(r, member_edge(True)) for r in rets) and \
      all(g.dominated_by_edge(r, member_edge(False)) for r in raises)
  report.check(ok, rule, f.qualname, 'return-only-expected', f.node,
               'a message is returned only if its command is expected; '
               'otherwise AdbTimeoutError',
               'read_until returns a message without testing its command '
               'against expected_commands (the loop helper returns the last '
               'message read when the timeout expires): a stray packet at the '
               'deadline is handed to connect() as AUTH / CNXN')


def download_without_length_buffers(report, repo, rule):
  report.rule(rule, 'T-AGREE: FastbootCommands.download with no source_len: '
              'the announced size is the length of what is read from the '
              'stream from its current position (no seek / tell: an already '
              'consumed prefix is neither counted nor resent)')
  f = repo.func(FP, 'FastbootCommands.download')
  src = lib.param_names(f.node)[1]
  bad = [c for c in core.calls_in(f.node) if last_attr(c) in ('seek', 'tell')]
  report.check(not bad, rule, f.qualname, 'no-seek', bad[0] if bad else f.node,
               'the source stream is not repositioned',
               'download repositions / measures the caller\'s stream (%s): a '
               'stream that is not at position 0 is announced with the wrong '
               'size and its consumed prefix is transmitted as image data' %
               (norm(bad[0]) if bad else ''))
  g = lib.cfg(f)
  lens = [n for n in g.nodes if n.kind == 'stmt' and isinstance(
      n.ast, ast.Assign) and call_name(n.ast.value) == 'len']
  ok = False
  for n in lens:
    arg = n.ast.value.args[0] if n.ast.value.args else None
    vals = lib.value_exprs(g, n, arg) if isinstance(arg, ast.Name) else [arg]
    if vals and all(isinstance(v, ast.Call) and last_attr(v) == 'read' and
                    dotted(v.func.value) in lib.copy_class(f, src)
                    for v in vals) and \
        g.dominated_by_edge(n, lambda s, l, d: s.kind == 'test' and l == 'T'
                            and isinstance(s.ast, ast.Compare) and
                            isinstance(s.ast.ops[0], ast.Eq) and
                            isinstance(s.ast.comparators[0], ast.Constant) and
                            s.ast.comparators[0].value == 0):
      ok = True
  report.check(ok, rule, f.qualname, 'length-of-what-was-read', f.node,
               'source_len = len(source_file.read()) when none was given')


def prompt_writes_notify(report, repo, rule):
  report.rule(rule, 'T-MUST: every write to UserInput._prompt (what _asdict '
              'shows) outside __init__ is followed, on every way out of the '
              'method, by notify_update()')
  n = 0
  for f in repo.methods(UI, 'UserInput'):
    if f.name == '__init__':
      continue
    g = lib.cfg(f)
    for node in g.nodes:
      if node.kind == 'stmt' and isinstance(
          node.ast, (ast.Assign, ast.AnnAssign, ast.AugAssign, ast.Delete)) \
          and any(dotted(t) == 'self._prompt'
                  for t in core.assigned_targets(node.ast)):
        n += 1
        notif = lambda x: any(isinstance(s, ast.Call) and call_name(s) ==
                              'self.notify_update' for s in x.subnodes())
        # calls in between are taken not to raise; an explicit raise counts
        reach = g.reach([node], avoid=notif, avoid_edge=lambda a, l, b: l ==
                        'exc' and a.kind in ('stmt', 'test') and
                        not isinstance(a.ast, ast.Raise))
        bad = any(g.is_any_exit(x) for x in reach)
        report.check(not bad, rule, f.qualname, 'prompt-write:' +
                     norm(node.ast)[:40], node.ast,
                     'the change of the prompt is announced',
                     '%s changes self._prompt (%s) and can leave without '
                     'notify_update(): the plug\'s _asdict() changes but a '
                     'subscribed watcher is never woken' % (
                         f.qualname, norm(node.ast)[:50]))
  report.expect_instances(rule, n, 2, 'writes to UserInput._prompt')


def test_logger_has_no_forwarders(report, repo, rule):
  report.rule(rule, 'T-WHO: HtfTestLogger adds no method that forwards to '
              'another logging method (debug/info/warning/...): such a wrapper '
              'is one frame nearer to Logger.findCaller, so records logged '
              'through it carry logs.py as their source')
  levels = {'debug', 'info', 'warning', 'warn', 'error', 'exception',
            'critical', 'fatal', 'log', '_log'}
  n = 0
  for f in repo.methods(LG, 'HtfTestLogger'):
    n += 1
    for c in core.calls_in(f.node):
      if isinstance(c.func, ast.Attribute) and core.is_name(
          c.func.value, 'self') and c.func.attr in levels and \
          core.get_kw(c, 'stacklevel') is None:
        report.violation(
            rule, f.qualname, 'forwards:' + c.func.attr, c,
            'HtfTestLogger.%s forwards to self.%s() without a stacklevel: '
            'every record logged through it is attributed to logs.py instead '
            'of the caller\'s file and line' % (f.name, c.func.attr))
  report.ok(rule, repo.cls(LG, 'HtfTestLogger'),
            '%d methods of HtfTestLogger, none forwards a log call' % n)


def sigint_once_flag_writers(report, repo, rule):
  report.rule(rule, 'T-WHO: Test.HANDLED_SIGINT_ONCE is written only by '
              'Test.handle_sig_int (set once, process wide): re-arming it while '
              'another test is still winding down lets a second SIGINT escape '
              'that test\'s wait')
  n = 0
  for fi in repo.all_funcs():
    for x in walk_no_nested(fi.node):
      if isinstance(x, (ast.Assign, ast.AugAssign, ast.AnnAssign, ast.Delete)):
        for t in core.assigned_targets(x):
          if (dotted(t) or '').endswith('HANDLED_SIGINT_ONCE'):
            n += 1
            report.check(fi.qualname == 'Test.handle_sig_int' and
                         fi.path.endswith('test_descriptor.py'), rule,
                         fi.qualname, 'writes-flag', x,
                         'written by handle_sig_int',
                         '%s writes HANDLED_SIGINT_ONCE (%s)' % (fi.qualname,
                                                                  norm(x)))
  report.expect_instances(rule, n, 1, 'HANDLED_SIGINT_ONCE writes')


def with_args_builds_new_validator_list(report, repo, rule):
  report.rule(rule, 'T-OWN: Measurement.with_args hands the copy validator '
              'lists it has just built (a comprehension / list()), never '
              'self.validators / self.conditional_validators themselves')
  f = repo.func(ME, 'Measurement.with_args')
  g = lib.cfg(f)
  cs = [(n, c) for n, c in lib.nodes_with_call(g, attr='attr_copy')]
  report.expect_instances(rule, len(cs), 1, 'attr_copy calls in with_args')
  for n, c in cs:
    for kw in ('validators', 'conditional_validators'):
      v = core.get_kw(c, kw)
      vals = lib.value_exprs(g, n, v) if isinstance(v, ast.Name) else [v]
      ok = bool(vals) and all(
          isinstance(x, (ast.ListComp, ast.List)) or (
              isinstance(x, ast.Call) and call_name(x) in ('list',
                                                          'copy.copy',
                                                          'copy.deepcopy'))
          for x in vals)
      report.check(ok, rule, f.qualname, 'fresh:' + kw, c,
                   '%s of the copy is a new list' % kw,
                   'with_args can pass %s on unchanged (%s): the derived '
                   'measurement, its siblings and the base phase then share '
                   'one list, and a validator added to one shows up in all' %
                   (kw, [norm(x)[:40] for x in vals]))


def attachments_paired_by_position(report, repo, rule):
  report.rule(rule, 'T-AGREE: convert_test_record_to_json re-attaches the raw '
              'attachments to each rendered phase record by position '
              '(zip of the rendered and the original phase lists): records of '
              'a repeated phase share a descriptor id and must not share '
              'attachments')
  f = repo.func(JF, 'convert_test_record_to_json')
  rec = lib.param_names(f.node)[0]
  zips = [c for c in core.calls_in(f.node, name='zip') if len(c.args) == 2 and
          any(isinstance(a, ast.Subscript) and core.const_str(a.slice) ==
              'phases' for a in c.args) and
          any(dotted(a) == rec + '.phases' for a in c.args)]
  keyed = [n for n in ast.walk(f.node) if isinstance(n, ast.Constant) and
           n.value == 'descriptor_id'] + [
               n for n in ast.walk(f.node) if isinstance(n, ast.Attribute) and
               n.attr == 'descriptor_id']
  report.check(len(zips) == 1 and not keyed, rule, f.qualname,
               'paired-by-position', f.node,
               'rendered and original phase records are zipped',
               'attachments are matched to rendered phase records other than '
               'by position (%s): every record of a REPEATed phase gets the '
               'attachments of one of its runs' %
               ('by descriptor_id' if keyed else 'no zip of the two lists'))


# ---- round 6 (a second, smaller "outside the central function" round)


def monitored_phase_returns_result(report, repo, rule):
  report.rule(rule, 'T-RET: the wrapper built by monitors.monitors returns '
              'what the wrapped phase returned (FAIL_AND_CONTINUE / STOP / '
              'FAIL_SUBTEST must reach the executor)')
  f = repo.func(MO, 'monitors')
  wraps = [n for n in ast.walk(f.node) if isinstance(n, ast.FunctionDef) and
           n is not f.node and any(
               isinstance(c, ast.Call) and isinstance(c.func, ast.Name) and
               c.func.id == 'phase_desc' for c in ast.walk(n)) and
           not any(isinstance(m, ast.FunctionDef) and m is not n
                   for m in ast.walk(n))]
  report.expect_instances(rule, len(wraps), 1, 'monitored phase wrappers')
  w = wraps[0]
  calls = [c for c in ast.walk(w) if isinstance(c, ast.Call) and isinstance(
      c.func, ast.Name) and c.func.id == 'phase_desc']
  rets = [r for r in ast.walk(w) if isinstance(r, ast.Return) and
          r.value is not None]
  names = {t.id for a in ast.walk(w) if isinstance(a, ast.Assign) and any(
      a.value is c for c in calls) for t in a.targets
           if isinstance(t, ast.Name)}
  ok = len(calls) == 1 and any(
      r.value is calls[0] or (isinstance(r.value, ast.Name) and
                              r.value.id in names) for r in rets)
  report.check(ok, rule, 'monitors.' + w.name, 'returns-phase-result', w,
               'return phase_desc(test_state, ...)',
               'the monitoring wrapper drops the wrapped phase\'s return value: '
               'a monitored phase that returns FAIL_AND_CONTINUE / STOP / '
               'FAIL_SUBTEST is executed as CONTINUE (false PASS)')


def first_terminal_outcome_wins(report, repo, rule):
  report.rule(rule, 'T-DOM: TestExecutor._execute_phase / _execute_checkpoint '
              'remember a terminal outcome only when none is remembered yet '
              '(the first terminal event decides; a later failing teardown '
              'phase does not replace a TIMEOUT)')
  n = 0
  for q in ('TestExecutor._execute_phase', 'TestExecutor._execute_checkpoint'):
    f = repo.func(TE, q)
    g = lib.cfg(f)
    for node in g.nodes:
      if node.kind == 'stmt' and isinstance(node.ast, ast.Assign) and any(
          dotted(t) == 'self._last_outcome' for t in node.ast.targets):
        n += 1

        def none_yet(s, l, d):
          if s.kind != 'test':
            return False
          e, want = s.ast, 'F'
          if isinstance(e, ast.UnaryOp) and isinstance(e.op, ast.Not):
            e, want = e.operand, 'T'
          if dotted(e) == 'self._last_outcome':
            return l == want
          if isinstance(e, ast.Compare) and len(e.ops) == 1 and dotted(
              e.left) == 'self._last_outcome' and isinstance(
                  e.comparators[0], ast.Constant) and \
              e.comparators[0].value is None:
            return l == ('T' if isinstance(e.ops[0], ast.Is) else 'F')
          return False
        report.check(g.dominated_by_edge(node, none_yet), rule, f.qualname,
                     'first-wins:' + norm(node.ast)[:40], node.ast,
                     'stored only while no outcome is remembered',
                     '%s overwrites an already remembered terminal outcome: '
                     'the last terminal phase decides instead of the first '
                     '(a TIMEOUT followed by a raising teardown becomes ERROR)'
                     % f.qualname)
  report.expect_instances(rule, n, 2, '_last_outcome stores in phase/checkpoint')


def start_time_recorded_once(report, repo, rule):
  report.rule(rule, 'T-WHO: PhaseRecord.record_start_time() is called once per '
              'invocation, where the phase state\'s cached view is built '
              '(PhaseState.__attrs_post_init__): a later call would leave the '
              'live view with a stale start time')
  n = 0
  for m, c in core.call_sites(repo, attr='record_start_time'):
    if m.relpath.startswith('openhtf/util/test'):
      continue
    n += 1
    owner = core.owner_qualname(c)
    report.check(m.relpath == TS and owner.startswith('PhaseState.'), rule,
                 owner, 'record_start_time', c,
                 'start time recorded while the cached view is built',
                 '%s::%s records the start time again: the snapshot served by '
                 'as_base_types() keeps the earlier value' % (m.relpath, owner))
  report.expect_instances(rule, n, 1, 'record_start_time call sites')


def attr_copy_overrides_by_init_name(report, repo, rule):
  report.rule(rule, 'T-AGREE: data.attr_copy skips a field when its *init* name '
              '(leading underscore stripped) is among the overrides, the same '
              'name it passes the copied value under')
  DA = 'openhtf/util/data.py'
  f = repo.func(DA, 'attr_copy')
  g = lib.cfg(f)
  ov = f.node.args.kwarg.arg if f.node.args.kwarg else 'overrides'
  tests = [n for n in g.nodes if n.kind == 'test' and isinstance(
      n.ast, ast.Compare) and len(n.ast.ops) == 1 and isinstance(
          n.ast.ops[0], (ast.In, ast.NotIn)) and core.is_name(
              n.ast.comparators[0], ov)]
  report.expect_instances(rule, len(tests), 1, 'override membership tests')
  stores = [n for n in g.nodes if n.kind == 'stmt' and isinstance(
      n.ast, ast.Assign) and isinstance(n.ast.targets[0], ast.Subscript) and
            dotted(n.ast.targets[0].value) == 'kwargs']
  report.expect_instances(rule, len(stores), 1, 'kwargs stores')

  def key_text(node, e):
    vals = lib.value_exprs(g, node, e) if isinstance(e, ast.Name) else [e]
    return sorted(norm(v) for v in vals)
  a = key_text(tests[0], tests[0].ast.left)
  b = key_text(stores[0], stores[0].ast.targets[0].slice)
  report.check(a == b and not all(
      isinstance(x, str) and x.endswith('.name') for x in a), rule,
               f.qualname, 'same-key', tests[0].ast,
               'the override test and the keyword use the same init name',
               'attr_copy tests %s against the overrides but passes the value '
               'as %s: an override of a private field (cached=None) is not '
               'recognised and the copy keeps the original\'s value' % (a, b))


def plug_types_from_every_phase(report, repo, rule):
  report.rule(rule, 'T-LOOP: TestDescriptor.plug_types collects plug.cls of '
              'every plug of every phase (no phase is skipped): a with_plugs '
              'copy of the same function may need another plug class')
  f = repo.func(TD, 'TestDescriptor.plug_types')
  bad = [n for n in walk_no_nested(f.node) if isinstance(
      n, (ast.Continue, ast.Break))]
  comps = [g_ for n in ast.walk(f.node) if isinstance(
      n, (ast.SetComp, ast.ListComp, ast.GeneratorExp)) for g_ in n.generators
           if g_.ifs]
  fors = [n for n in walk_no_nested(f.node) if isinstance(n, ast.For)]
  guarded = [n for lp in fors for n in walk_no_nested(lp)
             if isinstance(n, ast.If)]
  report.check(not bad and not comps and not guarded, rule, f.qualname,
               'no-filter', f.node, 'every phase contributes its plug classes',
               'plug_types skips some phases (%s): a plug class needed only by '
               'a skipped phase copy is never constructed and that phase '
               'fails at plug injection' % norm((bad + guarded or [f.node])[0])[
                   :60])


def connection_keeps_device_maxdata(report, repo, rule):
  report.rule(rule, 'T-AGREE: AdbConnection.__init__ stores the maxdata it is '
              'given (what the device advertised in its CNXN) unchanged')
  f = repo.func(AP, 'AdbConnection.__init__')
  a = [n for n in walk_no_nested(f.node) if isinstance(n, ast.Assign) and
       dotted(n.targets[0]) == 'self.maxdata']
  params = lib.param_names(f.node)
  ok = len(a) == 1 and isinstance(a[0].value, ast.Name) and \
      a[0].value.id in params
  report.check(ok, rule, f.qualname, 'maxdata', a[0] if a else f.node,
               'self.maxdata = <parameter>',
               'AdbConnection changes the maxdata taken from the device\'s '
               'CNXN (%s): connect() no longer records what the device '
               'advertised' % (norm(a[0].value) if a else 'not stored'))


def top_logger_level_is_debug(report, repo, rule):
  report.rule(rule, 'T-CONST: logs.configure_logging sets the level of the '
              'top-level openhtf logger to logging.DEBUG only (the CLI '
              'verbosity belongs on the CLI handler): records below the CLI '
              'verbosity still reach the per-run record handler')
  f = repo.func(LG, 'configure_logging')
  top = lib.local_from(f, lambda e: isinstance(e, ast.Call) and call_name(
      e) == 'logging.getLogger' and e.args and (
          dotted(e.args[0]) == 'LOGGER_PREFIX' or core.const_str(
              e.args[0]) == 'openhtf'), 'htf_logger')
  n = 0
  for c in core.calls_in(f.node, attr='setLevel'):
    if dotted(c.func.value) == top:
      n += 1
      report.check(c.args and dotted(c.args[0]) == 'logging.DEBUG', rule,
                   f.qualname, 'top-level:' + norm(c)[:40], c,
                   'the openhtf logger passes everything on',
                   'the top-level logger is given the level %s: with -v the '
                   'DEBUG records of a run never reach its log_records' %
                   (norm(c.args[0]) if c.args else '?'))
  report.expect_instances(rule, n, 1, 'setLevel on the top-level logger')


def mac_filter_looks_at_formatted_message(report, repo, rule):
  report.rule(rule, 'T-DOM: MacAddressLogFilter.filter decides on the formatted '
              'message (record.getMessage()): nothing returns before that '
              'search (a MAC passed as a %-argument must be redacted too)')
  f = repo.func(LG, 'MacAddressLogFilter.filter')
  g = lib.cfg(f)
  searches = [n for n in g.nodes if any(
      isinstance(s, ast.Call) and last_attr(s) == 'search' and any(
          isinstance(x, ast.Call) and last_attr(x) == 'getMessage'
          for x in ast.walk(s)) for s in n.subnodes())]
  report.expect_instances(rule, len(searches), 1, 'searches of getMessage()')
  rets = [n for n in g.nodes if n.kind == 'stmt' and isinstance(n.ast,
                                                                ast.Return)]
  ok = all(g.dominated_by(r, lambda n: n is searches[0]) for r in rets)
  report.check(ok, rule, f.qualname, 'search-before-return', f.node,
               'every return comes after the search of the formatted message',
               'filter() can return before looking at the formatted message '
               '(a pre-check on the template): a MAC address supplied only as '
               'an argument is recorded unredacted')


def conversion_does_not_sort(report, repo, rule):
  report.rule(rule, 'T-TOTAL: data.convert_to_base_types does not order the '
              'items of a dict (sorted() raises TypeError for keys that do not '
              'compare; the conversion runs on the executor thread when a '
              'phase record is closed)')
  f = repo.func('openhtf/util/data.py', 'convert_to_base_types')
  bad = [c for c in core.calls_in(f.node) if call_name(c) == 'sorted' or
         last_attr(c) == 'sort']
  report.check(not bad, rule, f.qualname, 'no-sort', bad[0] if bad else f.node,
               'items are converted in their own order',
               'convert_to_base_types sorts (%s): a dict with keys of mixed '
               'types makes the conversion raise on the executor thread, the '
               'error escapes the phase context and the group\'s teardown is '
               'skipped' % (norm(bad[0])[:50] if bad else ''))


def every_join_is_bounded(report, repo, rule):
  report.rule(rule, 'T-CONST: every self.join(...) in '
              'PhaseExecutorThread.join_or_die has a finite constant timeout '
              '(a phase option can be None = wait forever)')
  f = repo.func(PE, 'PhaseExecutorThread.join_or_die')
  m = repo.module(PE)
  n = 0
  for j in core.calls_in(f.node, name='self.join'):
    n += 1
    a = j.args[0] if j.args else core.get_kw(j, 'timeout')
    fin = False
    if isinstance(a, ast.Constant) and isinstance(a.value, (int, float)):
      fin = a.value > 0
    elif isinstance(a, ast.Name) and a.id in m.constants:
      c = m.constants[a.id]
      fin = isinstance(c, ast.Constant) and isinstance(
          c.value, (int, float)) and c.value > 0
    report.check(fin, rule, f.qualname, 'join:' + norm(j)[:40], j,
                 'bounded by a positive constant',
                 'join_or_die waits with %s: for a phase without an explicit '
                 'timeout that is join(None), the executor blocks for ever on '
                 'a body that never returns and no teardown runs' % norm(j))
  report.expect_instances(rule, n, 1, 'joins in join_or_die')


def with_validator_always_appends(report, repo, rule):
  report.rule(rule, 'T-MUST: Measurement.with_validator appends every '
              'validator it is given (no de-duplication through the '
              'validators\' loose __eq__): a stricter validator that compares '
              'equal to an attached one must still be applied')
  f = repo.func(ME, 'Measurement.with_validator')
  g = lib.cfg(f)
  apps = [n for n, c in lib.nodes_with_call(g, attr='append')
          if dotted(c.func.value) == 'self.validators']
  report.expect_instances(rule, len(apps), 1, 'validator appends')
  guarded = g.dominated_by_edge(
      apps[0], lambda s, l, d: s.kind == 'test' and isinstance(
          s.ast, ast.Compare) and isinstance(s.ast.ops[0], (ast.In, ast.NotIn))
      and dotted(s.ast.comparators[0]) == 'self.validators')
  report.check(not guarded, rule, f.qualname, 'append-unconditional',
               apps[0].ast, 'the validator is appended whatever is attached',
               'with_validator skips a validator that compares equal to one '
               'already attached: validators\' __eq__ ignores e.g. regex flags '
               'or types, so a stricter conditional validator is dropped and a '
               'rejected value is recorded PASS')


def callback_clearing_by_dimensions(report, repo, rule):
  report.rule(rule, 'T-DOM: Measurement.set_notification_callback clears the '
              'value holder\'s notify hook for every dimensioned measurement '
              '(decided by self.dimensions, not by the current outcome): a '
              'handle kept past its phase must not flip the finished record')
  f = repo.func(ME, 'Measurement.set_notification_callback')
  reads = [n for n in ast.walk(f.node) if isinstance(n, ast.Attribute) and
           dotted(n) == 'self.outcome']
  dims = [n for n in ast.walk(f.node) if isinstance(n, ast.Attribute) and
          dotted(n) == 'self.dimensions']
  report.check(not reads and bool(dims), rule, f.qualname, 'by-dimensions',
               f.node, 'guarded by self.dimensions',
               'the hook is cleared depending on the outcome (%s): a '
               'dimensioned measurement not written during its phase keeps an '
               'armed hook after the phase is finalised' %
               ('reads self.outcome' if reads else 'no self.dimensions test'))
