"""C11 - runs are isolated; derived phases are copies."""

import ast

from sa import core, lib
from sa.core import call_name, dotted, last_attr, norm, walk_no_nested
from sa.lib import ends_with

DECIDES = (
    'freshness of every derivation API (PhaseOptions.__call__, '
    'PhaseDescriptor.wrap_or_copy / with_args / with_plugs / load_code_info, '
    'measures, diagnose, plugs.plug, monitors, Measurement.with_args, '
    'Checkpoint and collection methods): every attribute write or mutator '
    'call is rooted in an object allocated in that function, at most one '
    'field level deep, and the returned object of a mutable class is fresh; '
    'collection methods map every child through the same derivation; '
    'data.attr_copy copies every field into a new instance; per-run state is '
    'built from fresh or deep-copied objects; no code in the executor files '
    'writes through a descriptor-typed access path or its run-time aliases; '
    'module/class-level mutable state written on run paths is limited to the '
    'registered tables.')
DOES_NOT_DECIDE = (
    'what user phase bodies do to shared objects; aliasing deeper than one '
    'field level that is never written (harmless while the who-may-write rule '
    'holds).')

PD = 'openhtf/core/phase_descriptor.py'
PC = 'openhtf/core/phase_collections.py'
PG = 'openhtf/core/phase_group.py'
PB = 'openhtf/core/phase_branches.py'
ME = 'openhtf/core/measurements.py'
DA = 'openhtf/util/data.py'
TS = 'openhtf/core/test_state.py'
TE = 'openhtf/core/test_executor.py'
PE = 'openhtf/core/phase_executor.py'
TD = 'openhtf/core/test_descriptor.py'
DL = 'openhtf/core/diagnoses_lib.py'
PL = 'openhtf/plugs/__init__.py'
MO = 'openhtf/core/monitors.py'

FRESH_CALLS = ('attr_copy', 'wrap_or_copy', 'evolve', 'copy', 'deepcopy',
               'format_strings', 'with_args', 'with_plugs', 'load_code_info')


def _is_fresh_expr(e, finfo, repo, fresh_names):
  if isinstance(e, (ast.List, ast.Dict, ast.Set, ast.Tuple, ast.ListComp,
                    ast.DictComp, ast.SetComp, ast.GeneratorExp,
                    ast.Constant)):
    return True
  if isinstance(e, ast.Name):
    return e.id in fresh_names
  if isinstance(e, ast.Call):
    la = last_attr(e)
    if la in FRESH_CALLS:
      return True
    if isinstance(e.func, ast.Name) and (e.func.id in ('cls', 'list', 'dict',
                                                       'tuple', 'set') or
                                         e.func.id[:1].isupper()):
      return True
    if isinstance(e.func, ast.Call) and call_name(e.func) == 'type':
      return True  # type(self)(...)
    if isinstance(e.func, ast.Attribute) and e.func.attr[:1].isupper():
      return True  # module.Class(...)
    return False
  if isinstance(e, ast.IfExp):
    return _is_fresh_expr(e.body, finfo, repo, fresh_names) and \
        _is_fresh_expr(e.orelse, finfo, repo, fresh_names)
  return False


def _fresh_locals(finfo, repo):
  """Names every definition of which is a fresh allocation (fixpoint)."""
  defs = {}
  for n in walk_no_nested(finfo.node):
    if isinstance(n, ast.Assign):
      for t in n.targets:
        if isinstance(t, ast.Name):
          defs.setdefault(t.id, []).append(n.value)
    elif isinstance(n, (ast.For, ast.comprehension)):
      for t in core._flatten_target(n.target):  # pylint: disable=protected-access
        if isinstance(t, ast.Name):
          defs.setdefault(t.id, []).append(None)  # loop variable: not fresh
  params = set(lib.param_names(finfo.node))
  a = finfo.node.args
  fresh = set()
  # *args / **kwargs containers are allocated per call
  if a.vararg:
    fresh.add(a.vararg.arg)
  if a.kwarg:
    fresh.add(a.kwarg.arg)
  # nested (possibly decorated) function definitions are new objects
  for n in finfo.node.body:
    if isinstance(n, (ast.FunctionDef, ast.ClassDef)):
      fresh.add(n.name)
  changed = True
  while changed:
    changed = False
    for name, vals in defs.items():
      if name in fresh or name in params:
        continue
      if all(v is not None and _is_fresh_expr(v, finfo, repo, fresh)
             for v in vals):
        fresh.add(name)
        changed = True
  return fresh


def _write_sites(fnode):
  """(node, access path expr) for attribute/subscript writes and mutator
  calls lexically in fnode (nested defs excluded)."""
  out = []
  for n in walk_no_nested(fnode):
    if isinstance(n, (ast.Assign, ast.AugAssign, ast.AnnAssign, ast.Delete)):
      for t in core.assigned_targets(n):
        if isinstance(t, (ast.Attribute, ast.Subscript)):
          out.append((n, t))
    elif isinstance(n, ast.Call) and isinstance(n.func, ast.Attribute) and \
        n.func.attr in core.MUTATORS:
      out.append((n, n.func.value))
    elif isinstance(n, ast.Call) and call_name(n) in ('setattr',
                                                      'object.__setattr__'):
      if n.args:
        out.append((n, n.args[0]))
  return out


def _path(expr):
  """(root name, [hops]) of an access path; hops are '.attr' or '[]'."""
  hops = []
  while True:
    if isinstance(expr, ast.Attribute):
      hops.append('.' + expr.attr)
      expr = expr.value
    elif isinstance(expr, ast.Subscript):
      hops.append('[]')
      expr = expr.value
    elif isinstance(expr, ast.Call):
      hops.append('()')
      expr = expr.func
    else:
      break
  root = expr.id if isinstance(expr, ast.Name) else None
  return root, list(reversed(hops))


DERIVATION_APIS = [
    (PD, 'PhaseOptions.__call__'), (PD, 'PhaseDescriptor.wrap_or_copy'),
    (PD, 'PhaseDescriptor.with_args'), (PD, 'PhaseDescriptor.with_plugs'),
    (PD, 'PhaseDescriptor.load_code_info'), (PD, 'measures.decorate'),
    (PD, 'diagnose.decorate'), (PL, 'plug.result'), (MO, 'monitors.wrapper'),
    (ME, 'Measurement.with_args'), (PB, 'Checkpoint.with_args'),
    (PB, 'Checkpoint.with_plugs'), (PC, 'PhaseSequence.with_args'),
    (PC, 'PhaseSequence.with_plugs'), (PC, 'PhaseSequence.load_code_info'),
    (PC, 'PhaseSequence.apply_to_all_phases'), (PC, 'PhaseSequence.combine'),
    (PG, 'PhaseGroup.with_args'), (PG, 'PhaseGroup.with_plugs'),
    (PG, 'PhaseGroup.load_code_info'), (PG, 'PhaseGroup.apply_to_all_phases'),
    (PG, 'PhaseGroup.combine'), (PG, 'PhaseGroup.wrap'),
    # callees whose results the freshness analysis treats as new objects must
    # themselves return new objects
    (PD, 'PhaseOptions.format_strings'),
    ('openhtf/core/phase_nodes.py', 'PhaseNode.copy'),
]


def _class_is_frozen(cls_node):
  for d in cls_node.decorator_list:
    if isinstance(d, ast.Call) and call_name(d) in ('attr.s', 'attr.attrs'):
      for k in d.keywords:
        if k.arg == 'frozen' and isinstance(k.value, ast.Constant) and \
            k.value.value is True:
          return True
  return False


def r1_fresh(report, repo):
  rule = 'C11-R1'
  report.rule(rule, 'T-FRESH: derivation APIs write only through objects they '
              'allocated (one field level deep) and return a fresh object '
              '(self only from frozen classes)')
  n = 0
  for rel, q in DERIVATION_APIS:
    f = repo.func(rel, q)
    n += 1
    fresh = _fresh_locals(f, repo)
    bad = []
    for node, acc in _write_sites(f.node):
      root, hops = _path(acc)
      if root is None:
        bad.append((node, 'write through a non-local expression'))
        continue
      if root not in fresh:
        bad.append((node, 'root `%s` is not allocated in this function '
                    '(parameter / self / closure / loop variable)' % root))
        continue
      depth = len([h for h in hops if h.startswith('.')])
      if depth > 2 or '[]' in hops[:-1] and depth >= 2 or '()' in hops:
        bad.append((node, 'write %d levels below the fresh object `%s` '
                    '(only the first field level is copied by attr_copy)' %
                    (depth, root)))
    for node, why in bad:
      report.violation(rule, f.qualname, node, node,
                       '%s mutates shared state: %s: %s' %
                       (f.qualname, norm(node), why))
    rets = [r for r in walk_no_nested(f.node) if isinstance(r, ast.Return)]
    frozen = f.cls is not None and _class_is_frozen(f.cls)
    okr = True
    for r in rets:
      v = r.value
      if v is None:
        continue
      if _is_fresh_expr(v, f, repo, fresh):
        continue
      if isinstance(v, ast.Constant):
        continue
      if dotted(v) == 'self' and frozen:
        continue
      if isinstance(v, ast.Call):
        # self.combine(other) etc.: a call into another derivation API
        if any(last_attr(v) == qq.split('.')[-1] for _, qq in DERIVATION_APIS):
          continue
      okr = False
      report.violation(
          rule, f.qualname, 'returns:' + norm(v), r,
          '%s returns %s, which is not an object allocated by this call: the '
          '"derived" object aliases the original (mutable class)' %
          (f.qualname, norm(v)))
    if not bad and okr:
      report.ok(rule, f.node, '%s: %d write site(s) rooted in fresh objects; '
                'returns a fresh object' % (f.qualname,
                                            len(_write_sites(f.node))))
  report.expect_instances(rule, n, 20, 'derivation APIs')
  # collection methods map every child through the same derivation
  for rel, cls in ((PC, 'PhaseSequence'),):
    for meth in ('with_args', 'with_plugs', 'load_code_info',
                 'apply_to_all_phases'):
      f = repo.func(rel, cls + '.' + meth)
      gens = [g for g in walk_no_nested(f.node)
              if isinstance(g, (ast.GeneratorExp, ast.ListComp)) and
              dotted(g.generators[0].iter) == 'self.nodes']
      ok = len(gens) == 1 and isinstance(gens[0].elt, ast.Call) and \
          last_attr(gens[0].elt) == meth and dotted(
              gens[0].elt.func.value) == dotted(gens[0].generators[0].target) \
          and not gens[0].generators[0].ifs
      report.check(ok, rule, f.qualname, 'children-derived', f.node,
                   '%s.%s derives every child with the same method' %
                   (cls, meth),
                   '%s.%s does not derive every child node: the new '
                   'collection shares (mutable) phase descriptors with the '
                   'original' % (cls, meth))
  for meth in ('with_args', 'with_plugs', 'load_code_info',
               'apply_to_all_phases'):
    f = repo.func(PG, 'PhaseGroup.' + meth)
    cs = [c for c in core.calls_in(f.node, attr=meth)
          if (dotted(c.func.value) or '') in ('self.setup', 'self.main',
                                              'self.teardown')]
    report.check(len(cs) == 3, rule, f.qualname, 'children-derived', f.node,
                 'PhaseGroup.%s derives setup, main and teardown' % meth,
                 'PhaseGroup.%s derives only %d of its three sequences' %
                 (meth, len(cs)))


def r2_attr_copy(report, repo):
  rule = 'C11-R2'
  report.rule(rule, 'T-AGREE: data.attr_copy copies every field (copy.copy or '
              'recursive attr_copy) into a new instance; _recursive_flatten '
              'yields copies, never the node itself')
  f = repo.func(DA, 'attr_copy')
  loops = [n for n in walk_no_nested(f.node) if isinstance(n, ast.For)]
  ok = len(loops) == 1 and call_name(loops[0].iter) == 'attr.fields'
  report.check(ok, rule, f.qualname, 'all-fields', f.node,
               'iterates attr.fields(type(obj))')
  g = lib.cfg(f)
  # the dict the new instance is built from: type(obj)(**<name>)
  kwn = [dotted(k.value) for r in walk_no_nested(f.node)
         if isinstance(r, ast.Return) and isinstance(r.value, ast.Call)
         for k in r.value.keywords if k.arg is None]
  stores = [n for n in g.nodes if n.kind == 'stmt' and isinstance(
      n.ast, ast.Assign) and isinstance(n.ast.targets[0], ast.Subscript) and
            dotted(n.ast.targets[0].value) in kwn]
  ok = len(stores) >= 1
  if ok:
    defs = [d for st_ in stores for d in lib.resolved(f, st_.ast.value)]
    ok = bool(defs) and all(
        isinstance(d, ast.Call) and call_name(d) in ('copy.copy', 'attr_copy',
                                                     'copy.deepcopy')
        for d in defs)
    # the store is skipped only for overridden fields
    head = [n for n in g.nodes if n.kind == 'for']
    conts = [n for n in g.nodes if n.kind == 'stmt' and isinstance(
        n.ast, ast.Continue)]
    ok = ok and all(g.dominated_by_edge(
        c, lambda s, l, d_: s.kind == 'test' and l == 'T' and isinstance(
            s.ast, ast.Compare) and dotted(s.ast.comparators[0]) == 'overrides')
                    for c in conts)
  report.check(ok, rule, f.qualname, 'copy-each', f.node,
               'every non-overridden field value is copied (copy.copy / '
               'recursive attr_copy)',
               'attr_copy passes a field value on without copying it: derived '
               'phases share lists/dicts with the original')
  rets = [n for n in walk_no_nested(f.node) if isinstance(n, ast.Return)]
  ok = len(rets) == 1 and isinstance(rets[0].value, ast.Call) and isinstance(
      rets[0].value.func, ast.Call) and call_name(rets[0].value.func) == 'type'
  report.check(ok, rule, f.qualname, 'new-instance', f.node,
               'returns type(obj)(**kwargs): a new instance')
  rf = repo.func(PC, '_recursive_flatten')
  ys = [n for n in walk_no_nested(rf.node) if isinstance(n, ast.Yield)]
  bad = [y for y in ys if isinstance(y.value, ast.Name) and
         y.value.id == lib.param_names(rf.node)[0]]
  ok = not bad and any(isinstance(y.value, ast.Call) and last_attr(y.value) ==
                       'copy' for y in ys) and any(
                           isinstance(y.value, ast.Call) and
                           last_attr(y.value) == 'wrap_or_copy' for y in ys)
  report.check(ok, rule, rf.qualname, 'yields-copies', rf.node,
               'nesting yields n.copy() / wrap_or_copy(n), never n',
               '_recursive_flatten yields the node itself: a collection shares '
               'the caller\'s phase objects')
  wc = repo.func(PD, 'PhaseDescriptor.wrap_or_copy')
  g = lib.cfg(wc)
  acs = lib.nodes_with_call(g, name='data.attr_copy')
  ok = len(acs) == 1 and g.dominated_by_edge(
      acs[0][0], lambda s, l, d: s.kind == 'test' and l == 'T' and
      call_name(s.ast) == 'isinstance' and dotted(s.ast.args[1]) == 'cls')
  report.check(ok, rule, wc.qualname, 'copies-descriptors', wc.node,
               'an existing PhaseDescriptor is copied, a callable is wrapped')


def r3_per_run_state(report, repo):
  rule = 'C11-R3'
  report.rule(rule, 'T-RDEF: PhaseState.from_descriptor deep-copies the '
              'measurements; TestState.__init__ builds record / plug manager / '
              'diagnoses manager / state dict fresh and deep-copies metadata; '
              'TestExecutor._thread_proc creates a new TestState per run')
  f = repo.func(TS, 'PhaseState.from_descriptor')
  # the list of deep copies, whatever it is called, and everything the phase
  # state's measurements are built from (flow-insensitive "built from" closure)
  pdesc = lib.param_names(f.node)[1]
  copies = [n for n in ast.walk(f.node) if isinstance(n, (
      ast.ListComp, ast.GeneratorExp)) and call_name(n.elt) == 'copy.deepcopy'
            and (dotted(n.generators[0].iter) or '') == pdesc + '.measurements'
            and n.elt.args and dotted(n.elt.args[0]) == dotted(
                n.generators[0].target)]
  report.check(len(copies) == 1, rule, f.qualname, 'deepcopy-measurements',
               f.node,
               'measurements of the run are deep copies of the descriptor\'s',
               'the run does not deep-copy the descriptor\'s measurements: '
               'values and outcomes of one run leak into the next')
  cs = [c for c in core.calls_in(f.node) if call_name(c) == 'cls']
  ok = len(cs) == 1 and len(copies) == 1
  if ok:
    mv = core.get_kw(cs[0], 'measurements')
    ok = mv is not None
    if ok:
      _, exprs = lib.sources_of(f, mv)
      uses_copy = any(any(x is copies[0] for x in ast.walk(e)) for e in exprs)
      raw = [x for e in exprs for x in ast.walk(e)
             if isinstance(x, ast.Attribute) and x.attr == 'measurements' and
             dotted(x.value) == pdesc and x is not copies[0].generators[0].iter]
      ok = uses_copy and not raw
  report.check(ok, rule, f.qualname, 'state-uses-copies', f.node,
               'the phase state is built from the copies')
  init = repo.func(TS, 'TestState.__init__')
  want = {
      'self.test_record': 'TestRecord',
      'self.plug_manager': 'PlugManager',
      'self.diagnoses_manager': 'DiagnosesManager',
  }
  for tgt, ctor in want.items():
    a = [n for n in walk_no_nested(init.node) if isinstance(n, ast.Assign) and
         dotted(n.targets[0]) == tgt]
    val = a[0].value if len(a) == 1 else None
    if isinstance(val, ast.Name):
      # built into a local first: that local's only definition
      defs = [n.value for n in walk_no_nested(init.node) if isinstance(
          n, ast.Assign) and any(core.is_name(t, val.id) for t in n.targets)]
      val = defs[0] if len(defs) == 1 else None
    ok = len(a) == 1 and isinstance(val, ast.Call) and \
        last_attr(val) == ctor
    report.check(ok, rule, init.qualname, tgt, init.node,
                 '%s = %s(...) per TestState' % (tgt, ctor),
                 '%s is not constructed fresh per run' % tgt)
  a = [n for n in walk_no_nested(init.node) if isinstance(n, ast.Assign) and
       dotted(n.targets[0]) == 'self.user_defined_state']
  report.check(len(a) == 1 and isinstance(a[0].value, ast.Dict) and
               not a[0].value.keys, rule, init.qualname, 'state-dict', init.node,
               'user_defined_state starts as a new empty dict')
  tr = [c for c in core.calls_in(init.node, attr='TestRecord')]
  md = core.get_kw(tr[0], 'metadata') if tr else None
  report.check(md is not None and call_name(md) == 'copy.deepcopy', rule,
               init.qualname, 'metadata-deepcopy', init.node,
               'metadata is deep-copied into the record')
  tp = repo.func(TE, 'TestExecutor._thread_proc')
  a = [n for n in walk_no_nested(tp.node) if isinstance(n, ast.Assign) and
       dotted(n.targets[0]) == 'self.test_state']
  report.check(len(a) == 1 and last_attr(a[0].value) == 'TestState', rule,
               tp.qualname, 'new-test-state', tp.node,
               'each executor thread constructs its own TestState')
  dm = repo.cls(DL, 'DiagnosesManager')
  st = [v for n, v in core.class_attr_fields(dm) if n == 'store']
  ok = len(st) == 1
  if ok:
    d = core.get_kw(st[0], 'default')
    fac = core.get_kw(st[0], 'factory')
    ok = (fac is not None and dotted(fac) == 'DiagnosesStore') or (
        isinstance(d, ast.Call) and call_name(d) == 'attr.Factory' and
        dotted(d.args[0]) == 'DiagnosesStore')
  report.check(ok, rule, 'DiagnosesManager', 'new-store', dm,
               'each DiagnosesManager owns a new DiagnosesStore (attrs factory)',
               'DiagnosesManager.store is not created per instance: diagnoses '
               'of one run are visible to the next')
  ds = repo.cls(DL, 'DiagnosesStore')
  for n, v in core.class_attr_fields(ds):
    d = core.get_kw(v, 'default')
    bad = isinstance(d, (ast.Dict, ast.List, ast.Set))
    report.check(not bad, rule, 'DiagnosesStore', 'field:' + n, v,
                 'DiagnosesStore.%s is not a shared mutable default' % n)


DESC_TYPES = ('PhaseDescriptor', 'PhaseOptions', 'PhaseNode', 'PhaseSequence',
              'Subtest', 'BranchSequence', 'PhaseGroup', 'Checkpoint',
              'TestDescriptor', 'TestOptions', 'PhaseT',
              'BasePhaseDiagnoser', 'BaseTestDiagnoser', 'DiagnosisCondition')
# run-time aliases of descriptor objects (attribute name on any receiver)
ALIAS_ATTRS = {
    'options': 'PhaseState.options / PhaseRecord.options alias the '
               'descriptor\'s PhaseOptions',
    'diagnosers': 'PhaseState.diagnosers / TestRecord.diagnosers alias the '
                  'declared diagnoser lists',
    'codeinfo': 'PhaseRecord.codeinfo aliases the descriptor\'s CodeInfo',
    'code_info': 'TestRecord.code_info aliases the descriptor\'s CodeInfo',
    'phase_sequence': 'TestDescriptor.phase_sequence is the declared tree',
    'plugs': 'PhaseDescriptor.plugs',
    'measurements@desc': '',
}
R4_EXCEPTIONS = {
    ("Test.execute", "self._test_desc.metadata['test_name']"):
        'metadata keys test_name/config are snapshots the property does not '
        'list among the immutable declarations',
    ("Test.execute", "self._test_desc.metadata['config']"):
        'same',
}


def _ann_is_desc(ann):
  if ann is None:
    return False
  txt = ann.value if isinstance(ann, ast.Constant) and isinstance(
      ann.value, str) else core.unparse(ann)
  import re  # pylint: disable=g-import-not-at-top
  return any(re.search(r'\b%s\b' % t, txt) for t in DESC_TYPES)


def r4_no_descriptor_writes(report, repo):
  rule = 'C11-R4'
  report.rule(rule, 'T-WHO (effects): in the executor files no write goes '
              'through a descriptor-typed access path (parameters / attributes '
              'typed as descriptor classes, locals aliasing them) nor through '
              'the run-time aliases options / diagnosers / codeinfo')
  scope = [(TE, None), (PE, None), (TS, None), (DL, None), (TD, 'Test.execute'),
           (PD, 'PhaseDescriptor.__call__')]
  n_funcs = 0
  n_writes = 0
  for rel, only in scope:
    m = repo.module(rel)
    # self attributes initialised from descriptor-typed parameters
    desc_attrs = set()
    for f in m.all_funcs():
      if f.name != '__init__' or f.cls is None:
        continue
      dparams = set(a.arg for a in f.node.args.args + f.node.args.kwonlyargs
                    if _ann_is_desc(a.annotation))
      for n in walk_no_nested(f.node):
        if isinstance(n, ast.Assign) and isinstance(n.value, ast.Name) and \
            n.value.id in dparams:
          for t in n.targets:
            d = dotted(t)
            if d and d.startswith('self.'):
              desc_attrs.add((f.cls.name, d))
    for f in m.all_funcs():
      if only is not None and f.qualname != only:
        continue
      n_funcs += 1
      dnames = set(a.arg for a in f.node.args.args + f.node.args.kwonlyargs
                   if _ann_is_desc(a.annotation))
      if f.qualname == 'PhaseDescriptor.__call__':
        dnames.add('self')  # invoking a phase: self IS the declared descriptor
      fresh = _fresh_locals(f, repo)
      # locals aliasing descriptor names (flow-insensitive union)
      changed = True
      while changed:
        changed = False
        for n in walk_no_nested(f.node):
          if isinstance(n, ast.Assign) and len(n.targets) == 1 and isinstance(
              n.targets[0], ast.Name):
            src, _ = _path(n.value)
            d = dotted(n.value)
            al = (src in dnames and not isinstance(n.value, ast.Call)) or (
                f.cls is not None and d is not None and any(
                    d == a or d.startswith(a + '.')
                    for c, a in desc_attrs if c == f.cls.name))
            if al and n.targets[0].id not in dnames:
              dnames.add(n.targets[0].id)
              changed = True
          elif isinstance(n, ast.For) and isinstance(n.target, ast.Name):
            src, _ = _path(n.iter)
            if src in dnames and n.target.id not in dnames:
              dnames.add(n.target.id)
              changed = True
      for node, acc in _write_sites(f.node):
        n_writes += 1
        root, hops = _path(acc)
        d = dotted(acc) or norm(acc)
        why = None
        if root in dnames and (hops or isinstance(node, ast.Call)) and \
            '()' not in hops:
          why = '`%s` is (an alias of) a declared descriptor object' % root
        elif root == 'self' and f.cls is not None:
          for c, a in desc_attrs:
            if c == f.cls.name and (d == a or d.startswith(a + '.') or
                                    d.startswith(a + '[')) and d != a:
              why = '%s holds the declared descriptor' % a
          if why is None and len(hops) >= 2:
            for h in hops[:-1] if isinstance(node, ast.Call) else hops[:-1]:
              if h.lstrip('.') in ('options', 'diagnosers', 'codeinfo',
                                   'code_info', 'phase_sequence'):
                why = ALIAS_ATTRS.get(h.lstrip('.'), 'descriptor alias')
        elif root is not None and root not in fresh and len(hops) >= 2:
          for h in hops[:-1]:
            if h.lstrip('.') in ('options', 'diagnosers', 'codeinfo',
                                 'phase_sequence'):
              why = ALIAS_ATTRS.get(h.lstrip('.'), 'descriptor alias')
        if isinstance(node, ast.Call) and root == 'self' and f.cls is not None \
            and why is None and hops:
          # mutator directly on an alias list: self.diagnosers.append(...)
          if hops[-1].lstrip('.') in ('diagnosers',) and len(hops) == 1:
            why = ALIAS_ATTRS['diagnosers']
        if why is None:
          continue
        key = (f.qualname, norm(acc))
        if key in R4_EXCEPTIONS:
          report.info(rule, node, 'table exception %s: %s' %
                      (key, R4_EXCEPTIONS[key]))
          continue
        report.violation(
            rule, f.qualname, node, node,
            '%s writes %s: %s; executing a test must not mutate what it was '
            'declared with' % (f.qualname, norm(node), why))
  report.ok(rule, TE, '%d functions, %d write sites in the executor files: '
            'none goes through a descriptor-typed path' % (n_funcs, n_writes))
  report.expect_instances(rule, n_writes, 60, 'write sites in executor files')


ALLOWED_GLOBALS = {
    (TD, 'TEST_INSTANCES'): 'registry of running tests (SIGINT)',
    (TD, 'HANDLED_SIGINT_ONCE'): 'SIGINT latch',
    (TD, 'DEFAULT_SIGINT_HANDLER'): 'saved handler',
    ('openhtf/util/logs.py', '_LOG_ONCE_SEEN'): 'log_once memo',
}


def r5_globals(report, repo):
  rule = 'C11-R5'
  report.rule(rule, 'T-WHO (globals): module-/class-level mutable state '
              'written inside functions of the run-path modules is limited to '
              'the registered tables')
  scope = [TD, TE, PE, TS, DL, 'openhtf/util/logs.py', ME, PD, PC, PG, PB,
           'openhtf/core/test_record.py']
  n = 0
  for rel in scope:
    m = repo.module(rel)
    shared = set()
    for s in m.tree.body:
      if isinstance(s, ast.Assign) and isinstance(s.targets[0], ast.Name) and \
          isinstance(s.value, (ast.Dict, ast.List, ast.Set, ast.Call)):
        if isinstance(s.value, ast.Call) and last_attr(s.value) not in (
            'set', 'dict', 'list', 'WeakValueDictionary', 'WeakSet',
            'defaultdict', 'OrderedDict'):
          continue
        shared.add(s.targets[0].id)
    cls_shared = {}
    for q, c in m.classes.items():
      for s in c.body:
        if isinstance(s, ast.Assign) and isinstance(s.targets[0], ast.Name) \
            and not (isinstance(s.value, ast.Call) and
                     call_name(s.value) in ('attr.ib', 'attr.attrib')):
          cls_shared.setdefault(c.name, set()).add(s.targets[0].id)
    for f in m.all_funcs():
      globs = set()
      for g in walk_no_nested(f.node):
        if isinstance(g, ast.Global):
          globs.update(g.names)
      for node, acc in _write_sites(f.node):
        root, hops = _path(acc)
        name = None
        if root in shared and root not in lib.param_names(f.node):
          name = root
        elif root in ('cls',) and hops and f.cls is not None:
          name = hops[0].lstrip('.')
        elif root == 'self' and hops and f.cls is not None and \
            hops[0].lstrip('.') in cls_shared.get(f.cls.name, ()) and \
            hops[0].lstrip('.').isupper():
          name = hops[0].lstrip('.')
        elif f.cls is not None and root == f.cls.name and hops:
          name = hops[0].lstrip('.')
        if name is None:
          continue
        n += 1
        ok = (rel, name) in ALLOWED_GLOBALS
        report.check(ok, rule, f.qualname, node, node,
                     'shared state %s written by %s (registered: %s)' %
                     (name, f.qualname, ALLOWED_GLOBALS.get((rel, name))),
                     '%s writes process-wide state %s.%s, which is not a '
                     'registered table: two tests in one process can observe '
                     'each other' % (f.qualname, rel, name))
      for gname in globs:
        n += 1
        report.check((rel, gname) in ALLOWED_GLOBALS, rule, f.qualname,
                     'global ' + gname, f.node,
                     'global %s registered' % gname,
                     '%s rebinds module global %s' % (f.qualname, gname))
  report.expect_instances(rule, n, 3, 'shared-state write sites')


def r6_plug_types(report, repo):
  rule = 'C11-R6'
  TD = 'openhtf/core/test_descriptor.py'
  report.rule(rule, 'T-OWN: TestDescriptor.plug_types hands out a set built '
              'by that very call (PlugManager keeps and grows the set it is '
              'given), and nothing of it is stored on the descriptor')
  f = repo.func(TD, 'TestDescriptor.plug_types')
  g = lib.cfg(f)
  rets = [n for n in g.nodes if isinstance(n.ast, ast.Return)]
  report.expect_instances(rule, len(rets), 1, 'returns of plug_types')
  for rn in rets:
    vals = lib.value_exprs(g, rn, rn.ast.value)
    fresh = all(isinstance(v, (ast.Set, ast.SetComp)) or (
        isinstance(v, ast.Call) and call_name(v) in ('set', 'frozenset'))
                for v in vals)
    report.check(fresh, rule, f.qualname, 'fresh-set', rn.ast,
                 'plug_types returns a set created by the call',
                 'plug_types can return an object that outlives the call (%s): '
                 'PlugManager.update_plug adds to it, so one run changes the '
                 'plug set of the declared test' % sorted(set(
                     norm(v)[:40] for v in vals)))
  ws = [n for n in g.nodes if n.kind == 'stmt' and n.ast is not None and any(
      (dotted(t) or '').startswith('self.')
      for t in core.assigned_targets(n.ast))]
  report.check(not ws, rule, f.qualname, 'no-descriptor-write', f.node,
               'plug_types does not write to the descriptor')


def run(report, repo):
  report.guard(r1_fresh, report, repo)
  report.guard(r2_attr_copy, report, repo)
  report.guard(r3_per_run_state, report, repo)
  report.guard(r4_no_descriptor_writes, report, repo)
  report.guard(r5_globals, report, repo)
  report.guard(r6_plug_types, report, repo)
  # the declared plug class gets its logger attribute back on every exit of the
  # constructor call (shared C08-R2)
  from sa.rules import c08  # pylint: disable=g-import-not-at-top
  report.guard(c08.r2_construct_once, report, repo, rule='C11-R7')
  from sa.rules import extra4  # pylint: disable=g-import-not-at-top
  report.guard(extra4.no_identity_deepcopy, report, repo, 'C11-R8',
               ['openhtf/core/measurements.py', 'openhtf/core/phase_descriptor.py',
                'openhtf/core/phase_collections.py', 'openhtf/core/phase_group.py',
                'openhtf/core/phase_branches.py', 'openhtf/util/validators.py',
                'openhtf/core/diagnoses_lib.py'])
  from sa.rules import extra5 as _e5d  # pylint: disable=g-import-not-at-top
  report.guard(_e5d.with_args_builds_new_validator_list, report, repo, 'C11-R9')
