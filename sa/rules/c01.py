"""C01 - No false PASS."""

import ast

from sa import cfg as cfgm
from sa import core, lib
from sa.core import call_name, dotted, last_attr, norm, walk_no_nested
from sa.lib import ends_with

DECIDES = (
    'who may produce Outcome.PASS / write the record outcome (whole repo); the '
    'finalisation ladders of TestState.finalize_normally, '
    'finalize_from_phase_outcome and TestExecutor._execute_test_teardown as '
    'exhaustive decision tables against the statement; that every site that '
    'signals TERMINAL has recorded the terminal outcome; that an '
    'executor-internal exception cannot reach normal aggregation; that the '
    'executor reads "the last phase record" only when this invocation wrote '
    'one; that execute() returns exactly outcome == PASS; that '
    'PhaseDescriptor.name does not dereference func.__name__ unguarded.')
DOES_NOT_DECIDE = (
    'that per-phase outcomes are themselves right (C05) or that every declared '
    'node was visited (C02); behaviour of user callables.')

TE = 'openhtf/core/test_executor.py'
TS = 'openhtf/core/test_state.py'
PE = 'openhtf/core/phase_executor.py'
TD = 'openhtf/core/test_descriptor.py'
PD = 'openhtf/core/phase_descriptor.py'


def _is_test_outcome(expr, member=None):
  """expr denotes a member of openhtf.core.test_record.Outcome (resolved
  through the module's import table, not by text)."""
  d = dotted(expr)
  if d is None:
    return False
  parts = d.split('.')
  if len(parts) < 2 or parts[-2] != 'Outcome':
    return False
  if member is not None and parts[-1] != member:
    return False
  mod = getattr(expr, '_module', None)
  if len(parts) == 2:
    if mod is None:
      return False
    if mod.relpath == 'openhtf/core/test_record.py':
      return True
    return mod.imports.get('Outcome', '').endswith('test_record.Outcome')
  qual = parts[-3]
  if mod is not None and qual in mod.imports:
    return mod.imports[qual].endswith('test_record')
  return qual in ('test_record', 'htf_test_record')


def r1_who(report, repo, rule='C01-R1'):
  report.rule(rule, 'T-WHO: Outcome.PASS is produced only by '
              'TestState.finalize_normally via _finalize; _finalize is called '
              'only by the three finalisers; the record outcome is written only '
              'in _finalize')
  allowed_callers = ('TestState.finalize_normally',
                     'TestState.finalize_from_phase_outcome', 'TestState.abort')
  n = 0
  for m, c in core.call_sites(repo, attr='_finalize'):
    if m.relpath != TS:
      # other classes may have their own _finalize; only flag if argument is a
      # test Outcome
      if not (c.args and _is_test_outcome(c.args[0])):
        continue
    owner = core.owner_qualname(c)
    n += 1
    report.check(owner in allowed_callers, rule, owner, c, c,
                 '_finalize called from %s (allowed finaliser)' % owner,
                 '_finalize called from %s, which is not one of %s' %
                 (owner, allowed_callers))
    if c.args and _is_test_outcome(c.args[0], 'PASS'):
      report.check(owner == 'TestState.finalize_normally', rule, owner, c, c,
                   'Outcome.PASS passed to _finalize only in finalize_normally',
                   'Outcome.PASS produced outside finalize_normally (%s)' % owner)
  report.expect_instances(rule, n, 3, '_finalize call sites')
  # the three finalisers are invoked only by the executor's teardown ladder
  nf = 0
  for name in ('finalize_normally', 'finalize_from_phase_outcome'):
    for m, c in core.call_sites(repo, attr=name):
      if m.relpath == 'openhtf/util/test.py':
        continue
      nf += 1
      owner = core.owner_qualname(c)
      report.check(
          m.relpath == TE and owner == 'TestExecutor._execute_test_teardown',
          rule, owner, c, c,
          '%s called only from TestExecutor._execute_test_teardown' % name,
          '%s is called from %s: a second finalisation path bypasses the '
          'ladder (abort / recorded terminal outcome / normal aggregation) and '
          'can finalise a failed executor as PASS' % (name, owner))
  for m, c in core.call_sites(repo, attr='abort'):
    d = dotted(c.func.value) if isinstance(c.func, ast.Attribute) else ''
    if d and ends_with(d, 'test_state') or ends_with(d or '', 'running_test_state'):
      nf += 1
      owner = core.owner_qualname(c)
      report.check(
          m.relpath == TE and owner == 'TestExecutor._execute_test_teardown',
          rule, owner, c, c,
          'TestState.abort called only from _execute_test_teardown',
          'TestState.abort() is called from %s, outside the teardown ladder' %
          owner)
  report.expect_instances(rule, nf, 1, 'finaliser call sites')
  # writers of <...>.test_record.outcome or of a test-level Outcome value
  nw = 0
  for m, stmt, kind, tgt in core.attr_write_sites(repo, 'outcome'):
    d = dotted(tgt) or ''
    val = getattr(stmt, 'value', None)
    is_rec = ends_with(d, 'test_record.outcome') or \
        (val is not None and _is_test_outcome(val)) or \
        (isinstance(val, ast.Name) and val.id == 'test_outcome')
    if not is_rec:
      continue
    if m.relpath == 'openhtf/util/test.py':
      continue  # unit-test helper module, not on the run path
    nw += 1
    owner = core.owner_qualname(stmt)
    report.check(
        m.relpath == TS and owner == 'TestState._finalize', rule, owner, stmt,
        stmt, 'test record outcome written in TestState._finalize',
        'test record outcome written outside TestState._finalize: %s in %s' %
        (norm(stmt), owner))
  report.expect_instances(rule, nw, 1, 'record outcome writers')


# ---- R2: finalize_normally


def _quantified(expr):
  """any/all(<cmp> for x in <iter>) -> (quant, subject, iter_dotted, negated)"""
  if not (isinstance(expr, ast.Call) and isinstance(expr.func, ast.Name) and
          expr.func.id in ('any', 'all') and len(expr.args) == 1 and
          isinstance(expr.args[0], (ast.GeneratorExp, ast.ListComp))):
    return None
  gen = expr.args[0]
  if len(gen.generators) != 1 or gen.generators[0].ifs:
    return None
  it = gen.generators[0].iter
  elt = gen.elt
  neg = False
  if isinstance(elt, ast.UnaryOp) and isinstance(elt.op, ast.Not):
    neg, elt = True, elt.operand
  subject = None
  if isinstance(elt, ast.Compare) and len(elt.ops) == 1:
    l, r = elt.left, elt.comparators[0]
    if isinstance(elt.ops[0], (ast.NotEq, ast.IsNot)):
      neg = not neg
    elif not isinstance(elt.ops[0], (ast.Eq, ast.Is)):
      return None
    for a, b in ((l, r), (r, l)):
      if isinstance(a, ast.Attribute) and a.attr == 'outcome':
        d = dotted(b) or ''
        p = d.split('.')
        if len(p) >= 2:
          subject = '%s.%s' % (p[-2], p[-1])
  elif isinstance(elt, ast.Attribute):
    subject = '.' + elt.attr
  if subject is None:
    return None
  return expr.func.id, subject, it, neg


def _iter_is(it, suffix, path_steps):
  d = dotted(it)
  if d is None:
    return False
  if ends_with(d, suffix):
    return True
  if isinstance(it, ast.Name):
    rhs = cfgm.Path(path_steps, None).value_of(it.id)
    return rhs is not None and ends_with(dotted(rhs) or '', suffix)
  return False


def r2_finalize_normally(report, repo):
  rule = 'C01-R2'
  report.rule(rule, 'T-DTABLE: finalize_normally: PASS iff no phases or (no '
              'FAIL phase, not all SKIP, no failure diagnosis, no failed '
              'subtest); FAIL/ERROR rows as stated; nothing when already aborted')
  f = repo.func(TS, 'TestState.finalize_normally')
  atoms = ['aborted', 'no_phases', 'any_fail', 'all_skip', 'fail_diag',
           'failed_subtest']

  def classify(expr, steps):
    if lib.is_call_to(expr, name='self._is_aborted'):
      return 'aborted'
    if _iter_is(expr, 'test_record.phases', steps):
      return ('not', 'no_phases')
    q = _quantified(expr)
    if q:
      quant, subj, it, neg = q
      tbl = {
          ('any', 'PhaseOutcome.FAIL', False): 'any_fail',
          ('all', 'PhaseOutcome.FAIL', True): ('not', 'any_fail'),
          ('all', 'PhaseOutcome.SKIP', False): 'all_skip',
          ('any', 'PhaseOutcome.SKIP', True): ('not', 'all_skip'),
          ('any', '.is_failure', False): 'fail_diag',
          ('all', '.is_failure', True): ('not', 'fail_diag'),
          ('any', 'SubtestOutcome.FAIL', False): 'failed_subtest',
          ('all', 'SubtestOutcome.FAIL', True): ('not', 'failed_subtest'),
      }
      k = tbl.get((quant, subj, neg))
      want_iter = {
          'any_fail': 'test_record.phases',
          'all_skip': 'test_record.phases',
          'fail_diag': 'test_record.diagnoses',
          'failed_subtest': 'test_record.subtests'
      }
      if k is not None:
        base = k[1] if isinstance(k, tuple) else k
        if _iter_is(it, want_iter[base], steps):
          return k
    return None

  def consistent(v):
    if v['no_phases'] and (v['any_fail']):
      return False
    if v['any_fail'] and v['all_skip']:
      return False
    return True

  def spec(v, p):
    fin = [c for c in p.calls(attr='_finalize')]
    outs = []
    for c in fin:
      # the outcome handed to _finalize on this path (a constant per branch,
      # or a local / helper result that stands for one)
      a0 = cfgm.path_resolve(p, c.args[0], before_index=p.index_of(
          lambda n_, _c=c: n_.contains(_c))) if c.args else None
      d0 = dotted(a0) if a0 is not None else None
      outs.append(d0.split('.')[-1] if d0 else '?')
    if v['aborted']:
      want = []
    elif v['no_phases']:
      want = ['PASS']
    elif v['any_fail']:
      want = ['FAIL']
    elif v['all_skip']:
      want = ['ERROR']
    elif v['fail_diag'] or v['failed_subtest']:
      want = ['FAIL']
    else:
      want = ['PASS']
    if p.end != 'exit':
      return 'finalize_normally raises on a path'
    if outs != want:
      return 'expected _finalize%s, code does _finalize%s' % (want, outs)
    return None

  lib.decision_table(report, rule, f, atoms, classify, spec, consistent)


# ---- R3: finalize_from_phase_outcome


def r3_from_outcome(report, repo, rule='C01-R3'):
  report.rule(rule, 'T-DTABLE + T-AGREE: finalize_from_phase_outcome: exception '
              '-> ERROR (FAIL iff failure exception), timeout -> TIMEOUT, STOP '
              '-> FAIL; every disjunct of PhaseExecutionOutcome.is_terminal has '
              'a row')
  f = repo.func(TS, 'TestState.finalize_from_phase_outcome')
  params = lib.param_names(f.node)
  if len(params) < 2:
    raise core.AnalysisError('finalize_from_phase_outcome signature changed')
  oc = params[1]
  atoms = ['aborted', 'raised', 'failure_exc', 'timeout', 'stop']

  def classify(expr, steps):
    if lib.is_call_to(expr, name='self._is_aborted'):
      return 'aborted'
    d = dotted(expr)
    if d == oc + '.raised_exception':
      return 'raised'
    if d == oc + '.is_timeout':
      return 'timeout'
    if lib.is_call_to(expr, name='self._outcome_is_failure_exception'):
      return 'failure_exc'
    if isinstance(expr, ast.Compare) and len(expr.ops) == 1 and \
        isinstance(expr.ops[0], (ast.Eq, ast.Is)):
      a, b = dotted(expr.left), dotted(expr.comparators[0])
      for x, y in ((a, b), (b, a)):
        if x == oc + '.phase_result' and ends_with(y or '', 'PhaseResult.STOP'):
          return 'stop'
      for x, y in ((expr.left, expr.comparators[0]),
                   (expr.comparators[0], expr.left)):
        if dotted(x) == oc + '.phase_result' and isinstance(y, ast.Constant) \
            and y.value is None:
          return 'timeout'
    return None

  def consistent(v):
    kinds = [v['raised'], v['timeout'], v['stop']]
    if sum(kinds) != 1:
      return False  # callers pass terminal outcomes: exactly one kind
    if v['failure_exc'] and not v['raised']:
      return False
    return True

  def spec(v, p):
    outs = [dotted(c.args[0]).split('.')[-1] if c.args and dotted(c.args[0])
            else '?' for c in p.calls(attr='_finalize')]
    if v['aborted']:
      want = []
    elif v['raised']:
      want = ['FAIL'] if v['failure_exc'] else ['ERROR']
    elif v['timeout']:
      want = ['TIMEOUT']
    else:
      want = ['FAIL']
    if p.end != 'exit':
      return None  # an exceptional exit is not a finalisation (R6 covers it)
    if outs != want:
      return 'expected _finalize%s, code does _finalize%s' % (want, outs)
    return None

  lib.decision_table(report, rule, f, atoms, classify, spec, consistent)

  # T-AGREE: disjuncts of is_terminal
  it = repo.func(PE, 'PhaseExecutionOutcome.is_terminal')
  rets = [n for n in walk_no_nested(it.node) if isinstance(n, ast.Return)]
  if len(rets) != 1 or rets[0].value is None:
    raise core.AnalysisError('is_terminal is no longer a single return')
  val = rets[0].value
  disj = val.values if isinstance(val, ast.BoolOp) and isinstance(
      val.op, ast.Or) else [val]
  kinds = set()
  for dj in disj:
    d = dotted(dj)
    if d == 'self.raised_exception':
      kinds.add('raised')
    elif d == 'self.is_timeout':
      kinds.add('timeout')
    elif isinstance(dj, ast.Compare) and ends_with(
        dotted(dj.comparators[0]) or '', 'PhaseResult.STOP'):
      kinds.add('stop')
    else:
      kinds.add('unknown:' + norm(dj))
  ladder = set()
  for n in walk_no_nested(f.node):
    k = classify(n, []) if isinstance(n, ast.expr) else None
    if k in ('raised', 'timeout', 'stop'):
      ladder.add(k)
  report.check(
      kinds >= {'raised', 'timeout', 'stop'}, rule,
      'PhaseExecutionOutcome.is_terminal', 'is_terminal-complete', it.node,
      'is_terminal covers exception, timeout and STOP',
      'is_terminal no longer covers %s: such an outcome does not stop the '
      'test and is never finalised as ERROR/TIMEOUT/FAIL (the run can end '
      'PASS)' % sorted({'raised', 'timeout', 'stop'} - kinds))
  # the predicates is_terminal is built from: an exception result is an
  # ExceptionInfo or the ThreadTerminationError of a killed phase (abort /
  # timeout kill); a timeout is the None result.
  def isinstance_classes(q):
    fn = repo.func(PE, q)
    rs = [n for n in walk_no_nested(fn.node) if isinstance(n, ast.Return)]
    if len(rs) != 1 or not (isinstance(rs[0].value, ast.Call) and core.is_name(
        rs[0].value.func, 'isinstance') and len(rs[0].value.args) == 2 and
                            dotted(rs[0].value.args[0]) == 'self.phase_result'):
      return fn, None
    t = rs[0].value.args[1]
    return fn, {(dotted(e) or norm(e)).split('.')[-1]
                for e in (t.elts if isinstance(t, ast.Tuple) else [t])}
  rf, rcls = isinstance_classes('PhaseExecutionOutcome.raised_exception')
  aborted_covered = any(dotted(dj) == 'self.is_aborted' for dj in disj) or (
      rcls is not None and 'ThreadTerminationError' in rcls)
  report.check(rcls is not None and 'ExceptionInfo' in rcls and
               aborted_covered, rule,
               'PhaseExecutionOutcome.raised_exception', 'raised-classes',
               rf.node, 'raised_exception / is_terminal cover ExceptionInfo '
               'and the ThreadTerminationError of a killed phase',
               'an ExceptionInfo or ThreadTerminationError phase result is no '
               'longer terminal (classes recognised: %s): a killed/raising '
               'phase does not stop the test and the ladder finalises PASS' %
               (sorted(rcls) if rcls is not None else 'not an isinstance test'))
  tf = repo.func(PE, 'PhaseExecutionOutcome.is_timeout')
  trs = [n for n in walk_no_nested(tf.node) if isinstance(n, ast.Return)]
  ok = len(trs) == 1 and isinstance(trs[0].value, ast.Compare) and isinstance(
      trs[0].value.ops[0], ast.Is) and dotted(trs[0].value.left) == \
      'self.phase_result' and isinstance(
          trs[0].value.comparators[0], ast.Constant) and \
      trs[0].value.comparators[0].value is None
  report.check(ok, rule, tf.qualname, 'timeout-is-none', tf.node,
               'is_timeout is `phase_result is None`')
  report.check(kinds <= ladder, rule, 'PhaseExecutionOutcome.is_terminal',
               'is_terminal-kinds', it.node,
               'every terminal kind %s has a row in the finalisation ladder' %
               sorted(kinds),
               'terminal kinds %s have no row in finalize_from_phase_outcome: '
               'such an outcome would be left un-finalised' %
               sorted(kinds - ladder))


# ---- R4: _execute_test_teardown


def r4_teardown_ladder(report, repo, rule='C01-R4'):
  report.rule(rule, 'T-DTABLE: _execute_test_teardown: plug tear-down first; '
              'abort -> abort(); terminal last outcome -> '
              'finalize_from_phase_outcome(self._last_outcome); else '
              'finalize_normally; exactly one finalisation')
  f = repo.func(TE, 'TestExecutor._execute_test_teardown')
  atoms = ['abort', 'have_last', 'last_terminal']

  def classify(expr, steps):
    if lib.is_call_to(expr, name='self._abort.is_set'):
      return 'abort'
    d = dotted(expr)
    if d == 'self._last_outcome':
      return 'have_last'
    if d == 'self._last_outcome.is_terminal':
      return 'last_terminal'
    if isinstance(expr, ast.Compare) and len(expr.ops) == 1 and \
        dotted(expr.left) == 'self._last_outcome' and \
        isinstance(expr.comparators[0], ast.Constant) and \
        expr.comparators[0].value is None:
      if isinstance(expr.ops[0], ast.IsNot):
        return 'have_last'
      if isinstance(expr.ops[0], ast.Is):
        return ('not', 'have_last')
    return None

  def consistent(v):
    return not (v['last_terminal'] and not v['have_last'])

  fin_names = ('abort', 'finalize_from_phase_outcome', 'finalize_normally')

  def spec(v, p):
    if p.end != 'exit':
      return None
    seq = []
    for n, _ in p.steps:
      for sub in n.subnodes():
        if isinstance(sub, ast.Call):
          la = last_attr(sub)
          if la == 'tear_down_plugs':
            seq.append('tear_down_plugs')
          elif la in fin_names and (dotted(sub.func) or '').startswith(
              ('self.running_test_state.', 'self.test_state.')):
            seq.append(la)
            if la == 'finalize_from_phase_outcome':
              if not (sub.args and dotted(sub.args[0]) == 'self._last_outcome'):
                return 'finalize_from_phase_outcome not given self._last_outcome'
    if v['abort']:
      want = 'abort'
    elif v['have_last'] and v['last_terminal']:
      want = 'finalize_from_phase_outcome'
    else:
      want = 'finalize_normally'
    if seq != ['tear_down_plugs', want]:
      return 'expected [tear_down_plugs, %s], code does %s' % (want, seq)
    return None

  lib.decision_table(report, rule, f, atoms, classify, spec, consistent)
  # the decision reads the flags when it is made, i.e. after plug tear-down
  g = lib.cfg(f)
  tds = [n for n, c in lib.nodes_with_call(g, attr='tear_down_plugs')]
  reads = [n for n, c in lib.nodes_with_call(g, name='self._abort.is_set')]
  reads += [n for n in g.nodes for sub in n.subnodes()
            if isinstance(sub, ast.Attribute) and isinstance(sub.ctx, ast.Load)
            and dotted(sub) == 'self._last_outcome']
  ok = bool(tds) and bool(reads) and all(
      g.dominated_by(r, lambda n: any(n is t for t in tds)) for r in reads)
  report.check(ok, rule, f.qualname, 'flags-read-after-teardown', f.node,
               'abort flag and last outcome are read after plug tear-down '
               '(an abort arriving during tearDown still yields ABORTED)',
               'the abort flag / last outcome is read before plug tear-down '
               'and the stale value decides the finalisation: an abort that '
               'arrives while tearDown runs is finalised as a normal run '
               '(PASS possible)')


# ---- R5: terminal signals are recorded


def r5_terminal_recorded(report, repo):
  rule = 'C01-R5'
  report.rule(rule, 'T-DOM/T-SIB: every `return _ExecutorReturn.TERMINAL` / '
              '`return True` (terminal signal) in TestExecutor is dominated by '
              'an assignment of self._last_outcome, by "already set", or by an '
              'abort-flag test (ABORTED is decided by the durable flag)')
  n = 0
  assigning_helpers = set()
  # helper summary: methods returning True only after assigning _last_outcome
  for name in ('_initialize_plugs',):
    f = repo.func(TE, 'TestExecutor.' + name)
    g = lib.cfg(f)
    okh = True
    for node in g.nodes:
      if node.kind == 'stmt' and isinstance(node.ast, ast.Return) and \
          isinstance(node.ast.value, ast.Constant) and node.ast.value.value is True:
        n += 1
        dom = g.dominated_by(
            node, lambda x: x.kind == 'stmt' and any(
                dotted(t) == 'self._last_outcome'
                for t in core.assigned_targets(x.ast)))
        okh = okh and dom
        report.check(dom, rule, f.qualname, node.ast, node.ast,
                     '%s: `return True` dominated by assignment of '
                     'self._last_outcome' % f.qualname)
    if okh:
      assigning_helpers.add('self.' + name)

  def assigns_last(x):
    return x.kind == 'stmt' and x.ast is not None and any(
        dotted(t) == 'self._last_outcome' for t in core.assigned_targets(x.ast))

  def skip_edge(src, l, dst):
    if src.kind != 'test':
      return False
    e = src.ast
    if l == 'T':
      if dotted(e) == 'self._last_outcome':
        return True  # already set
      if isinstance(e, ast.Call) and call_name(e) in (
          'self._abort.is_set', 'self._full_abort.is_set'):
        return True  # abort decides the outcome
      if isinstance(e, ast.Call) and call_name(e) in assigning_helpers:
        return True  # callee recorded it (summary checked above)
    return False

  exceptions = {
      'TestExecutor._execute_node':
          'unhandled node type: unreachable while C02-R1 (exhaustive dispatch) '
          'holds'
  }
  for f in repo.methods(TE, 'TestExecutor'):
    g = lib.cfg(f)
    for node in g.nodes:
      if not (node.kind == 'stmt' and isinstance(node.ast, ast.Return)):
        continue
      v = node.ast.value
      is_term = ends_with(dotted(v) or '', '_ExecutorReturn.TERMINAL')
      is_true = (f.name in ('_execute_test_start',) and
                 isinstance(v, ast.Constant) and v.value is True)
      if not (is_term or is_true):
        continue
      n += 1
      if f.qualname in exceptions:
        report.info(rule, node.ast, 'exception: %s' % exceptions[f.qualname])
        continue
      reachable = any(
          x is node
          for x in g.reach([g.entry], avoid=assigns_last, avoid_edge=skip_edge))
      report.check(not reachable, rule, f.qualname, node.ast, node.ast,
                   '%s: terminal signal `%s` only after the terminal outcome '
                   'was recorded (or abort flag set)' %
                   (f.qualname, norm(node.ast)),
                   '%s: `%s` is reachable without self._last_outcome having '
                   'been recorded: the run would be finalised by normal '
                   'aggregation (possible false PASS)' %
                   (f.qualname, norm(node.ast)))
  report.expect_instances(rule, n, 7, 'terminal signal sites')

  # only terminal outcomes may be parked in _last_outcome (a parked
  # non-terminal one makes the `if not self._last_outcome` guards drop the
  # real terminal outcome later)
  nl = 0
  for f in repo.methods(TE, 'TestExecutor'):
    g = lib.cfg(f)
    for node in g.nodes:
      if not assigns_last(node) or not isinstance(node.ast, ast.Assign):
        continue
      v = node.ast.value
      if isinstance(v, ast.Constant) and v.value is None:
        continue
      nl += 1
      ok = isinstance(v, ast.Call) and last_attr(v) == \
          'PhaseExecutionOutcome' and v.args and isinstance(
              v.args[0], ast.Call) and last_attr(v.args[0]) == 'ExceptionInfo'
      if not ok and isinstance(v, ast.Name):
        ok = g.dominated_by_edge(
            node, lambda s, l, d, _v=v.id: s.kind == 'test' and l == 'T' and
            dotted(s.ast) == _v + '.is_terminal')
      report.check(
          ok, rule, f.qualname, 'last-outcome-not-terminal:' + norm(node.ast),
          node.ast, '%s: %s stores an outcome known to be terminal' %
          (f.qualname, norm(node.ast)),
          '%s stores %s in self._last_outcome without it being known '
          'terminal: a non-terminal outcome parked there makes every later '
          '`if not self._last_outcome` guard discard the real terminal '
          'outcome, and the run is finalised by normal aggregation' %
          (f.qualname, norm(v)))
  report.expect_instances(rule, nl, 4, '_last_outcome assignments')

  # _execute_test_diagnoser: exception handler must record when not terminal
  f = repo.func(TE, 'TestExecutor._execute_test_diagnoser')
  g = lib.cfg(f)
  handlers = [x for x in g.nodes if x.kind == 'handler']
  report.expect_instances(rule, len(handlers), 1, 'diagnoser handlers')
  for h in handlers:
    # every path handler -> exit passes an assignment or the T edge of
    # `_last_outcome.is_terminal`
    def term_edge(src, l, dst):
      return src.kind == 'test' and l == 'T' and \
          dotted(src.ast) == 'self._last_outcome.is_terminal'
    bad = any(g.is_any_exit(x) for x in g.reach([h], avoid=assigns_last,
                                                avoid_edge=term_edge))
    report.check(not bad, rule, f.qualname, 'handler', h.ast,
                 'test diagnoser exception recorded as terminal outcome unless '
                 'one is already recorded')


# ---- R6: executor-internal errors


def r6_internal_error(report, repo, rule='C01-R6'):
  report.rule(rule, 'T-ASSIGN on the exceptional exit: an exception escaping '
              'node execution in TestExecutor._thread_proc must leave a terminal '
              '_last_outcome before _execute_test_teardown finalises')
  f = repo.func(TE, 'TestExecutor._thread_proc')
  tries = [n for n in walk_no_nested(f.node) if isinstance(n, ast.Try) and
           any(lib.is_call_to(c, name='self._execute_test_teardown')
               for s in n.finalbody for c in ast.walk(s))]
  if len(tries) != 1:
    raise core.AnalysisError(
        'anchor: try/finally running _execute_test_teardown in _thread_proc')
  t = tries[0]
  catch_all = [h for h in t.handlers if cfgm._is_catch_all(h)]  # pylint: disable=protected-access
  g = lib.cfg(f)
  if not catch_all:
    report.violation(rule, f.qualname, 'no catch-all handler', t,
                     'no catch-all handler records the executor error before '
                     'the finally block finalises the test')
    return

  def assigns_last(x):
    return x.kind == 'stmt' and x.ast is not None and any(
        dotted(tg) == 'self._last_outcome'
        for tg in core.assigned_targets(x.ast))

  def term_edge(src, l, dst):
    return src.kind == 'test' and l == 'T' and \
        dotted(src.ast) == 'self._last_outcome.is_terminal' and \
        g.dominated_by_edge(src, lambda a, l2, b: a.kind == 'test' and (
            (dotted(a.ast) == 'self._last_outcome' and l2 == 'T') or
            (isinstance(a.ast, ast.Compare) and
             dotted(a.ast.left) == 'self._last_outcome' and
             l2 == ('T' if isinstance(a.ast.ops[0], ast.IsNot) else 'F'))))

  for h in catch_all:
    hn = [x for x in g.nodes if x.kind == 'handler' and x.ast is h]
    bad = False
    for x in hn:
      if any(y.kind == 'finally' for y in g.reach(
          [x], avoid=assigns_last,
          avoid_edge=lambda a, l, b: l == 'exc' or term_edge(a, l, b))):
        bad = True
    report.check(
        not bad, rule, f.qualname, 'except-handler:no-terminal-outcome', h,
        'executor exception handler records a terminal _last_outcome on every '
        'path before teardown/finalisation',
        'the catch-all handler of _thread_proc reaches the finally block '
        '(_execute_test_teardown) without a terminal self._last_outcome: an '
        'executor-internal exception is finalised by normal aggregation '
        '(false PASS when nothing failed before)')


# ---- R7: positional read of the last phase record


def _is_phases(expr, f):
  d = dotted(expr)
  if d and ends_with(d, 'test_record.phases'):
    return True
  if isinstance(expr, ast.Name):
    defs = lib.resolve_local(f, expr.id)
    return bool(defs) and all(
        ends_with(dotted(x) or '', 'test_record.phases') for x in defs)
  return False


def _is_len_phases(expr, f):
  return isinstance(expr, ast.Call) and isinstance(expr.func, ast.Name) and \
      expr.func.id == 'len' and len(expr.args) == 1 and _is_phases(expr.args[0], f)


def _is_count_guard(expr, f, repo, depth=0):
  """A test that witnesses 'this invocation wrote a phase record'."""
  if isinstance(expr, ast.Compare) and len(expr.ops) == 1:
    l, r, op = expr.left, expr.comparators[0], expr.ops[0]
    # len(phases) > prior | len(phases) != prior: the true branch is the
    # witness; prior >= len(phases) | len(phases) == prior: the false branch
    pol = 'T'
    if _is_len_phases(l, f) and isinstance(op, (ast.Gt, ast.NotEq)):
      o = r
    elif _is_len_phases(r, f) and isinstance(op, (ast.Lt, ast.NotEq)):
      o = l
    elif _is_len_phases(r, f) and isinstance(op, (ast.GtE, ast.Eq)):
      o, pol = l, 'F'
    elif _is_len_phases(l, f) and isinstance(op, (ast.LtE, ast.Eq)):
      o, pol = r, 'F'
    else:
      return False
    if isinstance(o, ast.Name):
      defs = lib.resolve_local(f, o.id)
      if not (len(defs) == 1 and _is_len_phases(defs[0], f)):
        return False
      # the prior count is taken before the phase is invoked
      g = lib.cfg(f)
      dn = [n for n in g.nodes if n.kind == 'stmt' and isinstance(
          n.ast, ast.Assign) and n.ast.value is defs[0]]
      inv = [n for n, c in lib.nodes_with_call(g) if last_attr(c) in (
          'execute_phase', '_execute_phase_once')]
      return pol if bool(dn) and bool(inv) and all(
          g.dominated_by(i, lambda x: x is dn[0]) for i in inv) else False
    return False
  if isinstance(expr, ast.Name) and depth < 2:
    defs = lib.resolve_local(f, expr.id)
    if defs:
      pols = {_is_count_guard(x, f, repo, depth + 1) for x in defs}
      return pols.pop() if len(pols) == 1 else False
    if expr.id in lib.param_names(f.node):
      # every caller in the same module must pass such a guard
      idx = lib.param_names(f.node).index(expr.id)
      sites = []
      for g in repo.module(f.path).all_funcs():
        for c in core.calls_in(g.node, attr=f.name):
          arg = core.get_kw(c, expr.id, idx - 1 if f.cls is not None else idx)
          sites.append((g, arg))
      pols = {(_is_count_guard(a, g, repo, depth + 1) if a is not None
               else False) for g, a in sites}
      return pols.pop() if sites and len(pols) == 1 else False
  return False


def r7_last_record(report, repo, rule='C01-R7'):
  report.rule(rule, 'T-DOM: positional read of the last phase record '
              '(phases[-1], phases[len(..)-1]) in the executors only on paths '
              'guarded by a record-count witness that this invocation wrote a '
              'record')
  n = 0
  for rel in (TE, PE):
    for f in repo.module(rel).all_funcs():
      for sub in walk_no_nested(f.node):
        if not (isinstance(sub, ast.Subscript) and _is_phases(sub.value, f)):
          continue
        idx = sub.slice
        positional_last = (
            isinstance(idx, ast.UnaryOp) and isinstance(idx.op, ast.USub)) or (
                isinstance(idx, ast.BinOp) and isinstance(idx.op, ast.Sub) and
                _is_len_phases(idx.left, f))
        if not positional_last:
          continue
        n += 1
        g = lib.cfg(f)
        ok = True
        for node in g.nodes_of(sub):
          def guard_edge(src, l, dst, _f=f):
            return src.kind == 'test' and \
                _is_count_guard(src.ast, _f, repo) == l
          if not g.dominated_by_edge(node, guard_edge):
            ok = False
        report.check(
            ok, rule, f.qualname, sub, sub,
            '%s: read of last phase record guarded by a record-count witness' %
            f.qualname,
            '%s reads %s without knowing that this invocation wrote a phase '
            'record (a falsy run_if writes none): IndexError on an empty list '
            'kills the executor / another phase\'s record is consulted' %
            (f.qualname, norm(sub)))
  report.expect_instances(rule, n, 2, 'positional last-record reads')


def r8_execute_returns_pass(report, repo, rule='C01-R8'):
  report.rule(rule, 'T-AGREE: Test.execute returns <final record>.outcome == '
              'Outcome.PASS')
  f = repo.func(TD, 'Test.execute')
  rets = [n for n in walk_no_nested(f.node) if isinstance(n, ast.Return)]
  report.expect_instances(rule, len(rets), 1, 'return statements')
  for r in rets:
    v = r.value
    ok = False
    if isinstance(v, ast.Compare) and len(v.ops) == 1 and isinstance(
        v.ops[0], (ast.Eq, ast.Is)):
      a, b = dotted(v.left) or '', dotted(v.comparators[0]) or ''
      for x, y in ((a, b), (b, a)):
        if ends_with(x, 'test_record.outcome') and ends_with(y, 'Outcome.PASS'):
          ok = True
    report.check(ok, rule, f.qualname, r, r,
                 'execute() returns record.outcome == Outcome.PASS',
                 'execute() returns %s, not the comparison of the record '
                 'outcome with Outcome.PASS' % norm(r))


def r9_name_guard(report, repo):
  rule = 'C01-R9'
  report.rule(rule, 'belief contradiction: PhaseDescriptor dereferences '
              'func.__name__ only under a guard (its sibling func_location '
              'guards the same attribute)')
  n = 0
  cls = repo.cls(PD, 'PhaseDescriptor')
  for f in repo.module(PD).all_funcs():
    if f.cls is not cls:
      continue
    for sub in walk_no_nested(f.node):
      if isinstance(sub, ast.Attribute) and sub.attr == '__name__' and \
          dotted(sub.value) == 'self.func':
        n += 1
        sh = lib.shielded_by_try(sub, ('AttributeError', 'Exception',
                                       'BaseException', None))
        g = lib.cfg(f)
        guarded = sh is not None
        if not guarded:
          def has_edge(src, l, dst):
            return src.kind == 'test' and l == 'T' and isinstance(
                src.ast, ast.Call) and call_name(src.ast) == 'hasattr'
          guarded = all(g.dominated_by_edge(x, has_edge)
                        for x in g.nodes_of(sub))
        report.check(
            guarded, rule, f.qualname, sub, sub,
            'func.__name__ read under a guard',
            '%s reads self.func.__name__ unguarded: a callable without '
            '__name__ (functools.partial, callable object) raises in the '
            'executor thread and the run is finalised as PASS' % f.qualname)
  # the guarded sibling must still exist (else the rule has nothing to compare)
  getattr_uses = [
      c for f in repo.module(PD).all_funcs() if f.cls is cls
      for c in core.calls_in(f.node, name='getattr')
      if len(c.args) >= 2 and core.const_str(c.args[1]) == '__name__'
  ]
  report.expect_instances(rule, n + len(getattr_uses), 1,
                          'uses of func.__name__ in PhaseDescriptor')
  if n == 0:
    report.ok(rule, cls, 'PhaseDescriptor obtains the function name only via '
              'getattr with default (%d site(s))' % len(getattr_uses))


def run(report, repo):
  report.guard(r1_who, report, repo)
  report.guard(r2_finalize_normally, report, repo)
  report.guard(r3_from_outcome, report, repo)
  report.guard(r4_teardown_ladder, report, repo)
  report.guard(r5_terminal_recorded, report, repo)
  report.guard(r6_internal_error, report, repo)
  report.guard(r7_last_record, report, repo)
  report.guard(r8_execute_returns_pass, report, repo)
  report.guard(r9_name_guard, report, repo)
  # an invalid phase return value must become ERROR (shared with C05-R5)
  from sa.rules import c05  # pylint: disable=g-import-not-at-top
  report.guard(c05.r5_thread_proc, report, repo, rule='C01-R10')
  # UNSET measurements pass only while allow_unset_measurements (shared C06-R7)
  from sa.rules import c06  # pylint: disable=g-import-not-at-top
  report.guard(c06.r7_measurements_pass, report, repo, rule='C01-R11')
  # a failure diagnosis gives FAIL and branches/checkpoints see every
  # diagnosis: each diagnosis reaches the store and the record (shared C02-R7d)
  from sa.rules import c02  # pylint: disable=g-import-not-at-top
  report.guard(c02.r7_diagnoses, report, repo, rule='C01-R12')
  from sa.rules import extra4  # pylint: disable=g-import-not-at-top
  report.guard(extra4.with_args_keeps_validators, report, repo, 'C01-R13')
  report.guard(c05.r4_run_if, report, repo, rule='C01-R14')
  from sa.rules import extra5  # pylint: disable=g-import-not-at-top
  report.guard(extra5.always_fail_on_every_diagnosis, report, repo, 'C01-R15')
  from sa.rules import extra5 as _e6  # pylint: disable=g-import-not-at-top
  report.guard(_e6.monitored_phase_returns_result, report, repo, 'C01-R16')
  report.guard(_e6.first_terminal_outcome_wins, report, repo, 'C01-R17')
