"""C02 - node execution follows docs/event_sequence.md."""

import ast

from sa import cfg as cfgm
from sa import core, lib
from sa.core import call_name, dotted, last_attr, norm, walk_no_nested
from sa.lib import ends_with

DECIDES = (
    'exhaustive and correctly ordered isinstance dispatch over every PhaseNode '
    'subclass in the repository; the failed-subtest skip predicate at every '
    'node kind as a decision table (not in_teardown and record and is_fail); '
    'the skeleton of each handler as decision tables: abortable sequence stops '
    'at first non-CONTINUE, teardown sequence never stops early, phase / '
    'checkpoint / subtest / branch handlers (TERMINAL, FAIL_SUBTEST confinement, '
    'stop_on_first_failure override, one branch / checkpoint / subtest record '
    'per evaluation, none when skipped); ConditionOn lookup table and the '
    'PhaseFailureCheckpoint LAST/SUBTEST/ALL selection.')
DOES_NOT_DECIDE = (
    'the exact multiset/order of executed bodies for every tree (input/output '
    'relation of a recursive interpreter over unbounded trees); an edit inside '
    'a handler that keeps all these shapes yet changes which nested nodes are '
    'visited.')

TE = 'openhtf/core/test_executor.py'
PE = 'openhtf/core/phase_executor.py'
PB = 'openhtf/core/phase_branches.py'
PN = 'openhtf/core/phase_nodes.py'


def _ret_name(p):
  r = p.last_return()
  if r is None or not r.value:
    return None
  # a returned local stands for what it was last bound to on this path
  v = cfgm.path_resolve(p, r.value, before_index=len(p.steps) - 1)
  return dotted(v) or norm(v)


def skip_classify(rec='subtest_rec', extra=None):
  """Atoms in_teardown / rec / is_fail (plus rule-specific extras)."""

  def classify(expr, steps):
    d = dotted(expr)
    if d == 'in_teardown':
      return 'in_teardown'
    if d == rec:
      return 'rec'
    if d == rec + '.is_fail':
      return 'is_fail'
    if isinstance(expr, ast.Compare) and len(expr.ops) == 1 and \
        dotted(expr.left) == rec and isinstance(
            expr.comparators[0], ast.Constant) and \
        expr.comparators[0].value is None:
      if isinstance(expr.ops[0], ast.IsNot):
        return 'rec'
      if isinstance(expr.ops[0], ast.Is):
        return ('not', 'rec')
    if extra is not None:
      return extra(expr, steps)
    return None

  return classify


def r1_dispatch(report, repo):
  rule = 'C02-R1'
  report.rule(rule, 'T-AGREE: every concrete PhaseNode subclass is accepted by '
              'an isinstance test in TestExecutor._execute_node, subclass tests '
              'precede superclass tests, each branch calls its handler')
  root = repo.cls(PN, 'PhaseNode')
  subs = core.subclasses_of(repo, root)
  report.expect_instances(rule, len(subs), 8, 'PhaseNode subclasses')
  f = repo.func(TE, 'TestExecutor._execute_node')
  tests = []  # (order, ClassDef, handler name)
  g = lib.cfg(f)
  par = lib.param_names(f.node)[1]
  tnodes = [n for n in g.nodes if n.kind == 'test' and isinstance(
      n.ast, ast.Call) and call_name(n.ast) == 'isinstance' and
            len(n.ast.args) == 2 and dotted(n.ast.args[0]) == par]

  def rank(t):
    # number of dispatch tests whose failing edge dominates this one
    return sum(1 for o in tnodes if o is not t and g.dominated_by_edge(
        t, lambda s_, l, d, _o=o: s_ is _o and l == 'F'))
  for t in sorted(tnodes, key=rank):
    c = core._resolve_base(repo, f.module, t.ast.args[1])  # pylint: disable=protected-access
    if c is None:
      raise core.AnalysisError('cannot resolve isinstance class %s' %
                               norm(t.ast.args[1]))
    handler = None
    first = t.succ('T')
    taken = [first] + g.reach([first], avoid=lambda x: any(x is o
                                                            for o in tnodes),
                              avoid_edge=lambda a_, l, b_: l == 'exc')
    rets = [x for x in taken if isinstance(x.ast, ast.Return) and isinstance(
        x.ast.value, ast.Call)]
    if len(rets) == 1:
      handler = last_attr(rets[0].ast.value)
      fexpr = rets[0].ast.value.func
      if isinstance(fexpr, ast.Name):
        # a bound method held in a local: what it stands for at this return
        vals = lib.value_exprs(g, rets[0], fexpr)
        if len(vals) == 1 and isinstance(vals[0], ast.Attribute):
          handler = vals[0].attr
      args = [dotted(a_) for a_ in rets[0].ast.value.args]
      report.check(args == lib.param_names(f.node)[1:], rule, f.qualname,
                   rets[0].ast, rets[0].ast,
                   'dispatch to %s passes (node, subtest_rec, in_teardown) '
                   'unchanged' % handler)
    tests.append((len(tests), c, handler))
  report.expect_instances(rule, len(tests), 3, 'isinstance dispatch branches')
  expected_handlers = {
      'Subtest': '_execute_subtest',
      'BranchSequence': '_execute_phase_branch',
      'PhaseSequence': '_execute_sequence',
      'PhaseGroup': '_execute_phase_group',
      'PhaseDescriptor': '_execute_phase',
      'Checkpoint': '_execute_checkpoint',
  }
  for c in subs:
    if c._module.relpath.startswith('openhtf/util/test'):
      continue
    chain = [c] + core.ancestors_of(repo, c)
    hit = [t for t in tests if t[1] in chain]
    if not hit:
      if core.is_abstract_class(c):
        report.info(rule, c, 'abstract node class %s has no branch (fine)' %
                    c.name)
        continue
      report.violation(rule, 'TestExecutor._execute_node',
                       'unhandled:' + c.name, c,
                       'node class %s has no isinstance branch in '
                       '_execute_node: such nodes make the run TERMINAL '
                       'without a recorded outcome' % c.name)
      continue
    first = min(hit, key=lambda t: t[0])
    # the first matching branch must be the most specific tested class
    most_specific = [t for t in hit if chain.index(t[1]) == min(
        chain.index(x[1]) for x in hit)][0]
    ok = first is most_specific
    want = expected_handlers.get(most_specific[1].name)
    ok2 = want is None or first[2] == want
    report.check(
        ok and ok2, rule, 'TestExecutor._execute_node', 'order:' + c.name, c,
        '%s dispatched to %s (most specific test first)' % (c.name, first[2]),
        '%s is caught by the isinstance test for %s (-> %s) before the test '
        'for %s (-> %s): wrong handler' %
        (c.name, first[1].name, first[2], most_specific[1].name,
         most_specific[2]))


def _phase_like_table(report, repo, rule, fname, exec_attr, skip_attr,
                      with_sof):
  f = repo.func(TE, 'TestExecutor.' + fname)
  atoms = ['in_teardown', 'rec', 'is_fail', 'terminal', 'have_last',
           'fail_subtest']
  if with_sof:
    atoms += ['sof_opt', 'sof_conf', 'recorded', 'last_fail']
  # the local holding the executor's outcome for this node
  oc = lib.local_from(f, lib.calls(attr=exec_attr), 'outcome')

  def extra(expr, steps):
    d = dotted(expr)
    if d == oc + '.is_terminal':
      return 'terminal'
    if d == oc + '.is_fail_subtest':
      return 'fail_subtest'
    if d == 'self._last_outcome':
      return 'have_last'
    if d and d.endswith('test_options.stop_on_first_failure'):
      return 'sof_opt'
    if d == 'CONF.stop_on_first_failure':
      return 'sof_conf'
    if isinstance(expr, ast.Compare) and len(expr.ops) == 1:
      l, r = expr.left, expr.comparators[0]
      if isinstance(expr.ops[0], (ast.Eq, ast.Is, ast.NotEq, ast.IsNot)) and \
          ends_with(dotted(r) or '', 'PhaseOutcome.FAIL') and isinstance(
              l, ast.Attribute) and l.attr == 'outcome':
        return 'last_fail' if isinstance(expr.ops[0], (ast.Eq, ast.Is)) else (
            'not', 'last_fail')
      if isinstance(l, ast.Call) and call_name(l) == 'len' and \
          isinstance(expr.ops[0], ast.Gt):
        return 'recorded'
      if isinstance(r, ast.Call) and call_name(r) == 'len' and \
          isinstance(expr.ops[0], ast.GtE):
        return ('not', 'recorded')  # canonical form of len(...) <= prior
    return None

  classify = skip_classify(extra=extra)

  def consistent(v):
    if v['is_fail'] and not v['rec']:
      return False
    return True

  def spec(v, p):
    if p.end != 'exit':
      rs = p.raised()
      want_raise = (not (not v['in_teardown'] and v['rec'] and v['is_fail']) and
                    not v['terminal'] and v['fail_subtest'] and not v['rec'])
      if rs is not None and not want_raise:
        return 'unexpected raise %s' % norm(rs)
      return None
    skip = (not v['in_teardown']) and v['rec'] and v['is_fail']
    n_exec = len(p.calls(attr=exec_attr))
    n_skip = len(p.calls(attr=skip_attr))
    ret = _ret_name(p)
    if skip:
      if (n_exec, n_skip) != (0, 1):
        return ('skip-row: failed subtest outside teardown must record a skip '
                'and not execute (exec=%d skip=%d)' % (n_exec, n_skip))
      if not ends_with(ret or '', '_ExecutorReturn.CONTINUE'):
        return 'skip-row: skipped node must return CONTINUE, returns %s' % ret
      return None
    if (n_exec, n_skip) != (1, 0):
      return ('run-row: node must be executed exactly once and not skipped '
              '(exec=%d skip=%d)' % (n_exec, n_skip))
    sub_assign = [
        n for n, _ in p.steps
        if n.kind == 'stmt' and isinstance(n.ast, ast.Assign) and any(
            dotted(t) == 'subtest_rec.outcome' for t in n.ast.targets)
    ]
    if with_sof:
      over = []
      for i_, (n, _) in enumerate(p.steps):
        if n.kind == 'stmt' and isinstance(n.ast, ast.Assign) and \
            len(n.ast.targets) == 1 and dotted(n.ast.targets[0]) == oc:
          val = cfgm.path_resolve(p, n.ast.value, before_index=i_)
          if isinstance(val, ast.Call) and last_attr(val) == \
              'PhaseExecutionOutcome' and val.args and ends_with(
                  dotted(val.args[0]) or '', 'PhaseResult.STOP'):
            over.append(n)
      want_over = (v['sof_opt'] or v['sof_conf']) and v['recorded'] and \
          v['last_fail']
      if bool(over) != bool(want_over):
        return ('stop_on_first_failure-row: STOP override %s but expected %s' %
                (bool(over), bool(want_over)))
    if v['terminal']:
      if not ends_with(ret or '', '_ExecutorReturn.TERMINAL'):
        return 'terminal-row: terminal outcome must return TERMINAL, returns %s' % ret
      if sub_assign:
        return 'terminal-row: subtest outcome assigned on a terminal path'
      return None
    if not ends_with(ret or '', '_ExecutorReturn.CONTINUE'):
      return 'continue-row: non-terminal outcome must return CONTINUE, returns %s' % ret
    if v['fail_subtest']:
      if not v['rec']:
        return 'fail-subtest-row: FAIL_SUBTEST without a subtest must raise'
      ok = len(sub_assign) == 1 and ends_with(
          dotted(sub_assign[0].ast.value) or '', 'SubtestOutcome.FAIL')
      if not ok:
        return ('fail-subtest-row: FAIL_SUBTEST must mark the current subtest '
                'record FAIL')
    elif sub_assign:
      return 'continue-row: subtest outcome assigned without FAIL_SUBTEST'
    return None

  lib.decision_table(report, rule, f, atoms, classify, spec, consistent)


def r2_r4_phase_and_checkpoint(report, repo):
  report.rule('C02-R2', 'T-SIB/T-DTABLE: the failed-subtest skip predicate is '
              '(not in_teardown and record and is_fail) at every node kind')
  report.rule('C02-R4', 'T-DTABLE: phase/checkpoint handlers: TERMINAL iff '
              'terminal outcome; FAIL_SUBTEST marks the current subtest FAIL and '
              'returns CONTINUE (raises without a subtest); stop_on_first_failure '
              'override iff a record was written and it is FAIL')
  _phase_like_table(report, repo, 'C02-R4', '_execute_phase', 'execute_phase',
                    'skip_phase', True)
  _phase_like_table(report, repo, 'C02-R4', '_execute_checkpoint',
                    'evaluate_checkpoint', 'skip_checkpoint', False)


def r3_sequences(report, repo, rule='C02-R3', only_abortable=False):
  report.rule(rule, 'T-DTABLE: abortable sequence returns at the first node '
              'whose result != CONTINUE (else CONTINUE) and checks the abort '
              'flag before every node; teardown sequence accumulates with '
              '_more_critical and never returns early on a node result')
  f = repo.func(TE, 'TestExecutor._execute_abortable_sequence')

  def classify(expr, steps):
    if lib.is_call_to(expr, name='self._abort.is_set'):
      return 'abort'
    if isinstance(expr, ast.Compare) and len(expr.ops) == 1 and ends_with(
        dotted(expr.comparators[0]) or '', '_ExecutorReturn.CONTINUE'):
      if isinstance(expr.ops[0], (ast.NotEq, ast.IsNot)):
        return 'nonc'
      if isinstance(expr.ops[0], (ast.Eq, ast.Is)):
        return ('not', 'nonc')
    return None

  fors = [n for n in walk_no_nested(f.node) if isinstance(n, ast.For)]
  report.expect_instances(rule, len(fors), 1, 'node loops')
  report.check(ends_with(dotted(fors[0].iter) or '', 'nodes') and
               dotted(fors[0].iter).split('.')[0] == lib.param_names(f.node)[1],
               rule, f.qualname, fors[0].iter, fors[0],
               'loop iterates <sequence>.nodes directly (order preserved)')

  def spec(v, p):
    if p.end != 'exit':
      return None
    n_exec = len(p.calls(name='self._execute_node'))
    ret = _ret_name(p)
    iterated = any(l == 'iter' for n, l in p.steps if n.kind == 'for')
    if not iterated:
      if n_exec or not ends_with(ret or '', '_ExecutorReturn.CONTINUE'):
        return 'empty-row: empty sequence must return CONTINUE'
      return None
    if v['abort']:
      if n_exec:
        return 'abort-row: node executed although the abort flag is set'
      if not ends_with(ret or '', '_ExecutorReturn.TERMINAL'):
        return 'abort-row: must return TERMINAL'
      return None
    if n_exec != 1:
      return 'run-row: node not executed exactly once per iteration'
    c = p.calls(name='self._execute_node')[0]
    if not (len(c.args) == 3 and dotted(c.args[1]) == lib.param_names(
        f.node)[2] and isinstance(c.args[2], ast.Constant) and
            c.args[2].value is False):
      return 'run-row: _execute_node not called with (node, subtest_rec, False)'
    if v['nonc']:
      # must return the node's own result
      rv = p.last_return().value
      src = p.value_of(rv.id) if isinstance(rv, ast.Name) else rv
      if not (isinstance(src, ast.Call) and
              call_name(src) == 'self._execute_node'):
        return 'stop-row: first non-CONTINUE result must be returned as is'
      return None
    if not ends_with(ret or '', '_ExecutorReturn.CONTINUE'):
      return 'continue-row: all-CONTINUE sequence must return CONTINUE'
    return None

  lib.decision_table(report, rule, f, ['abort', 'nonc'], classify, spec)
  if only_abortable:
    return

  # teardown sequence
  f = repo.func(TE, 'TestExecutor._execute_teardown_sequence')

  def cl_td(expr, steps):
    if lib.is_call_to(expr, name='self._full_abort.is_set'):
      return 'full_abort'
    return None

  def sp_td(v, p):
    if p.end != 'exit':
      return None
    iterated = any(l == 'iter' for n, l in p.steps if n.kind == 'for')
    n_exec = len(p.calls(name='self._execute_node'))
    if not iterated:
      return None if n_exec == 0 else 'empty-row: node executed without one'
    if v['full_abort']:
      if n_exec:
        return 'full-abort-row: a teardown node runs after the second abort'
      if not ends_with(_ret_name(p) or '', '_ExecutorReturn.TERMINAL'):
        return 'full-abort-row: must return TERMINAL'
      return None
    if n_exec != 1:
      return 'run-row: every teardown node is executed exactly once'
    return None

  lib.decision_table(report, rule, f, ['full_abort'], cl_td, sp_td)
  fors = [n for n in walk_no_nested(f.node) if isinstance(n, ast.For)]
  report.expect_instances(rule, len(fors), 1, 'teardown node loops')
  loop = fors[0]
  early = [n for n in walk_no_nested(loop)
           if isinstance(n, (ast.Return, ast.Break))]
  g = lib.cfg(f)
  for e in early:
    ok = all(
        g.dominated_by_edge(
            x, lambda s, l, d: s.kind == 'test' and l == 'T' and isinstance(
                s.ast, ast.Call) and call_name(s.ast) == 'self._full_abort.is_set')
        for x in g.nodes_of(e))
    report.check(ok, rule, f.qualname, e, e,
                 'teardown loop left early only under the full-abort flag',
                 'teardown loop can be left early (%s) without a second abort: '
                 'remaining teardown nodes would not run' % norm(e))
  calls = core.calls_in(loop, name='self._execute_node')
  report.expect_instances(rule, len(calls), 1, 'teardown _execute_node calls')
  c = calls[0]
  stmt = core.enclosing_stmt(c)
  ok = isinstance(stmt, ast.Assign) and isinstance(stmt.value, ast.Call) and \
      call_name(stmt.value) == '_more_critical' and \
      dotted(stmt.targets[0]) in [dotted(a) for a in stmt.value.args] and \
      any(a is c for a in stmt.value.args)
  report.check(ok, rule, f.qualname, stmt, stmt,
               'teardown result accumulated with _more_critical(ret, node result)',
               'teardown results are not accumulated with _more_critical: a '
               'terminal teardown node would be lost or would hide later ones')
  report.check(len(c.args) == 3 and isinstance(c.args[2], ast.Constant) and
               c.args[2].value is True, rule, f.qualname, c, c,
               'teardown nodes executed with in_teardown=True')
  rets = [n for n in walk_no_nested(f.node) if isinstance(n, ast.Return) and
          not any(n is e for e in early)]
  report.check(len(rets) == 1 and dotted(rets[0].value) == dotted(
      stmt.targets[0]) if ok else False, rule, f.qualname, 'final-return',
               f.node, 'teardown sequence returns the accumulated result')
  mc = repo.func(TE, '_more_critical')
  rr = [n for n in walk_no_nested(mc.node) if isinstance(n, ast.Return)]
  okmc = len(rr) == 1 and any(
      isinstance(n, ast.Call) and call_name(n) == 'max'
      for n in ast.walk(rr[0]))
  if not okmc and len(lib.param_names(mc.node)) == 2:
    # the other spelling: compare the two codes and return the larger argument
    pa, pb = lib.param_names(mc.node)
    bad = []

    def cl_mc(expr, steps):
      if isinstance(expr, ast.Compare) and len(expr.ops) == 1 and isinstance(
          expr.ops[0], (ast.Gt, ast.GtE)):
        l, r = dotted(expr.left), dotted(expr.comparators[0])
        strict = isinstance(expr.ops[0], ast.Gt)
        if (l, r) == (pa + '.value', pb + '.value'):
          return 'a_gt_b' if strict else 'a_ge_b'
        if (l, r) == (pb + '.value', pa + '.value'):
          return ('not', 'a_ge_b') if strict else ('not', 'a_gt_b')
      return None

    def sp_mc(v, p):
      rv = p.last_return().value if p.end == 'exit' and p.last_return() \
          else None
      got = dotted(cfgm.path_resolve(p, rv)) if rv is not None else None
      want = {pa} if v['a_gt_b'] else ({pb} if not v['a_ge_b'] else {pa, pb})
      if got not in want:
        bad.append(got)
        return 'returns %s, expected the larger of the two (%s)' % (
            got, sorted(want))
      return None
    lib.decision_table(report, rule, mc, ['a_gt_b', 'a_ge_b'], cl_mc, sp_mc,
                       lambda v: not (v['a_gt_b'] and not v['a_ge_b']))
    okmc = not bad and bool(rr)
  report.check(okmc, rule, mc.qualname, rr[0] if rr else mc.node, mc.node,
               '_more_critical is the max of the two return codes')


def r4_subtest(report, repo):
  rule = 'C02-R4s'
  report.rule(rule, 'T-DTABLE: _execute_subtest: returns the sequence result '
              'unchanged; TERMINAL marks the record STOP; an already failed '
              'outer subtest marks the nested record FAIL; nothing is skipped '
              'here')
  f = repo.func(TE, 'TestExecutor._execute_subtest')
  outer = lib.param_names(f.node)[2]

  def classify(expr, steps):
    d = dotted(expr)
    if d == outer:
      return 'outer'
    if d == outer + '.is_fail':
      return 'outer_fail'
    if isinstance(expr, ast.Compare) and len(expr.ops) == 1 and ends_with(
        dotted(expr.comparators[0]) or '', '_ExecutorReturn.TERMINAL') and \
        isinstance(expr.ops[0], (ast.Eq, ast.Is)):
      return 'terminal'
    return None

  def spec(v, p):
    if p.end != 'exit':
      return None
    calls = p.calls(name='self._execute_sequence')
    if len(calls) != 1:
      return 'subtest sequence not executed exactly once'
    c = calls[0]
    if len(c.args) < 3 or dotted(c.args[0]) != lib.param_names(f.node)[1] or \
        dotted(c.args[2]) != 'in_teardown':
      return 'subtest sequence not executed with (subtest, own record, in_teardown)'
    rv = p.last_return().value
    src = cfgm.path_resolve(p, rv, before_index=len(p.steps) - 1)
    if src is not c:
      return 'subtest does not return the result of its sequence'
    assigns = [
        dotted(n.ast.value) for n, _ in p.steps
        if n.kind == 'stmt' and isinstance(n.ast, ast.Assign) and any(
            (dotted(t) or '').endswith('.outcome') for t in n.ast.targets)
    ]
    want = []
    if v['outer'] and v['outer_fail']:
      want.append('FAIL')
    if v['terminal']:
      want.append('STOP')
    got = [(a or '?').split('.')[-1] for a in assigns]
    if got != want:
      return 'subtest record outcome assignments %s, expected %s' % (got, want)
    return None

  lib.decision_table(report, rule, f, ['outer', 'outer_fail', 'terminal'],
                     classify, spec,
                     lambda v: not (v['outer_fail'] and not v['outer']))


def r5_records(report, repo):
  rule = 'C02-R5'
  report.rule(rule, 'T-MUST/T-DTABLE: one branch record per evaluated branch '
              '(taken or not) and none when skipped; one checkpoint record on '
              'every path of evaluate_checkpoint (normal and exception) and '
              'skip_checkpoint; one subtest record per subtest context')
  f = repo.func(TE, 'TestExecutor._execute_phase_branch')

  def extra(expr, steps):
    if isinstance(expr, ast.Call) and last_attr(expr) == 'should_run':
      return 'should_run'
    return None

  classify = skip_classify(extra=extra)

  def spec(v, p):
    if p.end != 'exit':
      return None
    skip = (not v['in_teardown']) and v['rec'] and v['is_fail']
    n_eval = len(p.calls(attr='should_run'))
    n_seq = len(p.calls(name='self._execute_sequence'))
    recs = p.calls(attr='add_branch_record')
    ret = _ret_name(p)
    if skip:
      if n_eval or n_seq or recs:
        return ('skip-row: a branch in a failed subtest must be neither '
                'evaluated, run nor recorded (eval=%d run=%d rec=%d)' %
                (n_eval, n_seq, len(recs)))
      if not ends_with(ret or '', '_ExecutorReturn.CONTINUE'):
        return 'skip-row: must return CONTINUE'
      return None
    if n_eval != 1:
      return 'eval-row: condition not evaluated exactly once'
    if len(recs) != 1:
      return 'eval-row: %d branch records written, expected 1' % len(recs)
    if n_seq != (1 if v['should_run'] else 0):
      return 'eval-row: branch run %d times with should_run=%s' % (
          n_seq, v['should_run'])
    # the recorded branch_taken flag
    fb = p.calls(attr='from_branch')
    if len(fb) != 1 or len(fb[0].args) < 2:
      return 'eval-row: BranchRecord.from_branch call not found'
    taken = fb[0].args[1]
    # a constant per arm, or the value of the evaluation itself
    tv = lib.eval_expr(taken, v, classify, p,
                       before_index=p.index_of(lambda n_: n_.contains(fb[0])))
    if tv is None or bool(tv) is not v['should_run']:
      return 'eval-row: recorded branch_taken disagrees with the evaluation'
    rv = p.last_return().value
    src = p.value_of(rv.id) if isinstance(rv, ast.Name) else rv
    if v['should_run']:
      c = p.calls(name='self._execute_sequence')[0]
      if src is not c:
        return 'taken-row: result of the branch sequence not returned'
      if [dotted(a) for a in c.args[:3]] != lib.param_names(f.node)[1:4]:
        return 'taken-row: sequence not run with (branch, subtest_rec, in_teardown)'
    elif not ends_with(dotted(src) or '', '_ExecutorReturn.CONTINUE'):
      return 'not-taken-row: must return CONTINUE'
    return None

  lib.decision_table(report, rule, f,
                     ['in_teardown', 'rec', 'is_fail', 'should_run'], classify,
                     spec, lambda v: not (v['is_fail'] and not v['rec']))

  # evaluate_checkpoint: one record on every path incl. exception path
  f = repo.func(PE, 'PhaseExecutor.evaluate_checkpoint')
  g = lib.cfg(f)

  def follow_exc(node, steps):
    # exceptions raised inside a try body (-> handler), not function exits
    t = node.succ('exc')
    return t is not None and t.kind == 'dispatch'

  paths = cfgm.walk_paths(g, lambda n, s: None, follow_exc=follow_exc)
  n_ok = 0
  for p in paths:
    if p.end != 'exit':
      continue
    k = len(p.calls(attr='add_checkpoint_record'))
    if k != 1:
      report.violation(rule, f.qualname, 'checkpoint-records:%d' % k, f.node,
                       'a path through evaluate_checkpoint writes %d checkpoint '
                       'records (expected exactly 1)' % k)
    else:
      n_ok += 1
    ret = p.last_return()
    if ret is None or dotted(ret.value) is None:
      continue
  report.ok(rule, f.node, 'evaluate_checkpoint: %d normal paths (including '
            'exception handler paths) each write exactly one checkpoint record'
            % n_ok)
  report.expect_instances(rule, n_ok, 3, 'evaluate_checkpoint paths')
  # handler converts the exception into an outcome (no re-raise)
  hs = [n for n in walk_no_nested(f.node) if isinstance(n, ast.ExceptHandler)]
  report.expect_instances(rule, len(hs), 1, 'evaluate_checkpoint handlers')
  for h in hs:
    ok = lib.handler_swallows(h) and any(
        isinstance(n, ast.Call) and last_attr(n) == 'ExceptionInfo'
        for n in ast.walk(h))
    report.check(ok, rule, f.qualname, 'handler', h,
                 'checkpoint evaluation error becomes an exception outcome '
                 '(terminal), not an executor crash')
  chk = [c for c in core.calls_in(f.node, attr='get_result')]
  report.check(len(chk) == 1 and lib.shielded_by_try(chk[0]) is not None, rule,
               f.qualname, 'get_result', f.node,
               'checkpoint.get_result evaluated once, inside the try')

  f = repo.func(PE, 'PhaseExecutor.skip_checkpoint')
  paths = cfgm.walk_paths(lib.cfg(f), lambda n, s: None)
  for p in paths:
    if p.end == 'exit':
      k = p.calls(attr='add_checkpoint_record')
      fc = p.calls(attr='from_checkpoint')
      ok = len(k) == 1 and len(fc) == 1
      if ok:
        fi = p.index_of(lambda n_: n_.contains(fc[0]))
        ok = any(ends_with(dotted(n) or '', 'PhaseResult.SKIP')
                 for a_ in fc[0].args
                 for n in ast.walk(cfgm.path_resolve(p, a_, before_index=fi)))
      report.check(ok, rule, f.qualname, 'skip-record', f.node,
                   'skip_checkpoint writes exactly one record with result SKIP')

  # (the subtest context manager, if there is one, is inlined by the loader:
  # the rule reads the executing function)
  f = repo.func(TE, 'TestExecutor._execute_subtest')
  g = lib.cfg(f)
  ys = [n for n, c_ in lib.nodes_with_call(g, name='self._execute_sequence')]
  report.expect_instances(rule, len(ys), 1, 'subtest body executions')
  adds = lib.nodes_with_call(g, attr='add_subtest_record')
  ok = len(adds) == 1 and g.must_pass(
      ys[0], g.is_normal_exit, lambda n: n is adds[0][0],
      avoid_edge=lambda a, l, b: l == 'exc')
  report.check(ok, rule, f.qualname, 'add_subtest_record', f.node,
               'subtest record added exactly once after the subtest body '
               'completed')


def r6_conditions(report, repo):
  rule = 'C02-R6'
  report.rule(rule, 'T-AGREE/T-DTABLE: _CONDITION_LOOKUP covers ConditionOn '
              'with ALL->all, ANY->any, NOT_ANY->not any, NOT_ALL->not all; '
              'PhaseFailureCheckpoint selects LAST / SUBTEST(with record) / all '
              'records; "failed" means outcome FAIL')
  m = repo.module(PB)
  enum_cls = repo.cls(PB, 'ConditionOn')
  members = [t.id for s in enum_cls.body if isinstance(s, ast.Assign)
             for t in s.targets if isinstance(t, ast.Name)]
  tbl = m.constants.get('_CONDITION_LOOKUP')
  if not isinstance(tbl, ast.Dict):
    raise core.AnalysisError('_CONDITION_LOOKUP is no longer a dict literal')

  def helper_meaning(expr):
    d = dotted(expr)
    if d in ('all', 'any'):
      return d
    if d and repo.has_func(PB, d):
      hf = repo.func(PB, d)
      rets = [n for n in walk_no_nested(hf.node) if isinstance(n, ast.Return)]
      if len(rets) == 1:
        v = rets[0].value
        if isinstance(v, ast.UnaryOp) and isinstance(v.op, ast.Not) and \
            isinstance(v.operand, ast.Call) and \
            call_name(v.operand) in ('any', 'all') and \
            [dotted(a) for a in v.operand.args] == lib.param_names(hf.node):
          return 'not ' + call_name(v.operand)
    return 'unknown:' + norm(expr)

  got = {}
  for k, v in zip(tbl.keys, tbl.values):
    got[(dotted(k) or '?').split('.')[-1]] = helper_meaning(v)
  want = {'ALL': 'all', 'ANY': 'any', 'NOT_ANY': 'not any', 'NOT_ALL': 'not all'}
  report.expect_instances(rule, len(members), 4, 'ConditionOn members')
  for mem in members:
    report.check(
        got.get(mem) == want.get(mem, got.get(mem)) and mem in got, rule,
        '_CONDITION_LOOKUP', 'entry:' + mem, tbl,
        'ConditionOn.%s -> %s' % (mem, got.get(mem)),
        'ConditionOn.%s maps to %s, expected %s' %
        (mem, got.get(mem), want.get(mem)))
  chk = repo.func(PB, 'DiagnosisCondition.check')
  has = core.calls_in(chk.node, attr='has_diagnosis_result')
  gens = [n for n in walk_no_nested(chk.node)
          if isinstance(n, (ast.GeneratorExp, ast.ListComp))]
  ok = len(has) == 1 and len(gens) == 1 and dotted(
      gens[0].generators[0].iter) == 'self.diagnosis_results' and \
      not gens[0].generators[0].ifs
  report.check(ok, rule, chk.qualname, 'check', chk.node,
               'condition evaluated over has_diagnosis_result(d) for every d '
               'in self.diagnosis_results')
  sub = [n for n in walk_no_nested(chk.node) if isinstance(n, ast.Subscript) and
         dotted(n.value) == '_CONDITION_LOOKUP']
  report.check(len(sub) == 1 and dotted(sub[0].slice) == 'self.condition', rule,
               chk.qualname, 'lookup', chk.node,
               'condition function looked up by self.condition')
  # factory classmethods agree with their names
  for meth, mem in (('on_all', 'ALL'), ('on_any', 'ANY'),
                    ('on_not_all', 'NOT_ALL'), ('on_not_any', 'NOT_ANY')):
    fm = repo.func(PB, 'DiagnosisCondition.' + meth)
    cs = [c for c in core.calls_in(fm.node) if call_name(c) == 'cls']
    ok = len(cs) == 1 and ends_with(
        dotted(core.get_kw(cs[0], 'condition', 0)) or '', 'ConditionOn.' + mem)
    report.check(ok, rule, fm.qualname, meth, fm.node,
                 'DiagnosisCondition.%s builds ConditionOn.%s' % (meth, mem))
  for meth, mem in (('last', 'LAST'), ('all_previous', 'ALL'),
                    ('subtest_previous', 'SUBTEST')):
    fm = repo.func(PB, 'PhaseFailureCheckpoint.' + meth)
    ok = any(
        isinstance(n, ast.Assign) and ends_with(
            dotted(n.value) or '', 'PreviousPhases.' + mem)
        for n in walk_no_nested(fm.node))
    report.check(ok, rule, fm.qualname, meth, fm.node,
                 'PhaseFailureCheckpoint.%s selects PreviousPhases.%s' %
                 (meth, mem))

  # PhaseFailureCheckpoint._check_for_action
  f = repo.func(PB, 'PhaseFailureCheckpoint._check_for_action')
  pf = repo.func(PB, 'PhaseFailureCheckpoint._phase_failed')
  rets = [n for n in walk_no_nested(pf.node) if isinstance(n, ast.Return)]
  okpf = len(rets) == 1 and isinstance(rets[0].value, ast.Compare) and \
      isinstance(rets[0].value.ops[0], (ast.Eq, ast.Is)) and ends_with(
          dotted(rets[0].value.comparators[0]) or '', 'PhaseOutcome.FAIL') and \
      (dotted(rets[0].value.left) or '').endswith('.outcome')
  report.check(okpf, rule, pf.qualname, 'phase_failed', pf.node,
               '"failed" = record outcome == PhaseOutcome.FAIL')

  def classify(expr, steps):
    d = dotted(expr)
    if d is not None and (ends_with(d, 'test_record.phases') or
                          d == 'phase_records'):
      return 'have_records'
    if isinstance(expr, ast.Compare) and len(expr.ops) == 1:
      l, r = dotted(expr.left) or '', dotted(expr.comparators[0]) or ''
      if l == 'self.previous_phases_to_check' and isinstance(
          expr.ops[0], (ast.Eq, ast.Is)):
        if ends_with(r, 'PreviousPhases.LAST'):
          return 'LAST'
        if ends_with(r, 'PreviousPhases.SUBTEST'):
          return 'SUBTEST'
        if ends_with(r, 'PreviousPhases.ALL'):
          return 'ALL'
      if l == 'subtest_rec' and isinstance(expr.comparators[0], ast.Constant):
        return 'rec' if isinstance(expr.ops[0], ast.IsNot) else ('not', 'rec')
      if l.endswith('.subtest_name') and r == 'subtest_rec.name' and \
          isinstance(expr.ops[0], ast.Eq):
        return 'same_subtest'
    if isinstance(expr, ast.Call) and call_name(expr) == 'self._phase_failed':
      return 'failed'
    return None

  def consistent(v):
    return sum([v['LAST'], v['SUBTEST'], v.get('ALL', False)]) <= 1

  def spec(v, p):
    if not v['have_records']:
      if p.end == 'exit':
        return 'no-records-row: must raise NoPhasesFoundError'
      return None
    if p.end != 'exit':
      return None
    r = p.last_return()
    iterated = any(l == 'iter' for n, l in p.steps if n.kind == 'for')
    pf_calls = p.calls(name='self._phase_failed')
    if v['LAST']:
      ok = isinstance(r.value, ast.Call) and call_name(r.value) == \
          'self._phase_failed' and isinstance(r.value.args[0], ast.Subscript) \
          and isinstance(r.value.args[0].slice, ast.UnaryOp) and \
          isinstance(r.value.args[0].slice.operand, ast.Constant) and \
          r.value.args[0].slice.operand.value == 1
      return None if ok else 'LAST-row: must return _phase_failed(records[-1])'
    subtest_mode = v['SUBTEST'] and v['rec']
    val = r.value.value if isinstance(r.value, ast.Constant) else None
    if not iterated:
      return None if val is False else 'empty-iteration must return False'
    considered = v['same_subtest'] if subtest_mode else True
    tests_same = any(n.kind == 'test' and classify(n.ast, []) == 'same_subtest'
                     for n, _ in p.steps)
    if subtest_mode and not tests_same:
      return 'SUBTEST-row: records are not filtered by subtest name'
    if not subtest_mode and tests_same:
      return 'ALL-row: records filtered by subtest although not in SUBTEST mode'
    want = considered and v['failed']
    if want and val is not True:
      return 'a failed considered record must yield True'
    if not want and val is not False:
      return 'no failed considered record must yield False (one iteration)'
    if len(pf_calls) > 1:
      return 'more than one failure test per record'
    return None

  lib.decision_table(report, rule, f,
                     ['have_records', 'LAST', 'SUBTEST', 'rec', 'same_subtest',
                      'failed'], classify, spec, consistent)
  gr = repo.func(PB, 'Checkpoint.get_result')

  def cl2(expr, steps):
    if isinstance(expr, ast.Call) and call_name(expr) == 'self._check_for_action':
      return 'act'
    return None

  def sp2(v, p):
    if p.end != 'exit':
      return None
    d = dotted(p.last_return().value) or ''
    if v['act'] and d != 'self.action':
      return 'action-row: must return self.action'
    if not v['act'] and not ends_with(d, 'PhaseResult.CONTINUE'):
      return 'no-action-row: must return CONTINUE'
    return None

  lib.decision_table(report, rule, gr, ['act'], cl2, sp2)


def r7_bookkeeping(report, repo):
  rule = 'C02-R7'
  report.rule(rule, 'T-DTABLE/T-MUST: what later nodes consult is written: the '
              'phase record carries the subtest name iff the phase ran in a '
              'subtest (SUBTEST checkpoints filter on it); every diagnosis is '
              'added to the diagnoses store (branches, diagnosis checkpoints '
              'and conditional validators read it) and, unless internal, to '
              'the test record')
  for q in ('PhaseExecutor._execute_phase_once', 'PhaseExecutor.skip_phase'):
    f = repo.func(PE, q)
    g = lib.cfg(f)
    sets = lib.nodes_with_call(g, attr='set_subtest_name')
    ctxs = [n for n in g.nodes if n.kind == 'with_enter' and any(
        isinstance(s, ast.Call) and last_attr(s) == 'running_phase_context'
        for s in n.subnodes())]
    ok = len(sets) == 1 and len(ctxs) == 1
    if ok:
      sn, sc = sets[0]
      ok = norm(sc.args[0]).endswith('subtest_rec.name') and \
          g.dominated_by_edge(sn, lambda s_, l, d: s_.kind == 'test' and
                              l == 'T' and dotted(s_.ast) == 'subtest_rec') and \
          g.dominated_by(sn, lambda n: n is ctxs[0])
      # reached whenever a subtest record exists
      reach = g.reach([ctxs[0]], avoid=lambda n: n is sn, avoid_edge=lambda a, l,
                      b: l == 'exc' or (a.kind == 'test' and l == 'F' and
                                        dotted(a.ast) == 'subtest_rec'))
      ok = ok and not any(n.kind == 'with_exit' and n.ast is ctxs[0].ast and
                          n.tag in ('normal', 'ret') for n in reach)
    report.check(ok, rule, f.qualname, 'subtest-name-recorded', f.node,
                 '%s: the phase state gets the subtest name whenever a subtest '
                 'record exists' % q,
                 '%s does not record the subtest name on every path with a '
                 'subtest record: subtest_previous checkpoints no longer see '
                 'this phase' % q)
  r7_diagnoses(report, repo, rule)


def _helper_effects(repo, rel, cls, meth):
  """Summary of a same-class helper: {(effect, diag_param_index,
  rec_param_index or None)} for the effects that happen on every normal path
  through the helper (a wrapper that always stores counts as a store)."""
  q = cls + '.' + meth
  if not repo.has_func(rel, q):
    return set()
  f = repo.func(rel, q)
  g = lib.cfg(f)
  ps = lib.param_names(f.node)
  out = set()
  for n, c in lib.nodes_with_call(g):
    eff = None
    if call_name(c) == 'self._add_diagnosis' and c.args and \
        dotted(c.args[0]) in ps:
      eff = ('store', ps.index(dotted(c.args[0])), None)
    elif last_attr(c) == 'add_diagnosis' and c.args and dotted(
        c.args[0]) in ps and dotted(c.func.value) in ps:
      eff = ('test-record', ps.index(dotted(c.args[0])),
             ps.index(dotted(c.func.value)))
    if eff is None:
      continue
    reach = [g.entry] + g.reach([g.entry], avoid=lambda x, _n=n: x is _n,
                                avoid_edge=lambda a, l, b: l in ('exc', 'raise'))
    if g.entry is n or not any(x is g.exit for x in reach):
      out.add(eff)
  return out


def r7_diagnoses(report, repo, rule='C02-R7'):
  report.rule(rule + 'd', 'T-MUST: every diagnosis a diagnoser returns is added '
              'to the diagnoses store (branches, diagnosis checkpoints and '
              'conditional validators read it) and, unless internal, to the '
              'test record; same-class helpers are summarised')
  DL = 'openhtf/core/diagnoses_lib.py'
  for q, var_rec in (('DiagnosesManager.execute_phase_diagnoser', 3),
                     ('DiagnosesManager.execute_test_diagnoser', 2)):
    f = repo.func(DL, q)
    g = lib.cfg(f)
    heads = [n for n in g.nodes if n.kind == 'for']
    report.expect_instances(rule, len(heads), 1, 'diagnosis loops in ' + q)
    h = heads[0]
    var = dotted(h.ast.target)
    body = h.succ('iter')
    recp = lib.param_names(f.node)[var_rec]

    def via_helper(c, what, _var=var, _recp=recp):
      if not (isinstance(c.func, ast.Attribute) and
              core.is_name(c.func.value, 'self')):
        return False
      for eff, di, ri in _helper_effects(repo, DL, 'DiagnosesManager',
                                         c.func.attr):
        if eff != what:
          continue
        # parameter index -> positional argument (self is param 0)
        if di - 1 < len(c.args) and dotted(c.args[di - 1]) == _var and (
            ri is None or (ri - 1 < len(c.args) and
                           dotted(c.args[ri - 1]) == _recp)):
          return True
      return False

    for what, pred in (
        ('store', lambda c: (call_name(c) == 'self._add_diagnosis' and c.args
                             and dotted(c.args[0]) == var) or
         via_helper(c, 'store')),
        ('test-record', lambda c: (last_attr(c) == 'add_diagnosis' and dotted(
            c.func.value) == recp and c.args and dotted(c.args[0]) == var) or
         via_helper(c, 'test-record'))):
      adds = [n for n, c in lib.nodes_with_call(g) if pred(c)]

      def skip_edge(a, l, b, _what=what):
        if l in ('exc', 'raise'):
          return True
        # internal diagnoses are not serialised into the test record
        if _what == 'test-record' and a.kind == 'test' and dotted(
            a.ast) == var + '.is_internal' and l == 'T':
          return True
        return False

      if any(body is a for a in adds):
        reach = []
      else:
        reach = [body] + g.reach([body], avoid=lambda n: any(n is a
                                                            for a in adds),
                                 avoid_edge=skip_edge)
      ok = bool(adds) and not any(x is h or x is g.exit for x in reach)
      report.check(ok, rule, f.qualname, 'diagnosis-to-' + what, h.ast,
                   '%s: every diagnosis reaches the %s%s' % (
                       q, what, ' (unless internal)' if what == 'test-record'
                       else ''),
                   '%s: a diagnosis can skip the %s: later branches / '
                   'checkpoints / conditional validators (or the finalisation '
                   'and the output) do not see it' % (q, what))


def run(report, repo):
  report.guard(r1_dispatch, report, repo)
  report.guard(r2_r4_phase_and_checkpoint, report, repo)
  report.guard(r3_sequences, report, repo)
  report.guard(r4_subtest, report, repo)
  report.guard(r5_records, report, repo)
  report.guard(r6_conditions, report, repo)
  report.guard(r7_bookkeeping, report, repo)
  # C02-R2 group sites are decided by the group table shared with C03
  from sa.rules import c03  # pylint: disable=g-import-not-at-top
  report.guard(c03.group_table, report, repo, 'C02-R2')
  from sa.rules import extra5  # pylint: disable=g-import-not-at-top
  report.guard(extra5.group_sequence_never_unwrapped, report, repo, 'C02-R9')
