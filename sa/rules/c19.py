"""C19 - log capture."""

import ast
import re

from sa import cfg as cfgm
from sa import core, lib
from sa.core import call_name, dotted, last_attr, norm, walk_no_nested
from sa.lib import ends_with

try:
  import re._parser as sre_parse  # pylint: disable=g-import-not-at-top
except ImportError:  # pragma: no cover
  import sre_parse  # pylint: disable=g-import-not-at-top,deprecated-module

DECIDES = (
    'handler add/remove pairing (installed once per TestState, removed in '
    'close with the same uid object); the handler list of the openhtf logger '
    'is only mutated in place (never rebound) and at most the matching '
    'handler is removed; RecordHandler installs the MAC filter and the '
    'per-run uid filter, emit appends then notifies inside try/except -> '
    'handleError; the LogRecord field order agrees with the values emit() '
    'passes (level, logger name, source basename, line, millisecond '
    'timestamp, message); the record-logger regex (folded from its parts and '
    'parsed) is prefix + "." + a dot-free uid group, used with match(), and '
    'the filter keeps a record iff it is not a record-logger record or its '
    'uid equals the handler\'s; uids built by make_uid contain no "."; per-run '
    'loggers are HtfTestLogger objects outside the global registry; the MAC '
    'redaction keeps only the 3-octet prefix.')
DOES_NOT_DECIDE = (
    'emission order / exactly-once under concurrency (delegated to '
    'logging\'s own handler lock, trusted base).')

LG = 'openhtf/util/logs.py'
TD = 'openhtf/core/test_descriptor.py'
TS = 'openhtf/core/test_state.py'
TR = 'openhtf/core/test_record.py'


def _fold(m, expr):
  """Folds a constant string expression (literals, % with names of module
  constants, '.'.join of constants).  Returns str or None."""
  if isinstance(expr, ast.Constant) and isinstance(expr.value, str):
    return expr.value
  if isinstance(expr, ast.Name) and expr.id in m.constants:
    return _fold(m, m.constants[expr.id])
  if isinstance(expr, ast.BinOp) and isinstance(expr.op, ast.Mod):
    l = _fold(m, expr.left)
    r = expr.right
    args = r.elts if isinstance(r, ast.Tuple) else [r]
    vals = [_fold(m, a) for a in args]
    if l is None or any(v is None for v in vals):
      return None
    try:
      return l % tuple(vals)
    except (TypeError, ValueError):
      return None
  if isinstance(expr, ast.BinOp) and isinstance(expr.op, ast.Add):
    l, r = _fold(m, expr.left), _fold(m, expr.right)
    return l + r if l is not None and r is not None else None
  if isinstance(expr, ast.Call) and last_attr(expr) == 'join' and isinstance(
      expr.func, ast.Attribute) and core.const_str(expr.func.value) is not None:
    seq = expr.args[0]
    if isinstance(seq, (ast.Tuple, ast.List)):
      vals = [_fold(m, a) for a in seq.elts]
      if all(v is not None for v in vals):
        return core.const_str(expr.func.value).join(vals)
  return None


def r1_handlers(report, repo):
  rule = 'C19-R1'
  report.rule(rule, 'T-PAIR/T-WHO: the record handler is added only in '
              'initialize_record_handler; remove_record_handler removes in '
              'place at most the handler whose uid matches and stops '
              'iterating after the mutation; the handler list is never '
              'rebound')
  n = 0
  for m, c in core.call_sites(repo, attr='addHandler'):
    if any(isinstance(x, ast.Call) and last_attr(x) == 'RecordHandler'
           for x in ast.walk(c)):
      n += 1
      owner = core.owner_qualname(c)
      report.check(m.relpath == LG and owner == 'initialize_record_handler',
                   rule, owner, c, c, 'RecordHandler added in %s' % owner,
                   'a RecordHandler is added from %s' % owner)
  report.expect_instances(rule, n, 1, 'RecordHandler installations')
  m_lg = repo.module(LG)
  f = repo.func(LG, 'initialize_record_handler')
  ah = core.calls_in(f.node, attr='addHandler')
  ok = len(ah) == 1 and not core.repeated_by_loop(ah[0])
  if ok:
    rh = [x for x in ast.walk(ah[0]) if isinstance(x, ast.Call) and
          last_attr(x) == 'RecordHandler'][0]
    ok = [dotted(a) for a in rh.args] == lib.param_names(f.node)
    recv = lib.resolved(f, ah[0].func.value)
    ok = ok and len(recv) == 1 and call_name(recv[0]) == 'logging.getLogger' \
        and (dotted(recv[0].args[0]) == 'LOGGER_PREFIX' or
             _fold(m_lg, recv[0].args[0]) == _fold(m_lg, ast.Name(
                 id='LOGGER_PREFIX', ctx=ast.Load())))
  report.check(ok, rule, f.qualname, 'one-handler', f.node,
               'exactly one handler per call, built from (uid, record, notify), '
               'on the top-level openhtf logger')
  r = repo.func(LG, 'remove_record_handler')
  rebinds = [n_ for n_ in ast.walk(repo.module(LG).tree)
             if isinstance(n_, (ast.Assign, ast.AugAssign)) and any(
                 isinstance(t, ast.Attribute) and t.attr == 'handlers'
                 for t in core.assigned_targets(n_))]
  report.check(
      not rebinds, rule, core.owner_qualname(rebinds[0]) if rebinds else
      r.qualname, 'handlers-rebound', rebinds[0] if rebinds else r.node,
      'the logger\'s handler list is never rebound',
      'the handler list of the shared logger is replaced (%s): a handler '
      'added concurrently by another run between the snapshot and the '
      'assignment is lost and that run records nothing' %
      (norm(rebinds[0]) if rebinds else ''))
  g = lib.cfg(r)
  rms = [(n_, c) for n_, c in lib.nodes_with_call(g) if last_attr(c) in (
      'remove', 'removeHandler')]
  report.check(len(rms) == 1, rule, r.qualname, 'removes-in-place', r.node,
               'one in-place removal (%s)' % [norm(c) for _, c in rms],
               'remove_record_handler does not remove exactly one handler in '
               'place')
  if len(rms) == 1:
    rn, rc = rms[0]

    def matches(s, l, d):
      if s.kind != 'test' or l != 'T':
        return False
      t = norm(s.ast)
      return ('test_uid' in t and isinstance(s.ast, ast.Compare)) or (
          call_name(s.ast) == 'isinstance' and ends_with(
              dotted(s.ast.args[1]) or '', 'RecordHandler'))

    uid_test = [x for x in g.nodes if x.kind == 'test' and isinstance(
        x.ast, ast.Compare) and 'test_uid' in norm(x.ast)]

    def selected(node):
      """node is reached only for a handler that passed both tests"""
      def uid_edge(s, l, d):
        if not any(s is u for u in uid_test) or len(s.ast.ops) != 1:
          return False
        same = isinstance(s.ast.ops[0], (ast.Is, ast.Eq))
        return l == ('T' if same else 'F')

      def inst_edge(s, l, d):
        if s.kind != 'test':
          return False
        e, want = s.ast, 'T'
        if isinstance(e, ast.UnaryOp) and isinstance(e.op, ast.Not):
          e, want = e.operand, 'F'
        return call_name(e) == 'isinstance' and l == want
      return bool(uid_test) and g.dominated_by_edge(node, uid_edge) and \
          g.dominated_by_edge(node, inst_edge)
    ok = selected(rn)
    arg = rc.args[0] if rc.args else None
    if not ok and isinstance(arg, ast.Name):
      # search-then-remove: what is removed was bound under both tests, or is
      # the "none found" default that the removal is guarded against
      defs = lib.reaching_defs(g, rn, arg.id)
      guarded = g.dominated_by_edge(
          rn, lambda s, l, d: s.kind == 'test' and (
              (l == 'T' and (core.is_name(s.ast, arg.id) or (
                  isinstance(s.ast, ast.Compare) and core.is_name(
                      s.ast.left, arg.id) and isinstance(
                          s.ast.ops[0], ast.IsNot) and isinstance(
                              s.ast.comparators[0], ast.Constant) and
                  s.ast.comparators[0].value is None)))))
      ok = bool(defs) and all(
          (dn is not g.entry and selected(dn)) or (
              guarded and isinstance(val, ast.Constant) and val.value is None)
          for dn, val in defs)
    report.check(ok, rule, r.qualname, 'only-own-handler', rc,
                 'only a RecordHandler whose uid matches is removed',
                 'a handler can be removed without matching type and uid: '
                 'another run\'s handler disappears')
    # after the mutation the iteration stops
    heads = [x for x in g.nodes if x.kind == 'for']
    again = any(x in heads for x in g.reach(
        [rn], avoid_edge=lambda a, l, b: l == 'exc'))
    report.check(not again, rule, r.qualname, 'stop-after-remove', rc,
                 'iteration stops after the list was mutated')
  from sa.rules import c09  # pylint: disable=g-import-not-at-top
  c09.r6_handler_pairing(report, repo)


def r2_handler_class(report, repo):
  rule = 'C19-R2'
  report.rule(rule, 'T-MUST: RecordHandler.__init__ installs MAC_FILTER and '
              'TestUidFilter(test_uid); emit appends then notifies inside '
              'try/except -> handleError')
  f = repo.func(LG, 'RecordHandler.__init__')
  afs = core.calls_in(f.node, name='self.addFilter')
  kinds = []
  for c in afs:
    a = c.args[0] if c.args else None
    if dotted(a) == 'MAC_FILTER':
      kinds.append('mac')
    elif isinstance(a, ast.Call) and last_attr(a) == 'TestUidFilter' and \
        dotted(a.args[0]) == lib.param_names(f.node)[1]:
      kinds.append('uid')
  report.check(sorted(kinds) == ['mac', 'uid'], rule, f.qualname, 'filters',
               f.node, 'both filters installed',
               'RecordHandler installs filters %s (needs the MAC filter and '
               'the uid filter for its own uid)' % kinds)
  ok = any(isinstance(n, ast.Assign) and dotted(n.targets[0]) == 'self.test_uid'
           and dotted(n.value) == lib.param_names(f.node)[1]
           for n in walk_no_nested(f.node))
  report.check(ok, rule, f.qualname, 'uid-stored', f.node,
               'the handler remembers the uid object it was created with')
  e = repo.func(LG, 'RecordHandler.emit')
  adds = core.calls_in(e.node, attr='add_log_record')
  report.expect_instances(rule, len(adds), 1, 'add_log_record calls')
  sh = lib.shielded_by_try(adds[0], ('Exception', 'BaseException', None))
  ok = sh is not None and any(call_name(c) == 'self.handleError'
                              for c in core.calls_in(sh[1]))
  report.check(ok, rule, e.qualname, 'handleError', e.node,
               'errors while recording go to handleError, never into the '
               'logging caller')
  report.check(dotted(adds[0].func.value) == 'self._test_record', rule,
               e.qualname, 'own-record', adds[0],
               'the record is appended to the handler\'s own test record')


def r2b_append_once(report, repo):
  rule = 'C19-R2'
  f = repo.func(TR, 'TestRecord.add_log_record')
  par = lib.param_names(f.node)[1]
  from sa import cfg as cfgm  # pylint: disable=g-import-not-at-top
  paths = [p for p in cfgm.walk_paths(lib.cfg(f), lambda n, s: None)
           if p.end == 'exit']
  ok = bool(paths)
  for p in paths:
    a = [c for c in p.calls(attr='append')]
    rec = [c for c in a if dotted(c.func.value) == 'self.log_records' and
           dotted(c.args[0]) == par]
    cch = [c for c in a if dotted(c.func.value) == 'self._cached_log_records']
    if len(rec) != 1 or len(cch) != 1:
      ok = False
  report.check(ok, rule, f.qualname, 'append-once', f.node,
               'every captured record is appended exactly once to log_records '
               'and, on the same path, its rendering to the serialized list',
               'add_log_record does not append the record and its rendering '
               'exactly once on every path (e.g. lazy conversion in '
               'as_base_types duplicates / drops messages when two threads '
               'serialise the running record)')


def r3_fields(report, repo):
  rule = 'C19-R3'
  report.rule(rule, 'T-AGREE: LogRecord field order vs. the values emit() '
              'constructs, by role')
  cls = repo.cls(LG, 'LogRecord')
  fields = None
  for b in cls.bases:
    if isinstance(b, ast.Call) and last_attr(b) == 'namedtuple':
      fields = [core.const_str(x) for x in b.args[1].elts]
  e = repo.func(LG, 'RecordHandler.emit')
  cs = core.calls_in(e.node, attr='LogRecord')
  report.expect_instances(rule, len(cs), 1, 'LogRecord constructions')
  c = cs[0]
  rec = lib.param_names(e.node)[1]
  roles = []
  # positional arguments by position, keyword arguments by field name: each
  # field must receive the value of its own role
  given = list(c.args) + [None] * max(0, len(fields or []) - len(c.args))
  kws = {k.arg: k.value for k in c.keywords}
  for i, fname in enumerate(fields or []):
    if given[i] is None and fname in kws:
      given[i] = kws.pop(fname)
  for a in given:
    if a is None:
      roles.append('?missing')
      continue
    t = norm(a)
    if t == rec + '.levelno':
      roles.append('level')
    elif t == rec + '.name':
      roles.append('logger_name')
    elif t == 'os.path.basename(%s.pathname)' % rec:
      roles.append('source')
    elif t == rec + '.lineno':
      roles.append('lineno')
    elif t.replace(' ', '') in ('int(%s.created*1000)' % rec,
                                'int(1000*%s.created)' % rec):
      roles.append('timestamp_millis')
    elif any(call_name(d) == 'self.format' for d in lib.resolved(e, a)):
      roles.append('message')
    else:
      roles.append('?' + t)
  for k in kws:
    roles.append('kw:' + (k or ''))
  report.check(roles == fields, rule, e.qualname, 'field-order', c,
               'emit() passes %s in the order of LogRecord%s' % (roles, fields),
               'emit() constructs LogRecord with roles %s but the tuple '
               'declares %s' % (roles, fields))
  want = ['level', 'logger_name', 'source', 'lineno', 'timestamp_millis',
          'message']
  report.check(fields == want, rule, 'LogRecord', 'fields', cls,
               'LogRecord fields are %s' % want)


def _re_tree(pattern, flags=0):
  return sre_parse.parse(pattern, flags)


def r4_uid_filter(report, repo):
  rule = 'C19-R4'
  report.rule(rule, 'T-STR/T-DTABLE: RECORD_LOGGER_RE = prefix + "\\." + '
              '(?P<test_uid>[^.]*) (+ optional dot), used with match(); '
              'TestUidFilter keeps non-record-logger records and records whose '
              'uid group equals its own uid; make_uid has no "." in its '
              'literal parts')
  m = repo.module(LG)
  c = m.constants.get('RECORD_LOGGER_RE')
  pat = _fold(m, c.args[0]) if isinstance(c, ast.Call) and \
      call_name(c) == 're.compile' else None
  if pat is None:
    raise core.AnalysisError('RECORD_LOGGER_RE is not a foldable constant')
  prefix = _fold(m, ast.Name(id='RECORD_LOGGER_PREFIX', ctx=ast.Load()))
  report.check(prefix == 'openhtf.test_record', rule, 'logs',
               'RECORD_LOGGER_PREFIX', LG, 'record loggers live under '
               'openhtf.test_record')
  ok = prefix is not None and pat.startswith(prefix + r'\.')
  tree = _re_tree(pat)
  grp = None
  for op, av in tree:
    if op is sre_parse.SUBPATTERN and tree.state.groupdict.get(
        'test_uid') == av[0]:
      grp = av[3]
  dotfree = False
  if grp is not None and len(grp) == 1 and grp[0][0] in (
      sre_parse.MAX_REPEAT, sre_parse.MIN_REPEAT):
    lo, hi, sub = grp[0][1]
    item = sub[0] if len(sub) == 1 else None
    if item and item[0] is sre_parse.IN:
      neg = item[1][0][0] is sre_parse.NEGATE
      lits = [x[1] for x in item[1][1:] if x[0] is sre_parse.LITERAL]
      dotfree = neg and ord('.') in lits
    elif item and item[0] is sre_parse.NOT_LITERAL:
      dotfree = item[1] == ord('.')
  report.check(
      ok and dotfree, rule, 'logs', 'RECORD_LOGGER_RE', LG,
      'pattern %r: literal prefix, escaped dot, uid group of non-dot '
      'characters' % pat,
      'RECORD_LOGGER_RE is %r: the uid group can match "." (or the prefix is '
      'not literal): a child logger of another run, or a run whose uid '
      'extends another uid, is attributed to the wrong run' % pat)
  f = repo.func(LG, 'TestUidFilter.filter')
  rec = lib.param_names(f.node)[1]
  ms = [c_ for c_ in core.calls_in(f.node)
        if dotted(c_.func) in ('RECORD_LOGGER_RE.match',)]
  report.check(len(ms) == 1 and dotted(ms[0].args[0]) == rec + '.name', rule,
               f.qualname, 'match-on-name', f.node,
               'the logger name is matched from its start with '
               'RECORD_LOGGER_RE.match',
               'TestUidFilter does not decide with RECORD_LOGGER_RE.match on '
               'the logger name (e.g. a startswith test has no uid boundary: '
               'uid "x:1" also captures "x:10")')

  mname = lib.local_from(f, lib.calls(name='RECORD_LOGGER_RE.match'), 'match')

  def classify2(expr, steps):
    if isinstance(expr, ast.Name) and expr.id == mname:
      return 'matched'
    if isinstance(expr, ast.Compare) and len(expr.ops) == 1 and core.is_name(
        expr.left, mname) and isinstance(expr.comparators[0], ast.Constant) \
        and expr.comparators[0].value is None:
      if isinstance(expr.ops[0], ast.IsNot):
        return 'matched'
      if isinstance(expr.ops[0], ast.Is):
        return ('not', 'matched')
    path = cfgm.Path(steps, None)
    if isinstance(expr, ast.Compare) and len(expr.ops) == 1 and isinstance(
        expr.ops[0], (ast.Is, ast.IsNot)) and isinstance(
            expr.left, ast.Name) and isinstance(
                expr.comparators[0], ast.Constant) and \
        expr.comparators[0].value is None and grp is not None:
      # the uid group is a mandatory top-level group of the pattern (found
      # above): on a match, group('test_uid') is a string, never None
      res = cfgm.path_resolve(path, expr.left)
      if isinstance(res, ast.Call) and last_attr(res) == 'group' and \
          core.is_name(res.func.value, mname) and len(res.args) == 1 and \
          core.const_str(res.args[0]) == 'test_uid':
        return isinstance(expr.ops[0], ast.IsNot)
    if isinstance(expr, ast.Compare) and len(expr.ops) == 1:
      t = norm(cfgm.path_resolve(path, expr.left)) + ' ' + norm(
          cfgm.path_resolve(path, expr.comparators[0]))
      if "group('test_uid')" in t and 'self.test_uid' in t:
        if isinstance(expr.ops[0], ast.Eq):
          return 'same_uid'
        if isinstance(expr.ops[0], ast.NotEq):
          return ('not', 'same_uid')
    return None

  def spec(v, p):
    if p.end != 'exit':
      return 'filter raises'
    r = p.last_return().value
    if isinstance(r, ast.Constant):
      got = bool(r.value)
    else:
      got = lib.eval_expr(r, v, classify2, p, before_index=len(p.steps) - 1)
    want = (not v['matched']) or v['same_uid']
    if got is None:
      return 'filter result not evaluable: %s' % norm(r)
    if got != want:
      return ('row: record %s by the filter (record-logger=%s, own uid=%s)' %
              ('kept' if got else 'dropped', v['matched'], v['same_uid']))
    return None

  if ms:
    lib.decision_table(report, rule, f, ['matched', 'same_uid'], classify2,
                       spec, lambda v: not (v['same_uid'] and not v['matched']))
  mu = repo.func(TD, 'Test.make_uid')
  rets = [n for n in walk_no_nested(mu.node) if isinstance(n, ast.Return)]
  fmt = None
  if len(rets) == 1 and isinstance(rets[0].value, ast.BinOp):
    fmt = core.const_str(rets[0].value.left)
  ok = fmt is not None and '.' not in fmt
  if ok:
    parts = rets[0].value.right.elts if isinstance(
        rets[0].value.right, ast.Tuple) else []
    allowed = ('os.getpid()', 'self.descriptor.uid', 'uuid.uuid4().hex[:16]',
               'util.time_millis()')
    ok = all(norm(a) in allowed for a in parts)
  report.check(ok, rule, mu.qualname, 'uid-without-dot', mu.node,
               'execution uids are %r of pid, descriptor uid (hex), uuid hex '
               'and integer millis: no "."' % fmt,
               'make_uid can put a "." into the uid (%s): the uid group of '
               'the logger regex would be cut short' % (fmt,))
  tdc = repo.cls(TD, 'TestDescriptor')
  uf = [v for n, v in core.class_attr_fields(tdc) if n == 'uid']
  ok = len(uf) == 1 and 'uuid.uuid4().hex' in norm(uf[0])
  report.check(ok, rule, 'TestDescriptor', 'descriptor-uid', tdc,
               'descriptor uid is hexadecimal')


def r5_loggers(report, repo):
  rule = 'C19-R5'
  report.rule(rule, 'T-WHO: per-run loggers are HtfTestLogger objects with an '
              'explicit parent; logging.getLogger is only called with constant '
              'names in logs.py (no uid enters the global logger registry)')
  m = repo.module(LG)
  n = 0
  for c in [x for x in ast.walk(m.tree) if isinstance(x, ast.Call)]:
    if call_name(c) == 'logging.getLogger':
      n += 1
      a = c.args[0] if c.args else None
      ok = a is None or _fold(m, a) is not None
      report.check(ok, rule, core.owner_qualname(c), c, c,
                   'logging.getLogger(%s): constant name' %
                   (norm(a) if a is not None else ''),
                   'logging.getLogger is called with the run-dependent name '
                   '%s: the logger stays in the global registry for ever '
                   '(handlers and loggers accumulate across runs)' %
                   (norm(a) if a is not None else ''))
  report.expect_instances(rule, n, 3, 'logging.getLogger calls')
  for q in ('get_record_logger_for', 'HtfTestLogger.getChild'):
    f = repo.func(LG, q)
    mk = core.calls_in(f.node, attr='HtfTestLogger')
    par = [x for x in walk_no_nested(f.node) if isinstance(x, ast.Assign) and
           (dotted(x.targets[0]) or '').endswith('.parent')]
    rets = [x for x in walk_no_nested(f.node) if isinstance(x, ast.Return)]
    ok = len(mk) == 1 and len(par) == 1 and len(rets) == 1 and \
        dotted(rets[0].value) == (dotted(par[0].targets[0]) or '')[:-7]
    report.check(ok, rule, f.qualname, 'detached-logger', f.node,
                 '%s builds an HtfTestLogger and sets its parent by hand' % q,
                 '%s does not create a detached HtfTestLogger with an explicit '
                 'parent' % q)
    # the logger handed out is the one built by this very call (not a memoised
    # / shared object that outlives the run)
    gq = lib.cfg(f)
    for rn in [x for x in gq.nodes if isinstance(x.ast, ast.Return)]:
      vals = lib.value_exprs(gq, rn, rn.ast.value)
      fresh = all(isinstance(v, ast.Call) and last_attr(v) == 'HtfTestLogger'
                  for v in vals)
      report.check(fresh, rule, f.qualname, 'fresh-logger', rn.ast,
                   '%s returns the logger it constructed' % q,
                   '%s can return a logger that was not built by this call '
                   '(%s): a logger shared between runs carries the first run\'s '
                   'uid and parent, so a later run\'s messages are filtered out '
                   'or land in the other record' % (q, sorted(set(
                       norm(v)[:40] for v in vals))))
  for cq, c in sorted(m.classes.items()):
    for st in c.body:
      val = st.value if isinstance(st, (ast.Assign, ast.AnnAssign)) else None
      mutable = isinstance(val, (ast.Dict, ast.List, ast.Set, ast.DictComp,
                                 ast.ListComp, ast.SetComp)) or (
                                     isinstance(val, ast.Call) and
                                     (call_name(val) or '').split('.')[-1] in (
                                         'dict', 'list', 'set', 'defaultdict',
                                         'OrderedDict', 'deque',
                                         'WeakValueDictionary'))
      report.check(not mutable, rule, cq, 'class-level-container:' + norm(
          st)[:40], st, 'no class-level mutable container in %s' % cq,
                   'class %s keeps the mutable container `%s` at class level: '
                   'it is shared by every run\'s loggers/handlers in the '
                   'process' % (cq, norm(st)[:60]))
  g = repo.func(LG, 'get_record_logger_for')
  mk = core.calls_in(g.node, attr='HtfTestLogger')
  if mk:
    a = mk[0].args[0]
    ok = isinstance(a, ast.Call) and last_attr(a) == 'join' and \
        core.const_str(a.func.value) == '.' and 'RECORD_LOGGER_PREFIX' in \
        norm(a) and lib.param_names(g.node)[0] in norm(a)
    report.check(ok, rule, g.qualname, 'name', g.node,
                 'record logger name = RECORD_LOGGER_PREFIX + "." + uid')
  ts = repo.func(TS, 'TestState.__init__')
  ok = any(call_name(c) == 'logs.get_record_logger_for' and
           dotted(c.args[0]) == 'execution_uid'
           for c in core.calls_in(ts.node))
  report.check(ok, rule, ts.qualname, 'state-logger', ts.node,
               'the run\'s state logger is the record logger of its uid')


def r6_mac(report, repo):
  rule = 'C19-R6'
  report.rule(rule, 'T-STR: MAC_REPLACE_RE = one captured 3-octet prefix '
              'followed by 3 uncaptured octets; the replacement keeps group 1 '
              'only; the filter rewrites msg and string args')
  cls = repo.cls(LG, 'MacAddressLogFilter')
  pat = flags = repl = None
  for s in cls.body:
    if isinstance(s, ast.Assign) and dotted(s.targets[0]) == 'MAC_REPLACE_RE' \
        and isinstance(s.value, ast.Call):
      pat = core.const_str(s.value.args[0])
      flags = norm(s.value.args[1]) if len(s.value.args) > 1 else ''
    if isinstance(s, ast.Assign) and dotted(s.targets[0]) == 'MAC_REPLACEMENT':
      repl = core.const_str(s.value)
  if pat is None:
    raise core.AnalysisError('MAC_REPLACE_RE not found')
  fl = 0
  if 'VERBOSE' in flags:
    fl |= re.VERBOSE
  if 'IGNORECASE' in flags:
    fl |= re.IGNORECASE
  tree = _re_tree(pat, fl)
  groups = tree.state.groups - 1
  first = tree[0] if len(tree) else None
  ok = first is not None and first[0] is sre_parse.SUBPATTERN and \
      first[1][0] == 1
  octets = 0
  if ok:
    inner = first[1][3]
    ok = len(inner) == 1 and inner[0][0] is sre_parse.MAX_REPEAT and \
        inner[0][1][0] == 3 and inner[0][1][1] == 3
  rest = list(tree)[1:]
  ok = ok and len(rest) == 1 and rest[0][0] is sre_parse.MAX_REPEAT and \
      rest[0][1][0] == 3 and rest[0][1][1] == 3
  report.check(ok, rule, 'MacAddressLogFilter', 'MAC_REPLACE_RE', cls,
               'pattern = (3 octets captured)(3 octets not captured)',
               'MAC_REPLACE_RE does not have the shape <captured 3-octet '
               'prefix><3 further octets>: more than the vendor prefix '
               'survives redaction or addresses are missed')
  ok = repl is not None and repl.count('\\1') == 1 and not re.search(
      r'\\[2-9]|\\g<', repl)
  report.check(ok, rule, 'MacAddressLogFilter', 'MAC_REPLACEMENT', cls,
               'the replacement %r keeps only group 1' % repl,
               'the replacement %r re-inserts more than the vendor prefix' %
               repl)
  f = repo.func(LG, 'MacAddressLogFilter.filter')
  subs = [c for c in core.calls_in(f.node) if dotted(c.func) ==
          'self.MAC_REPLACE_RE.sub']
  tg = set()
  for n in walk_no_nested(f.node):
    if isinstance(n, ast.Assign):
      for t in n.targets:
        d = dotted(t) or ''
        if d.endswith('.msg') or d.endswith('.args'):
          tg.add(d.split('.')[-1])
  ok = len(subs) >= 2 and all(dotted(c.args[0]) == 'self.MAC_REPLACEMENT'
                              for c in subs) and tg == {'msg', 'args'}
  rets = [n for n in walk_no_nested(f.node) if isinstance(n, ast.Return)]
  ok = ok and all(isinstance(r.value, ast.Constant) and r.value.value is True
                  for r in rets)
  report.check(ok, rule, f.qualname, 'rewrites', f.node,
               'msg and string args are rewritten with the replacement; the '
               'record is always kept')


def run(report, repo):
  report.guard(r1_handlers, report, repo)
  report.guard(r2_handler_class, report, repo)
  report.guard(r2b_append_once, report, repo)
  report.guard(r3_fields, report, repo)
  report.guard(r4_uid_filter, report, repo)
  report.guard(r5_loggers, report, repo)
  report.guard(r6_mac, report, repo)
  report.assume('logging.Handler.handle serialises emit() per handler '
                '(handler lock): ordering / exactly-once per handler is '
                'delegated to the standard library')
  from sa.rules import extra4, c09  # pylint: disable=g-import-not-at-top
  report.guard(extra4.handler_always_installed, report, repo, 'C19-R7')
  report.guard(c09.r1_exit_paths, report, repo, rule='C19-R8')
  from sa.rules import extra5 as _e5b  # pylint: disable=g-import-not-at-top
  from sa.rules import c10 as _c10  # pylint: disable=g-import-not-at-top
  report.guard(_c10.r2_record_lists, report, repo, rule='C19-R9')
  from sa.rules import extra5 as _e5d  # pylint: disable=g-import-not-at-top
  report.guard(_e5d.test_logger_has_no_forwarders, report, repo, 'C19-R10')
  from sa.rules import extra5 as _e6b  # pylint: disable=g-import-not-at-top
  report.guard(_e6b.top_logger_level_is_debug, report, repo, 'C19-R11')
  report.guard(_e6b.mac_filter_looks_at_formatted_message, report, repo, 'C19-R12')
