"""C16 - fastboot command/response state machine and image transfer."""

import ast

from sa import cfg as cfgm
from sa import core, lib
from sa.core import call_name, dotted, last_attr, norm, walk_no_nested
from sa.lib import ends_with

DECIDES = (
    'the response loop of _accept_responses as a decision table over the '
    'packet header (INFO -> callback and continue; final header equal to the '
    'expected one -> return payload, callback on OKAY; other final header -> '
    'state-mismatch error; FAIL -> callback and remote-failure error carrying '
    'the payload; anything else -> invalid-response error); image bytes are '
    'written only after DATA was accepted and the announced size was compared '
    'for equality, and are followed by waiting for OKAY; the download '
    'announcement is "download" plus the size as %08x; a command is one '
    '"command[:arg]" write; the transfer loop writes exactly what it read, in '
    'chunks of the configured size, decreasing the remaining length by the '
    'amount read and reporting it; the progress callback is shielded and the '
    'cumulative count advances on every path.')
DOES_NOT_DECIDE = (
    'byte-exactness of the transfer for all sizes (needs the values); response '
    'sequences beyond the single-step table.')

FP = 'openhtf/plugs/usb/fastboot_protocol.py'


def r1_responses(report, repo):
  rule = 'C16-R1'
  report.rule(rule, 'T-DTABLE: _accept_responses loop body over {INFO, final, '
              'expected, OKAY, FAIL}')
  f = repo.func(FP, 'FastbootProtocol._accept_responses')
  exp = lib.param_names(f.node)[1]
  cls = repo.cls(FP, 'FastbootProtocol')
  fh = None
  for s in cls.body:
    if isinstance(s, ast.Assign) and dotted(s.targets[0]) == 'FINAL_HEADERS':
      fh = sorted(core.const_str(e) or '?' for e in s.value.elts) if isinstance(
          s.value, (ast.Set, ast.Tuple, ast.List)) else (
              sorted(core.const_str(e) or '?' for e in s.value.args[0].elts)
              if isinstance(s.value, ast.Call) and s.value.args else None)
  report.check(fh == ['DATA', 'OKAY'], rule, 'FastbootProtocol', 'FINAL_HEADERS',
               cls, 'FINAL_HEADERS = {OKAY, DATA}',
               'FINAL_HEADERS is %s, expected {OKAY, DATA}' % fh)
  # the class-level table is shared by every command of every connection:
  # nothing may change it in place
  m = repo.module(FP)
  for n in ast.walk(m.tree):
    bad = None
    if isinstance(n, ast.Call) and isinstance(n.func, ast.Attribute) and \
        n.func.attr in core.MUTATORS and (dotted(n.func.value) or '').endswith(
            'FINAL_HEADERS'):
      bad = n
    elif isinstance(n, (ast.Assign, ast.AugAssign, ast.Delete)) and any(
        isinstance(t, (ast.Subscript, ast.Attribute)) and
        (dotted(t.value if isinstance(t, ast.Subscript) else t) or '').endswith(
            'FINAL_HEADERS') for t in core.assigned_targets(n)) and \
        core.owner_qualname(n) != 'FastbootProtocol':
      bad = n
    if bad is not None:
      report.violation(rule, core.owner_qualname(bad),
                       'FINAL_HEADERS-mutated:' + norm(bad)[:50], bad,
                       'the shared class-level FINAL_HEADERS table is changed '
                       'in place (%s): the final-packet set of every later '
                       'command differs' % norm(bad)[:60])

  def reads(steps):
    return sum(1 for n, _ in steps for s in n.subnodes()
               if isinstance(s, ast.Call) and call_name(s) == 'self.usb.read')

  # locals by definition: the packet read, its first four bytes, the rest
  resp = lib.local_from(f, lib.calls(name='self.usb.read'), 'response')

  def slice_of(e, lo, hi):
    return isinstance(e, ast.Subscript) and core.is_name(e.value, resp) and \
        isinstance(e.slice, ast.Slice) and e.slice.step is None and \
        (e.slice.lower.value if isinstance(e.slice.lower, ast.Constant)
         else None) == lo and \
        (e.slice.upper.value if isinstance(e.slice.upper, ast.Constant)
         else None) == hi
  hdr = lib.local_from(f, lambda e: slice_of(e, None, 4), 'header')
  rem = lib.local_from(f, lambda e: slice_of(e, 4, None), 'remaining')

  def classify(expr, steps):
    if reads(steps) != 1:
      return None
    if isinstance(expr, ast.Compare) and len(expr.ops) == 1 and \
        core.is_name(expr.left, hdr):
      op, r = expr.ops[0], expr.comparators[0]
      c = core.const_str(r)
      if c in ('INFO', 'OKAY', 'FAIL') and isinstance(op, (ast.Eq, ast.NotEq)):
        k = {'INFO': 'info', 'OKAY': 'okay', 'FAIL': 'fail'}[c]
        return k if isinstance(op, ast.Eq) else ('not', k)
      if ends_with(dotted(r) or '', 'FINAL_HEADERS') and isinstance(
          op, (ast.In, ast.NotIn)):
        return 'final' if isinstance(op, ast.In) else ('not', 'final')
      if dotted(r) == exp and isinstance(op, (ast.Eq, ast.NotEq)):
        return 'expected' if isinstance(op, ast.Eq) else ('not', 'expected')
    return None

  def consistent(v):
    if sum([v['info'], v['final'], v['fail']]) > 1:
      return False
    if v['okay'] and not v['final']:
      return False
    if v['expected'] and not v['final']:
      return False
    return True

  def first_iter(p):
    """steps of the first loop iteration only."""
    out, seen = [], 0
    for n, l in p.steps:
      if any(isinstance(s, ast.Call) and call_name(s) == 'self.usb.read'
             for s in n.subnodes()):
        seen += 1
        if seen == 2:
          break
      out.append((n, l))
    return cfgm.Path(out, None), seen >= 2

  def is_cb(c):
    return isinstance(c.func, ast.Name) and c.func.id == lib.param_names(
        f.node)[2]

  def spec(v, p):
    it, looped = first_iter(p)
    cbs = [c for c in it.calls() if is_cb(c)]
    ended = None if looped else p.end
    if v['info']:
      if not looped:
        return 'INFO-row: INFO must be forwarded and the loop continue'
      if len(cbs) != 1:
        return 'INFO-row: the callback is called %d times' % len(cbs)
      return None
    if looped:
      return 'final-row: a non-INFO packet does not end the command'
    if v['final']:
      if v['expected']:
        if ended != 'exit':
          return 'final-row: the expected final packet must return'
        if not slice_of(cfgm.path_resolve(p, p.last_return().value), 4,
                        None):
          return 'final-row: must return the payload'
        if (len(cbs) == 1) != v['okay']:
          return 'final-row: callback on OKAY only (got %d calls, okay=%s)' % (
              len(cbs), v['okay'])
        return None
      r = p.raised()
      if ended != 'raise' or r is None or last_attr(r.exc) != \
          'FastbootStateMismatchError':
        return ('mismatch-row: an out-of-place final packet must raise '
                'FastbootStateMismatchError')
      return None
    r = p.raised()
    if v['fail']:
      if ended != 'raise' or r is None or last_attr(r.exc) != \
          'FastbootRemoteFailureError':
        return 'FAIL-row: must raise FastbootRemoteFailureError'
      if not any(core.is_name(x, rem) or slice_of(x, 4, None)
                 for x in ast.walk(r.exc)):
        return 'FAIL-row: the error does not carry the device text'
      if len(cbs) != 1:
        return 'FAIL-row: the callback must see the FAIL message once'
      return None
    if ended != 'raise' or r is None or last_attr(r.exc) != \
        'FastbootInvalidResponseError':
      return 'other-row: an unknown header must raise FastbootInvalidResponseError'
    return None

  lib.decision_table(report, rule, f,
                     ['info', 'final', 'expected', 'okay', 'fail'], classify,
                     spec, consistent)
  hs = [n for n in walk_no_nested(f.node) if isinstance(n, ast.Assign) and
        core.is_name(n.targets[0], hdr)]
  rs = [n for n in walk_no_nested(f.node) if isinstance(n, ast.Assign) and
        core.is_name(n.targets[0], rem)]
  ok = len(hs) == 1 and slice_of(hs[0].value, None, 4) and (
      (len(rs) == 1 and slice_of(rs[0].value, 4, None)) or
      # no local for the payload: the slice is used where it is needed
      (not rs and any(slice_of(n, 4, None) for n in walk_no_nested(f.node))))
  report.check(ok, rule, f.qualname, 'split', f.node,
               'header = response[:4], payload = response[4:]')


def r2_data_phase(report, repo):
  rule = 'C16-R2'
  report.rule(rule, 'T-DOM/T-ORDER: handle_data_sending writes image bytes '
              'only after _accept_responses(\'DATA\') and accepted_size == '
              'source_len (else FastbootTransferError), then waits for OKAY')
  f = repo.func(FP, 'FastbootProtocol.handle_data_sending')
  g = lib.cfg(f)
  ws = lib.nodes_with_call(g, name='self._write')
  report.expect_instances(rule, len(ws), 1, 'image writes')
  wn, wc = ws[0]
  pn = lib.param_names(f.node)

  def accepts(kind):
    return [n for n, c in lib.nodes_with_call(g, name='self._accept_responses')
            if c.args and core.const_str(c.args[0]) == kind]

  data_n, okay_n = accepts('DATA'), accepts('OKAY')
  report.check(len(data_n) == 1 and g.dominated_by(
      wn, lambda n: n is data_n[0]), rule, f.qualname, 'after-DATA', wc,
               'image bytes only after the device answered DATA')

  # the local holding the size the device accepted (result of the DATA wait)
  acc = lib.local_from(f, lib.calls(name='self._accept_responses'), None)
  if acc is None:
    # the reply is parsed in the same statement that waits for it
    acc = lib.local_from(f, lib.contains_call(name='self._accept_responses'),
                         'accepted_size')

  def size_eq(s, l, d):
    if s.kind != 'test' or not isinstance(s.ast, ast.Compare) or \
        len(s.ast.ops) != 1:
      return False
    names = {dotted(s.ast.left), dotted(s.ast.comparators[0])}
    if names != {acc, pn[2]}:
      return False
    if isinstance(s.ast.ops[0], ast.NotEq):
      return l == 'F'
    if isinstance(s.ast.ops[0], ast.Eq):
      return l == 'T'
    return False

  report.check(
      g.dominated_by_edge(wn, size_eq), rule, f.qualname, 'size-equality', wc,
      'image bytes only when the accepted size equals the announced size',
      'the image is transmitted without the accepted size having been compared '
      'for equality with the announced size (e.g. `<` instead of `!=`): a DATA '
      'reply with a different size no longer raises FastbootTransferError')
  tr = [n for n in g.nodes if n.kind == 'stmt' and isinstance(n.ast, ast.Raise)
        and n.ast.exc is not None and last_attr(n.ast.exc) ==
        'FastbootTransferError']
  report.check(len(tr) == 1, rule, f.qualname, 'transfer-error', f.node,
               'a size mismatch raises FastbootTransferError')
  args = [dotted(a) for a in wc.args]
  report.check(args[:1] == [pn[1]] and args[1:2] in ([acc],
                                                      [pn[2]]), rule,
               f.qualname, 'write-args', wc,
               '_write(source_file, <the agreed size>, progress_callback)')
  ok = len(okay_n) == 1 and g.must_pass(
      wn, g.is_normal_exit, lambda n: n is okay_n[0],
      avoid_edge=lambda a, l, b: l == 'exc')
  rets = [n for n in g.nodes if n.kind == 'stmt' and isinstance(n.ast,
                                                                ast.Return)]
  ok = ok and len(rets) == 1 and isinstance(rets[0].ast.value, ast.Call) and \
      call_name(rets[0].ast.value) == 'self._accept_responses'
  report.check(ok, rule, f.qualname, 'then-OKAY', f.node,
               'after the image the terminating OKAY is awaited and its '
               'payload returned')
  un = [c for c in core.calls_in(f.node, name='struct.unpack')]
  hx = [c for c in core.calls_in(f.node, name='binascii.unhexlify')]
  ok = len(un) == 1 and core.const_str(un[0].args[0]) == '>I' and len(hx) == 1 \
      and norm(hx[0].args[0]).endswith('[:8]')
  report.check(ok, rule, f.qualname, 'size-parse', f.node,
               'the accepted size is parsed from the first 8 hex digits as a '
               'big-endian 32-bit number')


def _fmt_is_08x(expr, lenname):
  """'%08x' % n, '{:08x}'.format(n), f'{n:08x}'."""
  if isinstance(expr, ast.BinOp) and isinstance(expr.op, ast.Mod):
    return core.const_str(expr.left) == '%08x' and dotted(expr.right) == lenname
  if isinstance(expr, ast.Call) and last_attr(expr) == 'format' and isinstance(
      expr.func, ast.Attribute):
    return core.const_str(expr.func.value) in ('{:08x}', '{0:08x}') and \
        len(expr.args) == 1 and dotted(expr.args[0]) == lenname
  if isinstance(expr, ast.JoinedStr) and len(expr.values) == 1 and isinstance(
      expr.values[0], ast.FormattedValue):
    fv = expr.values[0]
    spec = fv.format_spec
    return dotted(fv.value) == lenname and isinstance(spec, ast.JoinedStr) and \
        len(spec.values) == 1 and core.const_str(spec.values[0]) == '08x'
  return False


def r3_commands(report, repo):
  rule = 'C16-R3'
  report.rule(rule, 'T-STR: download announces "download" with the length '
              'formatted as zero-padded width-8 hex; send_command joins command '
              'and argument with ":" only when an argument is given and '
              'performs one _write')
  f = repo.func(FP, 'FastbootCommands.download')
  cs = core.calls_in(f.node, attr='send_command')
  report.expect_instances(rule, len(cs), 1, 'download announcements')
  c = cs[0]
  arg1 = c.args[1] if len(c.args) == 2 else None
  if isinstance(arg1, ast.Name):
    # formatted into a local first (its one definition)
    g0 = lib.cfg(f)
    nodes = g0.nodes_of(core.enclosing_stmt(c))
    vals = lib.value_exprs(g0, nodes[0], arg1) if nodes else []
    if len(vals) == 1:
      arg1 = vals[0]
  ok = core.const_str(c.args[0]) == 'download' and len(c.args) == 2 and \
      _fmt_is_08x(arg1, 'source_len')
  report.check(ok, rule, f.qualname, 'announcement', c,
               'send_command(\'download\', <source_len as %08x>)',
               'the download announcement is %s: the size must be 8 '
               'zero-padded hex digits' % norm(c))
  hd = core.calls_in(f.node, attr='handle_data_sending')
  ok = len(hd) == 1 and [dotted(a) for a in hd[0].args[:2]] == ['source_file',
                                                                'source_len']
  g = lib.cfg(f)
  if ok:
    ok = g.dominated_by(g.nodes_of(hd[0])[0],
                        lambda n: any(n is x for x in g.nodes_of(c)))
  report.check(ok, rule, f.qualname, 'announce-then-send', f.node,
               'the data phase follows the announcement with the same length')
  s = repo.func(FP, 'FastbootProtocol.send_command')

  cmd_p, arg_p = lib.param_names(s.node)[1:3]

  def classify(expr, steps):
    if isinstance(expr, ast.Compare) and core.is_name(expr.left, arg_p) and \
        isinstance(expr.comparators[0], ast.Constant) and \
        expr.comparators[0].value is None:
      return 'has_arg' if isinstance(expr.ops[0], ast.IsNot) else ('not',
                                                                   'has_arg')
    return None

  def spec(v, p):
    if p.end != 'exit':
      return None
    ws = p.calls(name='self._write')
    if len(ws) != 1:
      return 'one-packet: a command must be exactly one write (%d)' % len(ws)
    w = ws[0]
    wi = p.index_of(lambda n_: n_.contains(w))
    if not (len(w.args) == 2 and isinstance(w.args[0], ast.Call) and
            w.args[0].args):
      return 'one-packet: must write the whole command string'
    sent = w.args[0].args[0]
    ln = cfgm.path_resolve(p, w.args[1])
    if not (call_name(ln) == 'len' and dotted(ln.args[0]) == dotted(sent)
            and dotted(sent) is not None):
      return 'one-packet: must write the whole command string'
    # what the written string stands for on this path
    val = cfgm.path_resolve(p, sent, before_index=wi)
    if v['has_arg']:
      ok = isinstance(val, ast.BinOp) and isinstance(val.op, ast.Mod) and \
          core.const_str(val.left) == '%s:%s' and isinstance(
              val.right, ast.Tuple) and [dotted(e) for e in val.right.elts] == [
                  cmd_p, arg_p]
      if not ok:
        return 'arg-row: command and argument must be joined as "command:arg"'
    elif dotted(val) != cmd_p:
      return 'no-arg-row: the command is altered although no argument is given'
    return None

  lib.decision_table(report, rule, s, ['has_arg'], classify, spec)


def r4_transfer(report, repo):
  rule = 'C16-R4'
  report.rule(rule, 'T-AGREE/T-LOOP: _write: each usb.write sends exactly what '
              'the preceding read returned; read size = chunk constant * 1024; '
              'length decreases by the amount read; progress is sent the '
              'amount written')
  f = repo.func(FP, 'FastbootProtocol._write')
  loops = [n for n in walk_no_nested(f.node) if isinstance(n, ast.While)]
  report.expect_instances(rule, len(loops), 1, 'transfer loops')
  lp = loops[0]
  # the countdown variable: the length parameter itself or a local copy of it
  left = lp.test.id if isinstance(lp.test, ast.Name) else None
  lenp = lib.param_names(f.node)[2]
  report.check(left is not None and lenp in lib.copy_class(f, left), rule,
               f.qualname, 'loop-cond', lp, 'the loop runs while bytes remain')
  rd = [n for n in lp.body if isinstance(n, ast.Assign) and
        last_attr(n.value) == 'read']
  wr = core.calls_in(lp, name='self.usb.write')
  dec = [n for n in lp.body if isinstance(n, ast.AugAssign) and
         left is not None and core.is_name(n.target, left)]
  ok = len(rd) == 1 and len(wr) == 1 and len(dec) == 1
  if ok:
    g = lib.cfg(f)

    def res(at_stmt, e):
      """what a local stands for where it is used (its one definition)"""
      if isinstance(e, ast.Name):
        nodes = g.nodes_of(at_stmt)
        vals = lib.value_exprs(g, nodes[0], e) if nodes else []
        if len(vals) == 1 and vals[0] is not e:
          return vals[0]
      return e
    buf = dotted(rd[0].targets[0])
    ok = dotted(wr[0].args[0]) == buf and isinstance(dec[0].op, ast.Sub) and \
        norm(res(dec[0], dec[0].value)) == 'len(%s)' % buf and \
        lib.stmt_index(lp.body, rd[0]) < lib.stmt_index(lp.body, wr[0])
    size = norm(res(rd[0], rd[0].value.args[0])) if rd[0].value.args else ''
    ok = ok and size.replace(' ', '') in ('FASTBOOT_DOWNLOAD_CHUNK_SIZE_KB*1024',
                                          '1024*FASTBOOT_DOWNLOAD_CHUNK_SIZE_KB')
    snd = [c for c in core.calls_in(lp, attr='send')]
    ok = ok and len(snd) == 1 and norm(res(
        core.enclosing_stmt(snd[0]), snd[0].args[0])) == 'len(%s)' % buf
  report.check(ok, rule, f.qualname, 'read-write-agree', lp,
               'tmp = data.read(CHUNK_KB * 1024); length -= len(tmp); '
               'usb.write(tmp); progress.send(len(tmp))',
               'the transfer loop does not write exactly what it read / does '
               'not account for it (read %s, write %s, length %s)' %
               ([norm(x) for x in rd], [norm(x) for x in wr],
                [norm(x) for x in dec]))
  ck = repo.module(FP).constants.get('FASTBOOT_DOWNLOAD_CHUNK_SIZE_KB')
  report.check(isinstance(ck, ast.Constant) and isinstance(ck.value, int) and
               ck.value > 0, rule, 'fastboot_protocol', 'chunk-constant', FP,
               'the chunk size is a positive module constant')


def r5_progress(report, repo):
  rule = 'C16-R5'
  report.rule(rule, 'T-SHIELD: _handle_progress shields the callback with '
              'try/except Exception that continues the generator; the '
              'cumulative count advances on every path between two yields')
  f = repo.func(FP, 'FastbootProtocol._handle_progress')
  # the callback: the parameter that is called (the method may be static)
  params = lib.param_names(f.node)
  cs = [c for c in core.calls_in(f.node) if dotted(c.func) in params]
  report.expect_instances(rule, len(cs), 1, 'callback invocations')
  sh = lib.shielded_by_try(cs[0], ('Exception', 'BaseException', None))
  ok = sh is not None and not any(
      isinstance(n, (ast.Raise, ast.Return, ast.Break))
      for n in walk_no_nested(sh[1]))
  report.check(ok, rule, f.qualname, 'shield', cs[0],
               'a raising progress callback is logged and the generator keeps '
               'running',
               'a raising progress callback propagates into / stops the '
               'transfer')
  g = lib.cfg(f)
  ys = [n for n in g.nodes if any(isinstance(s, ast.Yield)
                                  for s in n.subnodes())]
  report.expect_instances(rule, len(ys), 1, 'yields')
  y = ys[0]

  # the running total: the callback's first argument
  cur = dotted(cs[0].args[0]) if cs and cs[0].args else 'current'

  def accumulates(n):
    if n.kind != 'stmt':
      return False
    s = n.ast
    return (isinstance(s, ast.AugAssign) and isinstance(s.op, ast.Add) and
            core.is_name(s.target, cur)) or (
                isinstance(s, ast.Assign) and core.is_name(s.targets[0],
                                                           cur) and
                isinstance(s.value, ast.BinOp) and isinstance(s.value.op,
                                                              ast.Add))

  if accumulates(y):
    ok = True
  else:
    # every path from the yield back to itself passes an accumulation; the
    # callback's own failure (exc edge into the handler) is a path too
    def edges(a, l, b):
      if l != 'exc':
        return False
      return not (b.kind == 'dispatch')
    reach = g.reach([y], avoid=accumulates, avoid_edge=edges)
    ok = not any(n is y for n in reach)
  report.check(ok, rule, f.qualname, 'cumulative', y.ast,
               'the running total is advanced on every path between two '
               'yields (also when the callback raises)',
               'when the progress callback raises, the running total is not '
               'advanced: every later progress value (and the final one) is '
               'short')
  static = any(dotted(d) == 'staticmethod' for d in f.node.decorator_list)
  others = [p for p in (params if static else params[1:])
            if p != dotted(cs[0].func)]
  ok = len(others) == 1 and any(
      c for c in cs if [dotted(a) for a in c.args] == [cur, others[0]])
  report.check(ok, rule, f.qualname, 'reports-cumulative', cs[0],
               'the callback receives (cumulative, total)')


def run(report, repo):
  report.guard(r1_responses, report, repo)
  report.guard(r2_data_phase, report, repo)
  report.guard(r3_commands, report, repo)
  report.guard(r4_transfer, report, repo)
  report.guard(r5_progress, report, repo)
  from sa.rules import extra4  # pylint: disable=g-import-not-at-top
  report.guard(extra4.progress_shield_in_loop, report, repo, 'C16-R6')
  from sa.rules import extra4 as _x4  # pylint: disable=g-import-not-at-top
  report.guard(_x4.errors_do_not_reformat, report, repo, 'C16-R7')
  from sa.rules import extra5 as _e5c  # pylint: disable=g-import-not-at-top
  report.guard(_e5c.download_without_length_buffers, report, repo, 'C16-R8')
