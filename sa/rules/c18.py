"""C18 - state subscriptions never lose an update."""

import ast

from sa import core, lib
from sa.core import call_name, dotted, last_attr, norm, walk_no_nested
from sa.lib import ends_with

DECIDES = (
    'the two-line protocol of SubscribableStateMixin: the event is registered '
    '(under the lock) before the snapshot is evaluated and the registered '
    'event is the one returned; notify_update sets every registered event and '
    'clears the registry inside one region of the same lock; nothing else in '
    'the repository touches the registry; every write of the test status, '
    'the running phase, the start time, a measurement value (callback chain '
    'resolved) and a log record is followed by notify_update() on all normal '
    'paths of the same function; UserInput notifies inside the region that '
    'changed the prompt; wait_for_plug_update compares the snapshot obtained '
    'together with the event and takes no earlier snapshot.')
DOES_NOT_DECIDE = (
    '"a watcher always observes the final state" as a liveness claim over '
    'schedules: it follows from these facts by a pencil argument (event '
    'registered before the snapshot => any later notification sets it), not '
    'by the tool; fairness of watcher threads.')

UT = 'openhtf/util/__init__.py'
TS = 'openhtf/core/test_state.py'
ME = 'openhtf/core/measurements.py'
PL = 'openhtf/plugs/__init__.py'
UI = 'openhtf/plugs/user_input.py'
LG = 'openhtf/util/logs.py'
MIX = 'SubscribableStateMixin'


def r1_snapshot_protocol(report, repo):
  rule = 'C18-R1'
  report.rule(rule, 'T-ORDER/T-REGION: asdict_with_event registers the event '
              'inside `with self._lock` before _asdict() is evaluated and '
              'returns that event')
  f = repo.func(UT, MIX + '.asdict_with_event')
  g = lib.cfg(f)
  adds = lib.nodes_with_call(g, name='self._update_events.add')
  snaps = lib.nodes_with_call(g, name='self._asdict')
  report.check(len(adds) == 1, rule, f.qualname, 'registers', f.node,
               'exactly one registration of the event',
               'the event is registered %d times' % len(adds))
  if len(adds) != 1 or not snaps:
    report.violation(rule, f.qualname, 'protocol-missing', f.node,
                     'registration or snapshot missing')
    return
  an, ac = adds[0]
  report.check('self._lock' in core.held_withs(ac), rule, f.qualname,
               'register-under-lock', ac,
               'registration happens under the subscription lock',
               'the event is registered without holding the lock: a '
               'concurrent notify_update can iterate / clear the registry '
               'while it is modified and drop the event')
  ok = all(g.dominated_by(sn, lambda n: n is an) for sn, _ in snaps)
  report.check(ok, rule, f.qualname, 'register-before-snapshot', snaps[0][1],
               'the event is registered before the snapshot is taken',
               'the state snapshot is evaluated before the event is '
               'registered: an update between the two is neither in the '
               'snapshot nor signalled (lost update)')
  for sn, sc_ in snaps:
    report.check(
        'self._lock' not in core.held_withs(sc_), rule, f.qualname,
        'snapshot-outside-lock', sc_,
        'the snapshot is evaluated after the subscription lock was released',
        '_asdict() is evaluated while holding the subscription lock: an '
        '_asdict() that takes the object\'s own lock (UserInput._cond) while '
        'an updater holds that lock and calls notify_update() deadlocks '
        'watcher and updater (lock-order inversion)')
  ev = dotted(ac.args[0]) if ac.args else None
  defs = lib.resolve_local(f, ev) if ev else []
  ok = len(defs) == 1 and call_name(defs[0]) == 'threading.Event'
  report.check(ok, rule, f.qualname, 'fresh-event', f.node,
               'each watcher gets its own new threading.Event')
  rets = [n for n in walk_no_nested(f.node) if isinstance(n, ast.Return)]
  ok = len(rets) == 1 and isinstance(rets[0].value, ast.Tuple) and \
      len(rets[0].value.elts) == 2 and ev is not None and ev in \
      lib.copy_class(f, dotted(rets[0].value.elts[1]) or '?')
  if ok:
    s0 = rets[0].value.elts[0]
    src = s0
    if isinstance(s0, ast.Name):
      d = lib.resolve_local(f, s0.id)
      src = d[0] if len(d) == 1 else None
    ok = isinstance(src, ast.Call) and call_name(src) == 'self._asdict'
  report.check(ok, rule, f.qualname, 'returns-registered-event', f.node,
               'returns (snapshot, the registered event)',
               'the returned event is not the registered one (or the snapshot '
               'is not _asdict()): the watcher waits on an event nobody sets')


def r2_notify(report, repo):
  rule = 'C18-R2'
  report.rule(rule, 'T-REGION/T-WHO: notify_update sets all registered events '
              'and clears the registry in one `with self._lock` region (the '
              'lock of R1); _update_events is touched nowhere else')
  f = repo.func(UT, MIX + '.notify_update')
  loops = [n for n in walk_no_nested(f.node) if isinstance(n, ast.For)]
  clears = core.calls_in(f.node, name='self._update_events.clear')
  sets = [c for c in core.calls_in(f.node, attr='set')]
  ok = len(loops) == 1 and dotted(loops[0].iter) == 'self._update_events' and \
      len(sets) == 1 and core.in_block(sets[0], loops[0], 'body') and \
      dotted(sets[0].func.value) == dotted(loops[0].target)
  report.check(ok, rule, f.qualname, 'sets-all', f.node,
               'every registered event is set (iteration over the registry '
               'itself)',
               'notify_update does not set every event of the live registry')
  if loops and clears:
    wl = [w for w in core.enclosing_withs(loops[0])
          if 'self._lock' in core.with_item_names(w)]
    wc = [w for w in core.enclosing_withs(clears[0])
          if 'self._lock' in core.with_item_names(w)]
    ws = [w for w in core.enclosing_withs(sets[0])
          if 'self._lock' in core.with_item_names(w)] if sets else []
    ok = bool(wl) and bool(wc) and wl[0] is wc[0] and (not sets or (
        ws and ws[0] is wl[0]))
    report.check(
        ok, rule, f.qualname, 'one-lock-region', f.node,
        'set-all loop and clear() are in one region of the subscription lock',
        'the events are set and the registry cleared outside one lock region: '
        'a watcher registering in between is cleared without ever being set '
        '(it misses the next update and can block forever)')
    if ok:
      b = wl[0].body
      report.check(lib.stmt_index(b, loops[0]) < lib.stmt_index(b, clears[0]),
                   rule, f.qualname, 'set-then-clear', f.node,
                   'events are set before the registry is cleared')
  else:
    report.violation(rule, f.qualname, 'no-loop-or-clear', f.node,
                     'notify_update lacks the set loop or the clear')
  n = 0
  for m, node in repo.all_nodes(ast.Attribute):
    if node.attr == '_update_events':
      n += 1
      owner = core.owner_qualname(node)
      ok = m.relpath == UT and owner in (MIX + '.__init__',
                                         MIX + '.asdict_with_event',
                                         MIX + '.notify_update')
      report.check(ok, rule, owner, node, node,
                   '_update_events used in %s' % owner,
                   'the event registry is accessed from %s (%s)' %
                   (owner, m.relpath))
  report.expect_instances(rule, n, 4, 'uses of the registry')
  init = repo.func(UT, MIX + '.__init__')
  lk = [n_ for n_ in walk_no_nested(init.node) if isinstance(n_, ast.Assign) and
        dotted(n_.targets[0]) == 'self._lock']
  report.check(len(lk) == 1 and call_name(lk[0].value) in ('threading.Lock',
                                                           'threading.RLock'),
               rule, init.qualname, 'lock', init.node,
               'one lock object per subscribable instance')


def _followed_by_notify(report, rule, finfo, write_pred, what, exceptions=()):
  g = lib.cfg(finfo)
  ws = [n for n in g.nodes if n.kind == 'stmt' and n.ast is not None and
        write_pred(n)]
  nots = [n for n, c in lib.nodes_with_call(g) if last_attr(c) in (
      'notify_update', '_notify_update')]
  def leaves(n):
    # returning, or handing control to the with-body (yield), both let other
    # code run: the notification must have happened by then
    return n is g.exit or (n.kind == 'stmt' and any(
        isinstance(s, ast.Yield) for s in n.subnodes()))

  for w in ws:
    ok = g.must_pass(w, leaves,
                     lambda n: any(n is x for x in nots),
                     avoid_edge=lambda a, l, b: l == 'exc')
    report.check(
        ok, rule, finfo.qualname, 'write-without-notify:' + norm(w.ast), w.ast,
        '%s: %s is followed by notify_update() on every normal path' %
        (finfo.qualname, what),
        '%s changes %s (%s) but a normal path returns without '
        'notify_update(): a watcher waiting on its event never learns of the '
        'change' % (finfo.qualname, what, norm(w.ast)))
  return len(ws)


def r3_changes_notify(report, repo):
  rule = 'C18-R3'
  report.rule(rule, 'paired write (T-MUST): status, running phase, start time, '
              'measurement value, log record, prompt: each write is followed '
              'by notify_update() on all normal paths of the same function')
  n = 0

  def assigns(target):
    return lambda node: any(dotted(t) == target
                            for t in core.assigned_targets(node.ast))

  for q in ('TestState.set_status_running', 'TestState._finalize'):
    n += _followed_by_notify(report, rule, repo.func(TS, q),
                             assigns('self._status'), 'the test status')
  n += _followed_by_notify(report, rule,
                           repo.func(TS, 'TestState.running_phase_context'),
                           assigns('self.running_phase_state'),
                           'the running phase')
  k = _followed_by_notify(
      report, rule, repo.func(TS, 'TestState.running_phase_context'),
      lambda node: any(isinstance(s, ast.Call) and
                       last_attr(s) == 'add_phase_record'
                       for s in node.subnodes()), 'the phase records')
  report.expect_instances(rule, k, 1, 'phase record appends in the context')
  n += _followed_by_notify(report, rule,
                           repo.func(TS, 'TestState.mark_test_started'),
                           assigns('self.test_record.start_time_millis'),
                           'the start time')
  report.expect_instances(rule, n, 5, 'state writes')
  # other writers of the two armed fields
  for attr, allowed in (('_status', ('TestState.__init__',
                                     'TestState.set_status_running',
                                     'TestState._finalize')),
                        ('running_phase_state',
                         ('TestState.__init__',
                          'TestState.running_phase_context',
                          'TestState.stop_running_phase'))):
    for m, node, kind, tgt in core.attr_write_sites(repo, attr, modules=[TS]):
      owner = core.owner_qualname(node)
      if owner == 'TestState.stop_running_phase':
        report.info(rule, node, 'exception: stop_running_phase only clears the '
                    'marker for the stopping thread; the executor thread\'s '
                    'context finally republishes and notifies')
        continue
      report.check(owner in allowed, rule, owner, node, node,
                   '%s written in %s' % (attr, owner),
                   '%s is written in %s, which does not notify' % (attr, owner))
  # measurement value -> notification chain
  c = repo.func(ME, 'Collection.__setitem__')
  ok = len(core.calls_in(c.node, attr='notify_value_set')) == 1
  nv = repo.func(ME, 'Measurement.notify_value_set')
  g = lib.cfg(nv)
  cb = lib.nodes_with_call(g, name='self._notification_cb')
  ok = ok and len(cb) == 1 and g.dominated_by_edge(
      cb[0][0], lambda s, l, d: s.kind == 'test' and l == 'T' and
      dotted(s.ast) == 'self._notification_cb')
  # reached on every normal path when a callback is set
  reach = g.reach([g.entry], avoid=lambda n_: n_ is cb[0][0] if cb else False,
                  avoid_edge=lambda a, l, b: l == 'exc' or (
                      a.kind == 'test' and l == 'F' and
                      dotted(a.ast) == 'self._notification_cb'))
  ok = ok and not any(x is g.exit for x in reach)
  d = repo.func(ME, 'DimensionedMeasuredValue.__setitem__')
  gd = lib.cfg(d)
  st = [n_ for n_ in gd.nodes if n_.kind == 'stmt' and isinstance(
      n_.ast, ast.Assign) and isinstance(n_.ast.targets[0], ast.Subscript) and
        dotted(n_.ast.targets[0].value) == 'self.value_dict']
  nd = lib.nodes_with_call(gd, name='self.notify_value_set')
  ok = ok and len(st) == 1 and len(nd) == 1 and gd.dominated_by(
      nd[0][0], lambda x: x is st[0])
  gi = repo.func(ME, 'Collection.__getitem__')
  ok = ok and any(last_attr(c_) == 'with_notify' and
                  (dotted(c_.args[0]) or '').endswith('.notify_value_set')
                  for c_ in core.calls_in(gi.node))
  pn = repo.func(TS, 'PhaseState._notify')
  ok = ok and any(call_name(c_) == 'self.test_state.notify_update'
                  for c_ in core.calls_in(pn.node))
  pi = repo.func(TS, 'PhaseState.__attrs_post_init__')
  ok = ok and any(call_name(c_) == 'functools.partial' and
                  dotted(c_.args[0]) == 'self._notify'
                  for c_ in core.calls_in(pi.node))
  gp = lib.cfg(pn)
  marks = [n_ for n_, c_ in lib.nodes_with_call(
      gp, name='self._update_measurements.add')]
  nts = [n_ for n_, c_ in lib.nodes_with_call(
      gp, name='self.test_state.notify_update')]
  report.check(
      bool(marks) and bool(nts) and all(
          gp.dominated_by(x, lambda y: any(y is m for m in marks))
          for x in nts), rule, pn.qualname, 'mark-before-notify', pn.node,
      'the measurement is marked dirty before watchers are notified',
      'watchers are notified before the measurement is marked dirty: a '
      'watcher woken in the gap re-subscribes and snapshots the stale '
      'rendering, and no further notification follows')
  report.check(ok, rule, 'measurement-chain', 'set->notify', c.node,
               'measurement assignment -> notify_value_set -> '
               '_notification_cb -> PhaseState._notify -> '
               'TestState.notify_update (chain resolved, each link on every '
               'normal path)',
               'the chain from a measurement assignment to '
               'TestState.notify_update is broken')
  e = repo.func(LG, 'RecordHandler.emit')
  ge = lib.cfg(e)
  addl = lib.nodes_with_call(ge, attr='add_log_record')
  nt = lib.nodes_with_call(ge, name='self._notify_update')
  ok = len(addl) == 1 and len(nt) == 1 and ge.must_pass(
      addl[0][0], ge.is_normal_exit, lambda x: x is nt[0][0],
      avoid_edge=lambda a, l, b: l == 'exc')
  report.check(ok, rule, e.qualname, 'log-notify', e.node,
               'a captured log record is followed by the update notification')
  ih = core.calls_in(repo.func(TS, 'TestState.__init__').node,
                     attr='initialize_record_handler')
  report.check(len(ih) == 1 and dotted(ih[0].args[2]) == 'self.notify_update',
               rule, 'TestState.__init__', 'handler-wired', TS,
               'the record handler is given TestState.notify_update')
  ui = 0
  for q in ('UserInput.remove_prompt', 'UserInput.start_prompt'):
    f = repo.func(UI, q)
    gq = lib.cfg(f)
    ws = [x for x in gq.nodes if x.kind == 'stmt' and x.ast is not None and any(
        dotted(t) == 'self._prompt' for t in core.assigned_targets(x.ast))]
    for w in ws:
      ui += 1
      nots = [x for x, c_ in lib.nodes_with_call(gq, name='self.notify_update')]
      ok = gq.must_pass(w, gq.is_normal_exit,
                        lambda x: any(x is y for y in nots),
                        avoid_edge=lambda a, l, b: l == 'exc') and all(
                            'self._cond' in core.held_withs(y.ast)
                            for y in nots) and \
          'self._cond' in core.held_withs(w.ast)
      report.check(ok, rule, f.qualname, 'prompt-notify', w.ast,
                   'the prompt change and its notification are inside the same '
                   '_cond region')
  report.expect_instances(rule, ui, 2, 'prompt writes')


def r4_wait_for_plug_update(report, repo):
  rule = 'C18-R4'
  report.rule(rule, 'T-AGREE: wait_for_plug_update compares the snapshot '
              'returned together with the event; no snapshot is taken before '
              'subscribing; it waits on that event')
  f = repo.func(PL, 'PlugManager.wait_for_plug_update')
  g = lib.cfg(f)
  subs = lib.nodes_with_call(g, attr='asdict_with_event')
  report.check(len(subs) == 1, rule, f.qualname, 'subscribes-once', f.node,
               'exactly one subscription')
  if len(subs) != 1:
    return
  sn, sc = subs[0]
  st = sn.ast
  ok = isinstance(st, ast.Assign) and isinstance(st.targets[0], ast.Tuple) and \
      len(st.targets[0].elts) == 2
  report.check(ok, rule, f.qualname, 'unpacks', st,
               '(state, event) obtained together')
  if not ok:
    return
  state, event = [dotted(e) for e in st.targets[0].elts]
  cmps = [n for n in g.nodes if n.kind == 'test' and isinstance(
      n.ast, ast.Compare) and 'remote_state' in [dotted(n.ast.left)] +
          [dotted(c) for c in n.ast.comparators]]
  okc = bool(cmps) and all(
      state in [dotted(n.ast.left)] + [dotted(c) for c in n.ast.comparators]
      and g.dominated_by(n, lambda x: x is sn) for n in cmps)
  report.check(okc, rule, f.qualname, 'compares-subscribed-snapshot',
               cmps[0].ast if cmps else f.node,
               'remote_state is compared with the snapshot taken at '
               'subscription time',
               'remote_state is compared with a snapshot other than the one '
               'obtained with the event (e.g. an earlier _asdict() fast path): '
               'an update between that snapshot and the subscription is lost')
  early = [n for n, c in lib.nodes_with_call(g, attr='_asdict')
           if not g.dominated_by(n, lambda x: x is sn)]
  report.check(not early, rule, f.qualname, 'no-earlier-snapshot',
               early[0].ast if early else f.node,
               'no snapshot is taken before subscribing',
               'a snapshot is taken before the subscription')
  waits = [n for n, c in lib.nodes_with_call(g, name=event + '.wait')]
  report.check(len(waits) == 1, rule, f.qualname, 'waits-on-that-event', f.node,
               'waits on the event returned by the subscription')
  late = [n for n, c in lib.nodes_with_call(g, attr='_asdict')]
  ok = all(g.dominated_by_edge(
      n, lambda s, l, d: s.kind == 'test' and l == 'T' and
      call_name(s.ast) == event + '.wait') for n in late)
  report.check(ok, rule, f.qualname, 'resnapshot-after-wake', f.node,
               'a fresh snapshot is returned only after the event fired')


def run(report, repo):
  report.guard(r1_snapshot_protocol, report, repo)
  report.guard(r2_notify, report, repo)
  report.guard(r3_changes_notify, report, repo)
  report.guard(r4_wait_for_plug_update, report, repo)
  # the dirty-measurement set is swapped before the refresh loop, so a value
  # set concurrently keeps its dirty mark (shared C10-R5)
  from sa.rules import c10  # pylint: disable=g-import-not-at-top
  report.guard(c10.r5_phase_state, report, repo, rule='C18-R5')
  from sa.rules import extra4  # pylint: disable=g-import-not-at-top
  report.guard(extra4.snapshot_is_pure, report, repo, 'C18-R6')
  from sa.rules import extra5 as _e5d  # pylint: disable=g-import-not-at-top
  report.guard(_e5d.prompt_writes_notify, report, repo, 'C18-R8')
