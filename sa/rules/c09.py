"""C09 - execute() hands a complete, final record to every callback once."""

import ast

from sa import cfg as cfgm
from sa import core, lib
from sa.core import call_name, dotted, last_attr, norm, walk_no_nested
from sa.lib import ends_with

DECIDES = (
    'exit-path structure of Test.execute (finalize + callback loop in the '
    'finally of the wait try, deregistration / close / executor reset in the '
    'inner finally); the callback loop iterates the registration list itself, '
    'in order, passes the same final record once per callback inside a '
    'try/except that neither re-raises nor leaves the loop; check-then-create '
    'of the executor is atomic under Test._lock and the overlap guard tests '
    'only the executor slot; _finalize / finalize_phase / TestExecutor.finalize '
    'assign every final field; the running-phase context clears the running '
    'markers in its finally; log-handler add/remove pairing through '
    'TestState.__init__/close with the same uid object; metadata (test name, '
    'config snapshot) written before the executor is constructed; execute() '
    'returns outcome == PASS.')
DOES_NOT_DECIDE = (
    'numeric order of timestamps (start <= end is a value property; only "end '
    'assigned after the start fix-up" is shown); behaviour of callbacks.')

TD = 'openhtf/core/test_descriptor.py'
TE = 'openhtf/core/test_executor.py'
TS = 'openhtf/core/test_state.py'
TR = 'openhtf/core/test_record.py'
LG = 'openhtf/util/logs.py'


def r1_exit_paths(report, repo, rule='C09-R1'):
  report.rule(rule, 'T-MUST: Test.execute: finalize() and the callbacks loop in '
              'the finally of the wait try; deregistration, executor close and '
              'reset in the inner finally')
  f = repo.func(TD, 'Test.execute')
  waits = core.calls_in(f.node, name='self._executor.wait')
  report.expect_instances(rule, len(waits), 1, 'executor waits')
  outer = None
  for t, fld in core.enclosing_try_field(waits[0]):
    if fld == 'body' and t.finalbody:
      outer = t
      break
  if outer is None:
    report.violation(rule, f.qualname, 'wait-try-finally', waits[0],
                     'the wait is not inside a try/finally: KeyboardInterrupt '
                     'skips finalisation and callbacks')
    return None
  fin = core.calls_in(f.node, name='self._executor.finalize')
  loops = [n for n in walk_no_nested(f.node) if isinstance(n, ast.For) and
           any(isinstance(x, ast.Attribute) and x.attr == 'output_callbacks'
               for x in ast.walk(n.iter))]
  report.expect_instances(rule, len(fin), 1, 'finalize calls')
  report.check(all(core.in_block(c, outer, 'finalbody') for c in fin) and
               len(loops) == 1 and core.in_block(loops[0], outer, 'finalbody'),
               rule, f.qualname, 'finalize+callbacks-in-finally', outer,
               'finalize() and the callbacks loop are in the finally of the '
               'wait try (also on the KeyboardInterrupt re-raise path)',
               'finalize()/callbacks are not in the finally block of the wait '
               'try: an interrupt or error skips the output callbacks')
  inner = [t for t in walk_no_nested(outer) if isinstance(t, ast.Try) and
           t is not outer and t.finalbody and
           any(core.in_block(t, outer, 'finalbody') for _ in [0]) and
           any(core.in_block(c, t, 'body') for c in fin)]
  if not inner:
    report.violation(rule, f.qualname, 'cleanup-finally', outer,
                     'deregistration / close are not in a finally protecting '
                     'finalisation and callbacks')
    return loops[0] if loops else None
  it = inner[0]
  dels = [s for s in it.finalbody if isinstance(s, ast.Delete) and any(
      isinstance(t, ast.Subscript) and ends_with(dotted(t.value) or '',
                                                 'TEST_INSTANCES')
      for t in s.targets)]
  closes = [c for s in it.finalbody for c in core.calls_in(
      s, name='self._executor.close')]
  resets = [s for s in it.finalbody if isinstance(s, ast.Assign) and
            dotted(s.targets[0]) == 'self._executor' and isinstance(
                s.value, ast.Constant) and s.value.value is None]
  ok = len(dels) == 1 and len(closes) == 1 and len(resets) == 1 and \
      it.finalbody.index(resets[0]) > lib.stmt_index(it.finalbody, closes[0])
  report.check(ok, rule, f.qualname, 'cleanup', it,
               'inner finally: del TEST_INSTANCES[uid]; _executor.close(); '
               '_executor = None (in that order)',
               'inner finally does not deregister, close and reset the '
               'executor: the Test stays registered for SIGINT / keeps its '
               'log handler / cannot be executed again')
  return loops[0] if loops else None


def r2_callbacks(report, repo, loop):
  rule = 'C09-R2'
  report.rule(rule, 'T-SHIELD/T-AGREE: the loop iterates '
              'self._test_options.output_callbacks itself, calls each once '
              'with final_state.test_record inside try/except Exception that '
              'neither re-raises nor leaves the loop')
  f = repo.func(TD, 'Test.execute')
  if loop is None:
    raise core.AnalysisError('anchor: callbacks loop in Test.execute')
  report.check(dotted(loop.iter) == 'self._test_options.output_callbacks', rule,
               f.qualname, 'iterates-registration-list', loop,
               'iteration over the registration list (registration order)',
               'callbacks are iterated over %s, not the registration list '
               'itself' % norm(loop.iter))
  var = dotted(loop.target)
  # the local bound to the executor's finalised state
  fsn = lib.local_from(f, lib.calls(name='self._executor.finalize'),
                       'final_state')
  calls = [c for c in core.calls_in(loop) if dotted(c.func) == var]
  report.check(len(calls) == 1, rule, f.qualname, 'one-call', loop,
               'each callback is called exactly once per iteration',
               'callback invoked %d times per iteration' % len(calls))
  for c in calls:
    ok = len(c.args) == 1 and dotted(c.args[0]) == fsn + '.test_record' \
        and not c.keywords
    report.check(ok, rule, f.qualname, 'same-record', c,
                 'callback receives final_state.test_record',
                 'callback receives %s instead of the final record' %
                 (norm(c.args[0]) if c.args else 'nothing'))
    sh = lib.shielded_by_try(c, ('Exception', 'BaseException', None))
    ok = sh is not None and any(p is loop for p in core.parents(sh[0])) and \
        lib.handler_swallows(sh[1]) and not any(
            isinstance(n, ast.Continue) and False for n in ast.walk(sh[1]))
    report.check(ok, rule, f.qualname, 'shield-inside-loop', c,
                 'callback call shielded by try/except Exception inside the '
                 'loop; handler neither raises, returns nor breaks',
                 'a raising callback is not contained inside the loop: later '
                 'callbacks are not called')
  for c in calls:
    sh = lib.shielded_by_try(c, ('Exception', 'BaseException', None))
    if sh is None:
      continue
    # the handler itself must not be able to fail on behalf of the callback:
    # besides logging it calls nothing with the callback object
    risky = [st for st in sh[1].body if isinstance(st, ast.Expr) and isinstance(
        st.value, ast.Call) and not (
            isinstance(st.value.func, ast.Attribute) and
            st.value.func.attr in cfgm._LOG_METHODS and 'log' in (  # pylint: disable=protected-access
                dotted(st.value.func.value) or '').lower()) and any(
                    dotted(a) == var for a in st.value.args)]
    report.check(not risky, rule, f.qualname, 'handler-only-logs', sh[1],
                 'the handler only logs',
                 'the handler passes the failing callback to `%s`: if that '
                 'raises (e.g. an unhashable callback put into a set) the '
                 'exception leaves the loop and later callbacks never get the '
                 'record' % (norm(risky[0].value.func) if risky else ''))
  bad = [n for n in walk_no_nested(loop)
         if isinstance(n, (ast.Break, ast.Return))]
  report.check(not bad, rule, f.qualname, 'loop-not-left', loop,
               'callbacks loop has no break/return')
  # registration keeps every callback it is given, in call order
  reg = repo.func(TD, 'Test.add_output_callbacks')
  va = reg.node.args.vararg.arg if reg.node.args.vararg else None
  muts = [c for c in core.calls_in(reg.node)
          if isinstance(c.func, ast.Attribute) and c.func.attr in core.MUTATORS
          and ends_with(dotted(c.func.value) or '', 'output_callbacks')]
  ok = len(muts) == 1 and muts[0].func.attr == 'extend' and \
      len(muts[0].args) == 1 and dotted(muts[0].args[0]) == va and not any(
          isinstance(p, (ast.If, ast.For, ast.While, ast.Try))
          for p in core.parents(muts[0]) if p is not reg.node and any(
              q is reg.node for q in core.parents(p)))
  report.check(ok, rule, reg.qualname, 'registers-all', reg.node,
               'add_output_callbacks extends the registration list with every '
               'callback given, unconditionally',
               'add_output_callbacks filters / reorders the callbacks it is '
               'given (%s): a registered callback is dropped (e.g. '
               'de-duplication by == drops a distinct equal object) and never '
               'receives the record' % [norm(m) for m in muts])
  fs = [n for n in walk_no_nested(f.node) if isinstance(n, ast.Assign) and
        any(core.is_name(t, fsn) for t in n.targets)]
  report.check(len(fs) == 1 and call_name(fs[0].value) ==
               'self._executor.finalize', rule, f.qualname, 'final_state',
               f.node, 'final_state is the executor\'s finalised state, bound '
               'once')


def r3_atomic_create(report, repo):
  rule = 'C09-R3'
  report.rule(rule, 'T-REGION/T-DOM: the overlap guard and the creation of the '
              'executor are in one `with self._lock` region; creation is '
              'reachable only when the executor slot was empty; state and '
              'abort_from_sig_int read the slot under the same lock')
  f = repo.func(TD, 'Test.execute')
  g = lib.cfg(f)
  creates = [n for n in g.nodes if n.kind == 'stmt' and isinstance(
      n.ast, ast.Assign) and dotted(n.ast.targets[0]) == 'self._executor' and
             isinstance(n.ast.value, ast.Call)]
  report.expect_instances(rule, len(creates), 1, 'executor creations')
  c = creates[0]
  report.check(last_attr(c.ast.value) == 'TestExecutor', rule, f.qualname,
               'creates TestExecutor', c.ast, 'executor slot receives a fresh '
               'TestExecutor')

  def empty_slot(s, l, d):
    if s.kind != 'test':
      return False
    e = s.ast
    if dotted(e) == 'self._executor':
      return l == 'F'
    if isinstance(e, ast.Compare) and len(e.ops) == 1 and \
        dotted(e.left) == 'self._executor' and isinstance(
            e.comparators[0], ast.Constant) and e.comparators[0].value is None:
      return l == ('F' if isinstance(e.ops[0], ast.IsNot) else 'T')
    return False

  report.check(
      g.dominated_by_edge(c, empty_slot), rule, f.qualname, 'overlap-guard',
      c.ast, 'executor created only when the slot was empty (else '
      'InvalidTestStateError)',
      'a new executor can be created although self._executor is still set '
      '(e.g. guard weakened by an extra condition): a second execute() '
      'overlapping the first one - also while it is still calling output '
      'callbacks - is accepted')
  guards = [n for n in g.nodes if n.kind == 'test' and (
      dotted(n.ast) == 'self._executor' or (
          isinstance(n.ast, ast.Compare) and
          dotted(n.ast.left) == 'self._executor'))]
  region = [w for w in core.enclosing_withs(c.ast)
            if 'self._lock' in core.with_item_names(w)]
  ok = bool(region) and bool(guards) and all(
      any(x is region[0] for x in core.enclosing_withs(gd.ast))
      for gd in guards)
  report.check(ok, rule, f.qualname, 'same-region', c.ast,
               'guard and creation inside one `with self._lock` region',
               'guard and creation are not in one lock region: two threads can '
               'both pass the guard')
  raises = [n for n in g.nodes if n.kind == 'stmt' and isinstance(
      n.ast, ast.Raise) and n.ast.exc is not None and
            last_attr(n.ast.exc) == 'InvalidTestStateError']
  report.check(bool(raises), rule, f.qualname, 'raises', f.node,
               'overlap is refused with InvalidTestStateError')
  for q in ('Test.state', 'Test.abort_from_sig_int'):
    ff = repo.func(TD, q)
    reads = [n for n in walk_no_nested(ff.node) if isinstance(n, ast.Attribute)
             and dotted(n) == 'self._executor']
    report.expect_instances(rule, len(reads), 1, 'executor reads in ' + q)
    ok = all('self._lock' in core.held_withs(r) for r in reads)
    report.check(ok, rule, ff.qualname, 'read-under-lock', ff.node,
                 '%s reads the executor slot under Test._lock' % q)


def _must_assign(report, rule, finfo, target, what, value_pred=None):
  g = lib.cfg(finfo)

  def is_asg(n):
    if n.kind != 'stmt' or n.ast is None:
      return False
    for t in core.assigned_targets(n.ast):
      if dotted(t) == target:
        if value_pred is None or value_pred(getattr(n.ast, 'value', None)):
          return True
    return False

  reach = g.reach([g.entry], avoid=is_asg, avoid_edge=lambda a, l, b: l == 'exc')
  ok = not any(n is g.exit for n in reach)
  report.check(ok, rule, finfo.qualname, 'assigns:' + target, finfo.node,
               '%s: every normal path assigns %s' % (finfo.qualname, what),
               '%s: a normal path does not assign %s' % (finfo.qualname, what))
  return ok


def r4_final_fields(report, repo):
  rule = 'C09-R4'
  report.rule(rule, 'T-ASSIGN: _finalize assigns outcome, end time, status '
              'COMPLETED, fixes a zero start time, notifies; finalize_phase '
              'assigns end time and options on every path of '
              'PhaseState.finalize; TestExecutor.finalize defaults dut_id')
  f = repo.func(TS, 'TestState._finalize')
  _must_assign(report, rule, f, 'self.test_record.outcome', 'the outcome',
               lambda v: dotted(v) == lib.param_names(f.node)[1])
  _must_assign(report, rule, f, 'self.test_record.end_time_millis',
               'the end time', lambda v: call_name(v) == 'util.time_millis')
  _must_assign(report, rule, f, 'self._status', 'status COMPLETED',
               lambda v: ends_with(dotted(v) or '', 'Status.COMPLETED'))
  g = lib.cfg(f)
  nots = lib.nodes_with_call(g, name='self.notify_update')
  st = [n for n in g.nodes if n.kind == 'stmt' and any(
      dotted(t) == 'self._status' for t in core.assigned_targets(n.ast))]
  ok = bool(nots) and bool(st) and g.must_pass(
      st[0], g.is_normal_exit, lambda n: any(n is x for x, _ in nots),
      avoid_edge=lambda a, l, b: l == 'exc')
  report.check(ok, rule, f.qualname, 'notify', f.node,
               'watchers are notified after the state became COMPLETED')
  fix = [n for n in g.nodes if n.kind == 'stmt' and any(
      dotted(t) == 'self.test_record.start_time_millis'
      for t in core.assigned_targets(n.ast))]
  end = [n for n in g.nodes if n.kind == 'stmt' and any(
      dotted(t) == 'self.test_record.end_time_millis'
      for t in core.assigned_targets(n.ast))]
  ok = len(fix) == 1 and g.dominated_by_edge(
      fix[0], lambda s, l, d: s.kind == 'test' and l == 'T' and isinstance(
          s.ast, ast.Compare) and dotted(s.ast.left) ==
      'self.test_record.start_time_millis') and bool(end) and not any(
          x is fix[0] for x in g.reach([end[0]]))
  report.check(ok, rule, f.qualname, 'start-fixup-before-end', f.node,
               'a zero start time is fixed up before the end time is taken')
  fp = repo.func(TR, 'PhaseRecord.finalize_phase')
  _must_assign(report, rule, fp, 'self.end_time_millis', 'the phase end time')
  _must_assign(report, rule, fp, 'self.options', 'the phase options',
               lambda v: dotted(v) == lib.param_names(fp.node)[1])
  te = repo.func(TE, 'TestExecutor.finalize')
  gt = lib.cfg(te)
  ds = [n for n in gt.nodes if n.kind == 'stmt' and any(
      dotted(t) == 'self.test_state.test_record.dut_id'
      for t in core.assigned_targets(n.ast))]
  ok = len(ds) == 1 and gt.dominated_by_edge(
      ds[0], lambda s, l, d: s.kind == 'test' and l == 'T' and isinstance(
          s.ast, ast.Compare) and dotted(s.ast.left) ==
      'self.test_state.test_record.dut_id' and isinstance(s.ast.ops[0], ast.Is))
  if ok:
    # no path returns the state with dut_id None untested
    tests = [n for n in gt.nodes if n.kind == 'test' and isinstance(
        n.ast, ast.Compare) and dotted(n.ast.left) ==
             'self.test_state.test_record.dut_id']
    rets = [n for n in gt.nodes if n.kind == 'stmt' and isinstance(
        n.ast, ast.Return)]
    ok = all(gt.dominated_by(r, lambda n: any(n is t for t in tests))
             for r in rets) and dotted(ds[0].ast.value) == \
        'self._test_options.default_dut_id'
  report.check(ok, rule, te.qualname, 'default-dut-id', te.node,
               'finalize() substitutes default_dut_id when the test set none')
  from sa.rules import c05  # pylint: disable=g-import-not-at-top
  c05.r7_record_once(report, repo, rule='C09-R4p')


def r5_running_markers(report, repo):
  rule = 'C09-R5'
  report.rule(rule, 'T-MUST: running_phase_context\'s finally clears '
              'running_phase_state and the cached TestApi')
  f = repo.func(TS, 'TestState.running_phase_context')
  tries = [n for n in walk_no_nested(f.node) if isinstance(n, ast.Try) and
           n.finalbody]
  report.expect_instances(rule, len(tries), 1, 'try/finally in the context')
  t = tries[0]
  for tgt in ('self.running_phase_state', 'self._running_test_api'):
    ok = any(isinstance(s, ast.Assign) and dotted(s.targets[0]) == tgt and
             isinstance(s.value, ast.Constant) and s.value.value is None
             for s in t.finalbody)
    report.check(ok, rule, f.qualname, 'clears:' + tgt, t,
                 'finally resets %s to None' % tgt,
                 '%s is not cleared in the finally: a finished phase stays '
                 'marked running / a stale TestApi is reused' % tgt)


def r6_handler_pairing(report, repo):
  rule = 'C09-R6'
  report.rule(rule, 'T-PAIR (call graph): record handler installed once in '
              'TestState.__init__, removed in TestState.close with the same '
              'uid object; TestExecutor.close -> TestState.close; execute() -> '
              'executor.close() on every exit after creation')
  adds = [(m, c) for m, c in core.call_sites(repo,
                                             attr='initialize_record_handler')]
  report.expect_instances(rule, len(adds), 1, 'handler installations')
  for m, c in adds:
    owner = core.owner_qualname(c)
    report.check(m.relpath == TS and owner == 'TestState.__init__', rule, owner,
                 c, c, 'record handler installed in TestState.__init__ only')
  rems = [(m, c) for m, c in core.call_sites(repo, attr='remove_record_handler')]
  report.expect_instances(rule, len(rems), 1, 'handler removals')
  for m, c in rems:
    owner = core.owner_qualname(c)
    report.check(m.relpath == TS and owner == 'TestState.close', rule, owner, c,
                 c, 'record handler removed in TestState.close')
  init = repo.func(TS, 'TestState.__init__')
  uid_param = dotted(adds[0][1].args[0]) if adds and adds[0][1].args else None
  stores = [n for n in walk_no_nested(init.node) if isinstance(n, ast.Assign)
            and dotted(n.targets[0]) == 'self.execution_uid']
  ok = uid_param in lib.param_names(init.node) and len(stores) == 1 and \
      dotted(stores[0].value) == uid_param and rems and \
      dotted(rems[0][1].args[0]) == 'self.execution_uid'
  report.check(bool(ok), rule, 'TestState', 'same-uid-object', init.node,
               'the uid given to the handler is the object stored in '
               'self.execution_uid and used for removal (removal compares by '
               'identity)',
               'handler installation and removal do not use the same uid '
               'object: remove_record_handler compares with `is`, the handler '
               'would never be removed')
  tc = repo.func(TE, 'TestExecutor.close')
  cs = [c for c in core.calls_in(tc.node, attr='close')
        if (dotted(c.func.value) or '').endswith('test_state')]
  report.check(len(cs) == 1, rule, tc.qualname, 'state-close', tc.node,
               'TestExecutor.close closes the TestState')
  ws = core.calls_in(tc.node, name='self.wait')
  report.check(len(ws) == 1 and lib.stmt_index(tc.node.body, ws[0]) <
               lib.stmt_index(tc.node.body, cs[0]) if cs else False, rule,
               tc.qualname, 'wait-before-close', tc.node,
               'the executor thread is joined before the handler is removed')


def r7_metadata(report, repo):
  rule = 'C09-R7'
  report.rule(rule, 'T-ORDER: metadata test_name and config snapshot are '
              'written before the executor is constructed, inside the lock')
  f = repo.func(TD, 'Test.execute')
  g = lib.cfg(f)
  creates = [n for n in g.nodes if n.kind == 'stmt' and isinstance(
      n.ast, ast.Assign) and dotted(n.ast.targets[0]) == 'self._executor' and
             isinstance(n.ast.value, ast.Call)]
  for key, valpred, what in (
      ('test_name', lambda v: dotted(v) == 'self._test_options.name',
       'the test name'),
      ('config', lambda v: call_name(v) == 'CONF._asdict',
       'the configuration snapshot CONF._asdict()')):
    ws = [n for n in g.nodes if n.kind == 'stmt' and isinstance(
        n.ast, ast.Assign) and isinstance(n.ast.targets[0], ast.Subscript) and
          ends_with(dotted(n.ast.targets[0].value) or '', 'metadata') and
          core.const_str(n.ast.targets[0].slice) == key]
    ok = len(ws) == 1 and valpred(ws[0].ast.value) and all(
        g.dominated_by(c, lambda n: n is ws[0]) for c in creates) and \
        'self._lock' in core.held_withs(ws[0].ast)
    report.check(ok, rule, f.qualname, 'metadata:' + key, f.node,
                 'metadata[%r] = %s before the executor exists, under the lock'
                 % (key, what),
                 'metadata[%r] is not set to %s before the executor (and with '
                 'it the per-run deep copy of the metadata) is created' %
                 (key, what))


def run(report, repo):
  loop = report.guard(r1_exit_paths, report, repo)
  report.guard(r2_callbacks, report, repo, loop)
  report.guard(r3_atomic_create, report, repo)
  report.guard(r4_final_fields, report, repo)
  report.guard(r5_running_markers, report, repo)
  report.guard(r6_handler_pairing, report, repo)
  report.guard(r7_metadata, report, repo)
  from sa.rules import c01  # pylint: disable=g-import-not-at-top
  report.guard(c01.r8_execute_returns_pass, report, repo, rule='C09-R8')
  report.guard(c01.r1_who, report, repo, rule='C09-R10')
  from sa.rules import c04  # pylint: disable=g-import-not-at-top
  report.guard(c04.r8_single_body, report, repo, rule='C09-R9')
  from sa.rules import extra4  # pylint: disable=g-import-not-at-top
  report.guard(extra4.state_before_any_exit, report, repo, 'C09-R11')
  from sa.rules import extra5 as _e5  # pylint: disable=g-import-not-at-top
  report.guard(_e5.no_bare_next, report, repo, 'C09-R10', _e5.LG, 'remove_record_handler', 'the error escapes Test.execute\'s cleanup before the executor is released, and every later execute() is refused')
