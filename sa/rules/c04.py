"""C04 - operator abort."""

import ast

from sa import cfg as cfgm
from sa import core, lib, locks
from sa.core import call_name, dotted, last_attr, norm, walk_no_nested
from sa.lib import ends_with

DECIDES = (
    'the protocol shape: the abort flag is tested before every node of an '
    'abortable sequence; the stop flag is tested, the phase thread started and '
    'published inside one lock region, and stop() sets the flag before reading '
    'the published thread under the same lock; abort() is a two-step ladder '
    '(first: durable flag then stop; second: full-abort flag and forced stop); '
    'ABORTED wins at finalisation; every path from the executor thread entry to '
    'a non-teardown phase start, and every repeat back-edge, passes a test of '
    'an abort indication that is durable w.r.t. abort(); no lock taken by the '
    'SIGINT path is held by the interrupted main thread after the test became '
    'discoverable; the interprocedural lock-order graph of the executor locks '
    'is acyclic and no unbounded wait is made under a lock; single running '
    'phase assertion; KeyboardInterrupt handler waits again and re-raises '
    'inside the try whose finally finalises and outputs.')
DOES_NOT_DECIDE = (
    'absence of bad interleavings beyond these shapes (schedule quantifier) and '
    'anything about timing.')

TE = 'openhtf/core/test_executor.py'
TS = 'openhtf/core/test_state.py'
PE = 'openhtf/core/phase_executor.py'
TD = 'openhtf/core/test_descriptor.py'
TH = 'openhtf/util/threads.py'
UT = 'openhtf/util/__init__.py'
PL = 'openhtf/plugs/__init__.py'


def r2_thread_publication(report, repo):
  rule = 'C04-R2'
  report.rule(rule, 'T-REGION/T-ORDER: _execute_phase_once tests _stopping, '
              'starts and publishes the phase thread in one `with '
              '_current_phase_thread_lock` region; PhaseExecutor.stop sets '
              '_stopping before reading _current_phase_thread under that lock')
  f = repo.func(PE, 'PhaseExecutor._execute_phase_once')
  g = lib.cfg(f)
  LOCK = 'self._current_phase_thread_lock'
  starts = [c for c in core.calls_in(f.node, attr='start')]
  report.expect_instances(rule, len(starts), 1, 'phase thread start calls')
  pubs = [n for n in walk_no_nested(f.node) if isinstance(n, ast.Assign) and
          any(dotted(t) == 'self._current_phase_thread' for t in n.targets) and
          not (isinstance(n.value, ast.Constant) and n.value.value is None)]
  report.expect_instances(rule, len(pubs), 1, 'phase thread publications')
  tests = [c for c in core.calls_in(f.node, name='self._stopping.is_set')]
  report.check(bool(tests), rule, f.qualname, 'stop-flag-test', f.node,
               'stop flag tested in _execute_phase_once',
               'the stop flag is no longer tested before starting a phase '
               'thread')
  region = None
  for c in starts:
    ws = [w for w in core.enclosing_withs(c) if LOCK in core.with_item_names(w)]
    report.check(bool(ws), rule, f.qualname, 'start-in-lock', c,
                 'phase_thread.start() inside the thread-publication lock',
                 'phase_thread.start() is outside %s: stop() can miss the new '
                 'thread' % LOCK)
    if ws:
      region = ws[0]
  for pnode in pubs:
    ok = region is not None and any(pnode is s or any(pnode is x for x in ast.walk(s))
                                    for s in region.body)
    report.check(ok, rule, f.qualname, 'publish-in-lock', pnode,
                 'publication of the started thread in the same lock region as '
                 'start()',
                 'self._current_phase_thread is published outside the lock '
                 'region that starts the thread: stop() between start and '
                 'publication finds no thread to kill and the body keeps '
                 'running after abort() returned')
  for t in tests:
    ok = region is not None and any(any(t is x for x in ast.walk(s))
                                    for s in region.body)
    report.check(ok, rule, f.qualname, 'test-in-lock', t,
                 'stop flag tested inside the same lock region',
                 'the stop flag is tested outside the lock region: stop() '
                 'between the test and start() is ignored')
  # start dominated by the F edge of the stop test
  for c in starts:
    for node in g.nodes_of(c):
      ok = g.dominated_by_edge(
          node, lambda s, l, d: s.kind == 'test' and l == 'F' and
          call_name(s.ast) == 'self._stopping.is_set')
      report.check(ok, rule, f.qualname, 'start-guarded', c,
                   'phase thread started only when the stop flag is clear')
  # the stopping branch writes a terminal (killed) result
  for node in g.nodes:
    if node.kind == 'test' and call_name(node.ast) == 'self._stopping.is_set':
      t = node.succ('T')
      reach = [t] + g.reach([t], avoid_edge=lambda a, l, b: l == 'exc')
      ok = any(x.kind == 'stmt' and isinstance(x.ast, ast.Return) for x in reach) \
          and not any(any(c is y for y in x.subnodes()) for x in reach
                      for c in starts)
      report.check(ok, rule, f.qualname, 'stopping-branch-returns', node.ast,
                   'when stopping, the phase is not started and the function '
                   'returns')

  s = repo.func(PE, 'PhaseExecutor.stop')
  gs = lib.cfg(s)
  sets = lib.nodes_with_call(gs, name='self._stopping.set')
  report.expect_instances(rule, len(sets), 1, '_stopping.set() calls')
  reads = [n for n in gs.nodes for sub in n.subnodes()
           if isinstance(sub, ast.Attribute) and
           dotted(sub) == 'self._current_phase_thread' and
           isinstance(sub.ctx, ast.Load)]
  report.expect_instances(rule, len(reads), 1, 'reads of the published thread')
  for r in reads:
    ok = gs.dominated_by(r, lambda n: any(n is x for x, _ in sets))
    report.check(ok, rule, s.qualname, 'set-before-read', r.ast,
                 'stop(): _stopping.set() precedes the read of the published '
                 'thread',
                 'stop() reads the published thread before setting the stop '
                 'flag: a phase started in between is neither killed nor '
                 'prevented')
    sub = [x for x in r.subnodes() if isinstance(x, ast.Attribute) and
           dotted(x) == 'self._current_phase_thread'][0]
    report.check(LOCK in core.held_withs(sub), rule, s.qualname, 'read-in-lock',
                 r.ast, 'published thread read under the publication lock')


def r3_abort_ladder(report, repo):
  rule = 'C04-R3'
  report.rule(rule, 'T-DTABLE: TestExecutor.abort: first call sets _abort then '
              'stops (not forced); with _abort already set: sets _full_abort '
              'and stops with force=True')
  f = repo.func(TE, 'TestExecutor.abort')

  def classify(expr, steps):
    if call_name(expr) == 'self._abort.is_set':
      return 'already'
    return None

  def spec(v, p):
    if p.end != 'exit':
      return None
    seq = []
    for i, (n, _) in enumerate(p.steps):
      for sub in n.subnodes():
        if isinstance(sub, ast.Call):
          cn = call_name(sub)
          if cn == 'self._abort.set':
            seq.append('abort.set')
          elif cn == 'self._full_abort.set':
            seq.append('full.set')
          elif cn == 'self._stop_phase_executor':
            fv = core.get_kw(sub, 'force', 0)
            forced = isinstance(fv, ast.Constant) and fv.value is True
            if fv is not None and not isinstance(fv, ast.Constant):
              # e.g. force=<the flag as it was read at the top>
              forced = lib.eval_expr(fv, v, classify, p,
                                     before_index=i) is True
            seq.append('stop(force)' if forced else 'stop')
    want = ['full.set', 'stop(force)'] if v['already'] else ['abort.set', 'stop']
    if seq != want:
      return 'abort ladder does %s, expected %s' % (seq, want)
    return None

  lib.decision_table(report, rule, f, ['already'], classify, spec)
  # TestState.abort finalises ABORTED; _finalize lets only ABORTED override
  a = repo.func(TS, 'TestState.abort')
  fins = core.calls_in(a.node, attr='_finalize')
  ok = len(fins) == 1 and ends_with(dotted(fins[0].args[0]) or '',
                                    'Outcome.ABORTED')
  report.check(ok, rule, a.qualname, '_finalize(ABORTED)', a.node,
               'TestState.abort finalises with Outcome.ABORTED')
  fz = repo.func(TS, 'TestState._finalize')
  asserts = [n for n in walk_no_nested(fz.node) if isinstance(n, ast.Assert)]
  ok = False
  gz = lib.cfg(fz)
  outp = lib.param_names(fz.node)[1]
  for x in asserts:
    t = x.test
    if not (isinstance(t, ast.BoolOp) and isinstance(t.op, ast.Or) and
            len(t.values) == 2):
      continue
    nf = [v for v in t.values if isinstance(v, ast.UnaryOp) and isinstance(
        v.op, ast.Not) and dotted(v.operand) == 'self.is_finalized']
    rest = [v for v in t.values if not any(v is y for y in nf)]
    if len(nf) != 1 or len(rest) != 1:
      continue
    # the other disjunct: `<outcome parameter> == Outcome.ABORTED`, written
    # in place or bound to a local first
    nodes = gz.nodes_of(x)
    vals = lib.value_exprs(gz, nodes[0], rest[0]) if nodes and isinstance(
        rest[0], ast.Name) else [rest[0]]
    if not nodes and isinstance(rest[0], ast.Name):
      vals = [n.value for n in walk_no_nested(fz.node) if isinstance(
          n, ast.Assign) and core.is_name(n.targets[0], rest[0].id)]
    if vals and all(
        isinstance(v, ast.Compare) and len(v.ops) == 1 and isinstance(
            v.ops[0], ast.Eq) and {dotted(v.left), (dotted(
                v.comparators[0]) or '').split('.')[-1]} >= {outp, 'ABORTED'}
        or (isinstance(v, ast.Compare) and len(v.ops) == 1 and isinstance(
            v.ops[0], ast.Eq) and dotted(v.comparators[0]) == outp and
            (dotted(v.left) or '').endswith('Outcome.ABORTED'))
        for v in vals):
      ok = True
  report.check(ok, rule, fz.qualname, 'assert-not-finalized-or-aborting',
               fz.node, '_finalize refuses a second finalisation unless '
               'aborting')


def _durable_flags(report, repo, rule):
  """Event attributes of TestExecutor/PhaseExecutor classified w.r.t. abort()."""
  flags = {}
  for rel, cls in ((TE, 'TestExecutor'), (PE, 'PhaseExecutor')):
    init = repo.func(rel, cls + '.__init__')
    for n in walk_no_nested(init.node):
      if isinstance(n, ast.Assign) and call_name(n.value) == 'threading.Event':
        for t in n.targets:
          d = dotted(t)
          if d and d.startswith('self.'):
            flags[(cls, d[5:])] = {'clears': [], 'sets': []}
  for (cls, attr), info in flags.items():
    for rel in (TE, PE):
      for f in repo.module(rel).all_funcs():
        if f.cls is None or f.cls.name != cls:
          continue
        for c in core.calls_in(f.node):
          cn = call_name(c)
          if cn == 'self.%s.clear' % attr:
            info['clears'].append(f.qualname)
          if cn == 'self.%s.set' % attr:
            info['sets'].append(f.qualname)
  durable = {}
  for (cls, attr), info in flags.items():
    durable[(cls, attr)] = bool(info['sets']) and not info['clears']
    report.info(rule, '%s.%s' % (cls, attr),
                '%s w.r.t. abort(): set in %s, cleared in %s' %
                ('durable' if durable[(cls, attr)] else 'TRANSIENT',
                 info['sets'], info['clears']))
  return durable


def r5_durable_indication(report, repo):
  rule = 'C04-R5'
  report.rule(rule, 'durable-flag reachability: every call-graph path from '
              'TestExecutor._thread_proc to PhaseExecutor.execute_phase for a '
              'non-teardown phase, and the repeat back-edge inside '
              'execute_phase, pass a test of an Event that abort() sets and '
              'nothing clears')
  durable = _durable_flags(report, repo, rule)
  te_durable = ['self.%s.is_set' % a for (c, a), d in durable.items()
                if c == 'TestExecutor' and d]
  report.check('self._abort.is_set' in te_durable, rule, 'TestExecutor',
               '_abort durable', TE,
               'TestExecutor._abort is set by abort() and never cleared',
               'TestExecutor._abort is cleared somewhere: the first abort is no '
               'longer a durable indication')

  methods = {f.name: f for f in repo.methods(TE, 'TestExecutor')}

  def guarded(f, call):
    g = lib.cfg(f)
    nodes = g.nodes_of(call)
    return bool(nodes) and all(
        g.dominated_by_edge(
            x, lambda s, l, d: s.kind == 'test' and l == 'F' and
            call_name(s.ast) in te_durable) for x in nodes)

  # unguarded reachability from _thread_proc
  start = methods['_thread_proc']
  seen = {start.name: [start.name]}
  work = [start]
  starters = []
  while work:
    f = work.pop()
    for c in core.calls_in(f.node):
      cn = call_name(c) or ''
      if last_attr(c) == 'execute_phase' and 'phase_executor' in cn:
        if not guarded(f, c):
          starters.append((f, c, seen[f.name]))
        continue
      if not cn.startswith('self.'):
        continue
      name = cn[5:]
      if name not in methods or name == '_execute_teardown_sequence':
        continue
      if guarded(f, c):
        continue
      targets = [name]
      if name == '_execute_node':
        if f.name == '_thread_proc' and c.args and ends_with(
            dotted(c.args[0]) or '', 'phase_sequence'):
          # the root node is TestDescriptor.phase_sequence, a PhaseSequence
          targets = ['_execute_sequence']
        elif f.name == '_execute_teardown_sequence':
          targets = []
      for tname in targets:
        if tname not in seen:
          seen[tname] = seen[f.name] + [tname]
          work.append(methods[tname])
  n_paths = len(seen)
  if not starters:
    report.ok(rule, start.node, 'no phase start is reachable from _thread_proc '
              'without a durable abort test (%d methods explored)' % n_paths)
  for f, c, chain in starters:
    report.violation(
        rule, f.qualname, 'phase-start-without-durable-abort-test', c,
        'call chain %s reaches execute_phase(%s) without testing a durable '
        'abort indication: an abort() that returned before this point (e.g. '
        'before the PhaseExecutor existed) does not prevent the phase body' %
        (' -> '.join(chain), norm(c.args[0]) if c.args else ''))
  report.expect_instances(rule, n_paths, 2, 'methods reachable from _thread_proc')
  roots = [c for c in core.calls_in(start.node, name='self._execute_node')]
  ok = len(roots) == 1 and len(roots[0].args) == 3 and isinstance(
      roots[0].args[2], ast.Constant) and roots[0].args[2].value is False and \
      isinstance(roots[0].args[1], ast.Constant) and \
      roots[0].args[1].value is None
  report.check(ok, rule, start.qualname, 'root-not-teardown',
               roots[0] if roots else start.node,
               'the declared tree is executed as an abortable sequence '
               '(in_teardown=False, no subtest)',
               'the root sequence is executed with in_teardown=True: no abort '
               'check and no failed-subtest skipping applies to any node')

  # repeat loop in PhaseExecutor.execute_phase
  f = repo.func(PE, 'PhaseExecutor.execute_phase')
  loops = [n for n in walk_no_nested(f.node) if isinstance(n, (ast.While, ast.For))
           and core.calls_in(n, name='self._execute_phase_once')]
  report.expect_instances(rule, len(loops), 1, 'repeat loops')
  pe_durable = ['self.%s.is_set' % a for (c, a), d in durable.items()
                if c == 'PhaseExecutor' and d]
  for lp in loops:
    tested = [call_name(c) for c in core.calls_in(lp) if
              (call_name(c) or '').endswith('.is_set')]
    ok = any(t in pe_durable for t in tested)
    report.check(
        ok, rule, f.qualname, 'repeat-loop-tests-transient-flag', lp,
        'repeat loop re-tests a durable abort indication each iteration',
        'the repeat loop tests only %s, which reset_stop() clears right after '
        'abort() stopped the running body: with force_repeat / REPEAT the body '
        'is re-invoked after abort() returned' % (tested or 'no flag'))


def r6_sigint_lock(report, repo):
  rule = 'C04-R6'
  report.rule(rule, 'signal-handler lock safety: after the Test is registered '
              'in TEST_INSTANCES (discoverable by handle_sig_int, which takes '
              'Test._lock) nothing may run inside execute()\'s `with '
              'self._lock` region when that lock is not reentrant')
  init = repo.func(TD, 'Test.__init__')
  kinds = [call_name(n.value) for n in walk_no_nested(init.node)
           if isinstance(n, ast.Assign) and
           any(dotted(t) == 'self._lock' for t in n.targets)]
  report.expect_instances(rule, len(kinds), 1, 'Test._lock definitions')
  reentrant = kinds[0] == 'threading.RLock'
  h = repo.func(TD, 'Test.abort_from_sig_int')
  takes = any('self._lock' in core.with_item_names(w)
              for w in walk_no_nested(h.node) if isinstance(w, ast.With))
  report.check(takes, rule, h.qualname, 'takes-lock', h.node,
               'SIGINT path acquires Test._lock (read of _executor is atomic '
               'with execute()\'s check-then-create)')
  f = repo.func(TD, 'Test.execute')
  regs = [n for n in walk_no_nested(f.node) if isinstance(n, ast.Assign) and
          any(isinstance(t, ast.Subscript) and
              ends_with(dotted(t.value) or '', 'TEST_INSTANCES')
              for t in n.targets)]
  report.expect_instances(rule, len(regs), 1, 'TEST_INSTANCES registrations')
  reg = regs[0]
  ws = [w for w in core.enclosing_withs(reg)
        if 'self._lock' in core.with_item_names(w)]
  if not ws or reentrant:
    report.ok(rule, reg, 'registration is outside the lock region or the lock '
              'is reentrant')
    return
  w = ws[0]
  idx = lib.stmt_index(w.body, reg)
  after = w.body[idx + 1:]
  report.check(
      not after, rule, f.qualname, 'statements-after-registration-in-lock',
      after[0] if after else reg,
      'registration is the last statement of the lock region',
      'inside `with self._lock` of execute(), %s follow(s) the registration in '
      'TEST_INSTANCES: a SIGINT delivered to the main thread there runs '
      'handle_sig_int -> abort_from_sig_int -> `with self._lock` on the same '
      'non-reentrant lock: self-deadlock' %
      '; '.join(norm(s) for s in after))


def r7_lock_order(report, repo):
  rule = 'C04-R7'
  report.rule(rule, 'T-LOCKORD: interprocedural lock-order graph over the '
              'executor / state / thread locks is acyclic (blocking '
              'acquisitions only); no argument-less join()/wait() under a lock')
  lm = locks.LockModel(repo, [TD, TE, PE, TS, TH, UT, PL])
  report.expect_instances(rule, len(lm.lock_attrs), 6, 'lock attributes')
  edges = lm.order_edges(depth=4)
  uniq = {}
  for a, b, how, chain, node in edges:
    uniq.setdefault((a, b, how), (chain, node))
  for (a, b, how), (chain, node) in sorted(uniq.items()):
    if a == b:
      kind = dict((k, v) for k, v in
                  (('%s.%s' % c, lm.lock_attrs[c]) for c in lm.lock_attrs)).get(a)
      if kind == 'Lock' and how != 'try':
        report.violation(rule, chain[0], 'self-deadlock:' + a, node,
                         'non-reentrant %s is re-acquired (blocking) while '
                         'held, via %s' % (a, ' -> '.join(chain)))
      continue
    report.ok(rule, node, 'order edge %s -> %s (%s) via %s' %
              (a, b, how, ' -> '.join(chain)))
  cycles = locks.find_cycles([e for e in edges if e[0] != e[1]])
  report.check(not cycles, rule, 'lock-order-graph', 'cycle', TE,
               'lock-order graph acyclic: %d distinct edges over %d locks' %
               (len(uniq), len(lm.lock_attrs)),
               'lock-order cycle(s): %s' % cycles)
  report.expect_instances(rule, len(uniq), 3, 'lock-order edges')
  # unbounded waits under a lock
  for rel in lm.modules:
    for f in repo.modules[rel].all_funcs():
      for lid, kind, how, node, body in lm.direct_acquisitions(f):
        if body is None:
          continue
        for s in body:
          for c in core.calls_in(s):
            if last_attr(c) in ('join', 'wait') and not c.args and \
                not c.keywords:
              recv = dotted(c.func.value) if isinstance(
                  c.func, ast.Attribute) else None
              if kind == 'Condition' and recv == 'self.' + lid.split('.')[1]:
                continue
              report.violation(rule, f.qualname, c, c,
                               'unbounded %s() while holding %s' %
                               (last_attr(c), lid))
  report.info(rule, TE, 'calls not resolved to a modelled class (treated as '
              'not acquiring executor locks): %d distinct receivers' %
              len(lm.unresolved))


def r8_single_body(report, repo, rule='C04-R8'):
  report.rule(rule, 'T-MUST: running_phase_context asserts that no phase is '
              'already running before creating a phase state; execute()\'s '
              'KeyboardInterrupt handler waits again and re-raises inside the '
              'try whose finally finalises and outputs')
  f = repo.func(TS, 'TestState.running_phase_context')
  g = lib.cfg(f)
  creates = lib.nodes_with_call(g, attr='from_descriptor')
  report.expect_instances(rule, len(creates), 1, 'PhaseState creations')
  for n, c in creates:
    ok = g.dominated_by_edge(
        n, lambda s, l, d: s.kind == 'test' and l == 'F' and
        dotted(s.ast) == 'self.running_phase_state' and
        isinstance(s.tag, ast.Assert))
    report.check(ok, rule, f.qualname, 'assert-no-running-phase', c,
                 'phase state created only after asserting that no phase is '
                 'running',
                 'a phase state can be created while another phase is still '
                 'marked running (two bodies of one test at once would go '
                 'unnoticed)')
  e = repo.func(TD, 'Test.execute')
  hs = [h for h in walk_no_nested(e.node) if isinstance(h, ast.ExceptHandler)
        and h.type is not None and last_attr(h.type) == 'KeyboardInterrupt']
  report.expect_instances(rule, len(hs), 1, 'KeyboardInterrupt handlers')
  h = hs[0]
  waits = core.calls_in(h, name='self._executor.wait')
  raises = [n for n in h.body if isinstance(n, ast.Raise) and n.exc is None]
  t = h._parent
  fin_ok = isinstance(t, ast.Try) and any(
      core.calls_in(s, name='self._executor.finalize') for s in t.finalbody)
  report.check(len(waits) == 1 and len(raises) == 1 and fin_ok and
               lib.stmt_index(h.body, waits[0]) < h.body.index(raises[0]), rule,
               e.qualname, 'kbd-interrupt-handler', h,
               'KeyboardInterrupt: wait again, then re-raise; finalisation and '
               'callbacks are in the finally of the same try')


def run(report, repo):
  from sa.rules import c01, c02, c03  # pylint: disable=g-import-not-at-top
  report.guard(c02.r3_sequences, report, repo, rule='C04-R1')
  report.guard(r2_thread_publication, report, repo)
  report.guard(r3_abort_ladder, report, repo)
  report.guard(c01.r4_teardown_ladder, report, repo, rule='C04-R4')
  report.guard(r5_durable_indication, report, repo)
  report.guard(r6_sigint_lock, report, repo)
  report.guard(r7_lock_order, report, repo)
  report.guard(r8_single_body, report, repo)
  # teardown still runs after a single abort: stop/reset/release hand-shake
  report.guard(c03.r4_stop_phase_executor, report, repo, rule='C04-R9')
  # the running body is asked to terminate / a not-yet-started one never runs:
  # the kill protocol of the phase thread (shared with C12-R1/R2)
  from sa.rules import c12  # pylint: disable=g-import-not-at-top
  report.guard(c12.r1_run, report, repo, rule='C04-R10')
  report.guard(c12.r2_kill, report, repo, rule='C04-R10')
  from sa.rules import extra4  # pylint: disable=g-import-not-at-top
  report.guard(extra4.stop_wait_is_constant, report, repo, 'C04-R11')
  from sa.rules import extra5 as _e5d  # pylint: disable=g-import-not-at-top
  report.guard(_e5d.sigint_once_flag_writers, report, repo, 'C04-R12')
