"""C07 - built-in validators accept exactly the values inside the limits."""

import ast
import itertools
import math

from sa import core, interp, lib
from sa.core import call_name, dotted, last_attr, norm, walk_no_nested
from sa.interp import InterpRaise, Obj

DECIDES = (
    'accept/reject and marginal decisions of InRange, AllInRangeValidator and '
    'WithinPercent as ordering tables: the method ASTs are evaluated by the '
    'checker\'s own evaluator over one witness per ordering class of the value '
    'against the bounds (below, equal, between, above), None, NaN, every '
    'defined/undefined combination of the bounds and a shifting `type` '
    'converter (so raw-vs-converted bounds are distinguished); constructor '
    'rejections over all consistent/inconsistent limit combinations; factory '
    'dispatch of equals/all_equals incl. the anchored, escaped regex for '
    'strings; with_args / __eq__ / __deepcopy__ / __str__ field coverage; the '
    'two dimension-pivot validators over all boolean row patterns up to '
    'length 4.')
DOES_NOT_DECIDE = (
    'float arithmetic at one-ulp distance from a percent bound; behaviour of '
    'user type= converters; str() output beyond "each defined limit appears".')
TECHNIQUE = ('static analysis: ordering-table extraction (abstract evaluation '
             'of validator ASTs over witnesses of a finite ordering '
             'abstraction) + structural AST rules')

VA = 'openhtf/util/validators.py'
NAN = float('nan')


def _format_string_stub(target, kwargs):
  # openhtf.util.format_string: non-strings and None are returned unchanged
  if target is None or not isinstance(target, str):
    return target
  return target


def _interp(repo):
  m = repo.module(VA)
  return interp.Interp(repo, m, {'util.format_string': _format_string_stub})


def _shift(x):
  if x is None:
    raise InterpRaise('TypeError', 'converter applied to None')
  return x + 100


def _call(it, obj, name, *args):
  """('ret', value) or ('raise', kind)."""
  it.steps = 0
  try:
    return 'ret', it.call_method(obj, name, *args)
  except InterpRaise as e:
    return 'raise', e.kind


def _make(it, cls_name, **attrs):
  """Instance with fields set directly (constructor checked separately)."""
  o = Obj(it.class_of(cls_name))
  o.attrs.update(attrs)
  it.steps = 0
  return o


def _grid(bounds):
  pts = set()
  for b in bounds:
    if b is not None:
      pts.update([b - 0.5, b, b + 0.5])
  return sorted(pts) + [None, NAN]


def _isnan(v):
  return isinstance(v, float) and math.isnan(v)


def _bound_sets():
  """(min, max, mmin, mmax) combos: definedness x weak orderings."""
  out = []
  vals = [None, 0, 1, 2, 3]  # 0: a limit that is falsy (truth tests on limits)
  for mn, mx, mmn, mmx in itertools.product(vals, repeat=4):
    if mn is None and mx is None:
      continue
    if mmn is not None and mn is None:
      continue
    if mmx is not None and mx is None:
      continue
    chain = [x for x in (mn, mmn, mmx, mx) if x is not None]
    if any(a > b for a, b in zip(chain, chain[1:])):
      continue
    out.append((mn, mx, mmn, mmx))
  return out


def r1_r2_in_range(report, repo):
  it = _interp(repo)
  n = 0
  for rule, meth in (('C07-R1', '__call__'), ('C07-R2', 'is_marginal')):
    report.rule(rule, 'T-ORD: InRange.%s over all orderings of the value '
                'against the (converted) bounds, None, NaN, all definedness '
                'combinations, with and without a type converter' % meth)
    bad = {}
    for (mn, mx, mmn, mmx) in _bound_sets():
      for conv in (None, _shift):
        c = (lambda x: x) if conv is None else (
            lambda x: None if x is None else x + 100)
        cmn, cmx, cmmn, cmmx = c(mn), c(mx), c(mmn), c(mmx)
        o = _make(it, 'InRange', _minimum=mn, _maximum=mx,
                  _marginal_minimum=mmn, _marginal_maximum=mmx, _type=conv)
        for v in _grid([cmn, cmx, cmmn, cmmx]):
          n += 1
          kind, got = _call(it, o, meth, v)
          if v is None or _isnan(v):
            want = False
          elif meth == '__call__':
            want = (cmn is None or v >= cmn) and (cmx is None or v <= cmx)
          else:
            want = (cmmn is not None and cmn <= v <= cmmn) or \
                (cmmx is not None and cmmx <= v <= cmx)
          if kind != 'ret' or bool(got) != want or not isinstance(got, bool):
            cat = ('none/nan' if v is None or _isnan(v) else
                   'converted-bound' if conv is not None else 'bound')
            bad.setdefault(cat, (v, (mn, mx, mmn, mmx), conv is not None, kind,
                                 got, want))
    f = repo.func(VA, 'InRange.' + meth)
    for cat, (v, b, cv, kind, got, want) in bad.items():
      report.violation(
          rule, f.qualname, 'ordering-table|' + cat, f.node,
          'InRange.%s(value=%r) with (min,max,marginal_min,marginal_max)=%r%s '
          '%s %r, expected %r' % (meth, v, b, ' and a type converter' if cv
                                  else '', 'returns' if kind == 'ret' else
                                  'raises', got, want))
    if not bad:
      report.ok(rule, f.node, 'InRange.%s agrees with the inclusive-bounds '
                'specification on every witness' % meth)
    report.table(rule, n)
  # None test precedes isnan (T-ORDER): covered by v=None witnesses (isnan of
  # None raises TypeError in the evaluator)
  return n


def r3_converted(report, repo):
  rule = 'C07-R3'
  report.rule(rule, 'T-AGREE: the four limit properties of InRange apply the '
              'declared type; Equals.expected applies it too')
  it = _interp(repo)
  for prop, fld in (('minimum', '_minimum'), ('maximum', '_maximum'),
                    ('marginal_minimum', '_marginal_minimum'),
                    ('marginal_maximum', '_marginal_maximum')):
    attrs = dict(_minimum=1, _maximum=4, _marginal_minimum=2,
                 _marginal_maximum=3)
    f = repo.func(VA, 'InRange.' + prop)
    o = _make(it, 'InRange', _type=_shift, **attrs)
    got = it.getattr(o, prop)
    o2 = _make(it, 'InRange', _type=None, **attrs)
    got2 = it.getattr(o2, prop)
    report.check(got == attrs[fld] + 100 and got2 == attrs[fld], rule,
                 f.qualname, prop, f.node,
                 'InRange.%s = type(%s) (identity without a type)' % (prop, fld),
                 'InRange.%s does not return the converted %s (got %r / %r)' %
                 (prop, fld, got, got2))
  f = repo.func(VA, 'Equals.expected')
  o = _make(it, 'Equals', _expected=5, _type=_shift)
  report.check(it.getattr(o, 'expected') == 105, rule, f.qualname, 'expected',
               f.node, 'Equals.expected = type(expected)')
  o = _make(it, 'Equals', _expected=5, _type=_shift)
  k1 = _call(it, o, '__call__', 105)
  k2 = _call(it, o, '__call__', 5)
  report.check(k1 == ('ret', True) and k2 == ('ret', False), rule,
               'Equals.__call__', 'call', f.node,
               'Equals compares against the converted expected value')


def r4_all_in_range(report, repo):
  it = _interp(repo)
  n = 0
  for rule, meth in (('C07-R4', '__call__'), ('C07-R4m', 'is_marginal')):
    report.rule(rule, 'T-ORD: AllInRangeValidator.%s over value lists (length '
                '0..2) drawn from the ordering witnesses incl. NaN' % meth)
    bad = {}
    for (mn, mx, mmn, mmx) in _bound_sets():
      o = _make(it, 'AllInRangeValidator', _minimum=mn, _maximum=mx,
                _marginal_minimum=mmn, _marginal_maximum=mmx)
      grid = [g for g in _grid([mn, mx, mmn, mmx]) if g is not None]
      lists = [[]] + [[a] for a in grid] + [[a, b] for a in grid for b in grid]
      for vals in lists:
        n += 1
        kind, got = _call(it, o, meth, vals)
        if meth == '__call__':
          want = all(not _isnan(v) and (mn is None or v >= mn) and
                     (mx is None or v <= mx) for v in vals)
        else:
          want = any(not _isnan(v) and (
              (mmn is not None and mn <= v <= mmn) or
              (mmx is not None and mmx <= v <= mx)) for v in vals)
        if kind != 'ret' or bool(got) != want:
          cat = 'nan' if any(_isnan(v) for v in vals) else 'bound'
          bad.setdefault(cat, (vals, (mn, mx, mmn, mmx), kind, got, want))
    f = repo.func(VA, 'AllInRangeValidator.' + meth)
    for cat, (vals, b, kind, got, want) in bad.items():
      report.violation(
          rule, f.qualname, 'ordering-table|' + cat, f.node,
          'AllInRangeValidator.%s(%r) with limits %r %s %r, expected %r' %
          (meth, vals, b, 'returns' if kind == 'ret' else 'raises', got, want))
    if not bad:
      report.ok(rule, f.node, 'AllInRangeValidator.%s agrees with the '
                'specification on every witness list' % meth)
    report.table(rule, n)


def r5_constructors(report, repo):
  rule = 'C07-R5'
  report.rule(rule, 'T-DTABLE/T-SIB: constructors of InRange, '
              'AllInRangeValidator and WithinPercent reject exactly the '
              'inconsistent limit combinations')
  it = _interp(repo)
  vals = [None, 1, 2, 3]
  for cls in ('InRange', 'AllInRangeValidator'):
    bad = {}
    n = 0
    c = it.class_of(cls)
    combos = list(itertools.product(vals, repeat=4))
    # one limit given as a string (a with_args template / a value for the type
    # converter): it takes part in no ordering check, the numeric limits are
    # still checked against each other
    for pos in range(4):
      for rest in itertools.product(vals, repeat=3):
        t = list(rest)
        t.insert(pos, '{tmpl}')
        combos.append(tuple(t))
    num = lambda x: isinstance(x, int)
    for mn, mx, mmn, mmx in combos:
      n += 1
      reasons = []
      if mn is None and mx is None:
        reasons.append('no-bound')
      if num(mn) and num(mx) and mn > mx:
        reasons.append('min>max')
      if mmn is not None and mn is None:
        reasons.append('marginal-min-without-min')
      if mmx is not None and mx is None:
        reasons.append('marginal-max-without-max')
      if num(mmn) and num(mn) and mn > mmn:
        reasons.append('marginal-min-below-min')
      if num(mmx) and num(mx) and mx < mmx:
        reasons.append('marginal-max-above-max')
      if num(mmn) and num(mmx) and mmn > mmx:
        reasons.append('marginal-min>marginal-max')
      try:
        it.steps = 0
        o = it.instantiate(c, mn, mx, mmn, mmx)
        raised = None
      except InterpRaise as e:
        raised = e.kind
      if reasons and raised != 'ValueError':
        bad.setdefault(reasons[0], (mn, mx, mmn, mmx, raised))
      elif not reasons:
        if raised is not None:
          bad.setdefault('rejects-consistent', (mn, mx, mmn, mmx, raised))
        else:
          stored = (o.attrs.get('_minimum'), o.attrs.get('_maximum'),
                    o.attrs.get('_marginal_minimum'),
                    o.attrs.get('_marginal_maximum'))
          if stored != (mn, mx, mmn, mmx):
            bad.setdefault('stores-wrong-field', (mn, mx, mmn, mmx, stored))
    f = repo.func(VA, cls + '.__init__')
    for cat, w in bad.items():
      report.violation(rule, f.qualname, 'ctor|' + cat, f.node,
                       '%s(min,max,marginal_min,marginal_max)=%r: %s -> %r' %
                       (cls, w[:4], cat, w[4]))
    if not bad:
      report.ok(rule, f.node, '%s constructor: %d limit combinations agree '
                'with the 7 rejection conditions' % (cls, n))
    report.table(rule, n)
  # WithinPercent
  bad = {}
  n = 0
  c = it.class_of('WithinPercent')
  for pct in (-1, 0, 5):
    for mp in (None, 0, 2, 5, 7):
      n += 1
      want = pct < 0 or (mp is not None and mp >= pct)
      try:
        it.steps = 0
        it.instantiate(c, 10, pct, mp)
        raised = None
      except InterpRaise as e:
        raised = e.kind
      if want != (raised == 'ValueError') or (raised not in (None,
                                                             'ValueError')):
        bad.setdefault('negative-percent' if pct < 0 else 'marginal>=percent',
                       (pct, mp, raised))
  f = repo.func(VA, 'WithinPercent.__init__')
  for cat, w in bad.items():
    report.violation(rule, f.qualname, 'ctor|' + cat, f.node,
                     'WithinPercent(10, percent=%r, marginal_percent=%r) -> %r'
                     % w)
  if not bad:
    report.ok(rule, f.node, 'WithinPercent constructor rejects negative percent '
              'and marginal_percent >= percent (%d combinations)' % n)
  report.table(rule, n)


def r6_within_percent(report, repo):
  rule = 'C07-R6'
  report.rule(rule, 'T-ORD: WithinPercent accepts exactly |v - expected| <= '
              '|expected|*percent/100 (symmetric, also for negative expected); '
              'marginal values lie inside the tolerance and in the outer band')
  it = _interp(repo)
  bad = {}
  n = 0
  for exp in (-8.0, 0.0, 8.0):
    for pct in (0, 25, 50):
      for mp in (None, 12.5):
        if mp is not None and mp >= pct:
          continue
        o = _make(it, 'WithinPercent', expected=exp, percent=pct,
                  marginal_percent=mp)
        a = abs(exp) * pct / 100.0
        ma = abs(exp) * mp / 100.0 if mp else None
        pts = set()
        for b in [exp - a, exp + a, exp] + ([exp - ma, exp + ma] if ma else []):
          pts.update([b - 0.25, b, b + 0.25])
        for v in sorted(pts) + [NAN]:
          n += 1
          it.steps = 0
          kind, got = _call(it, o, '__call__', v)
          want = (not _isnan(v)) and abs(v - exp) <= a
          if kind != 'ret' or bool(got) != want:
            side = 'nan' if _isnan(v) else ('low' if v < exp else 'high')
            bad.setdefault('accept|' + side + ('|negative-expected'
                                                if exp < 0 else ''),
                           (exp, pct, mp, v, kind, got, want))
          kind, m = _call(it, o, 'is_marginal', v)
          if kind == 'ret' and m:
            if not want:
              bad.setdefault('marginal-outside-tolerance',
                             (exp, pct, mp, v, kind, m, False))
            elif ma is not None and abs(v - exp) < ma:
              bad.setdefault('marginal-inside-inner-band',
                             (exp, pct, mp, v, kind, m, False))
          elif kind == 'ret' and ma is not None and not _isnan(v) and \
              ma <= abs(v - exp) < a:
            bad.setdefault('outer-band-not-marginal',
                           (exp, pct, mp, v, kind, m, True))
          elif kind != 'ret' and not _isnan(v):
            bad.setdefault('marginal-raises', (exp, pct, mp, v, kind, m, None))
  f = repo.func(VA, 'WithinPercent.__call__')
  for cat, w in bad.items():
    report.violation(rule, 'WithinPercent', 'ordering-table|' + cat, f.node,
                     'WithinPercent(expected=%r, percent=%r, marginal=%r) at '
                     'value %r: %s %r, expected %r' % w)
  if not bad:
    report.ok(rule, f.node, 'WithinPercent accept/marginal tables agree on %d '
              'witnesses (negative, zero and positive expected)' % n)
  report.table(rule, n)
  if repo.has_func(VA, 'WithinPercent._applied_percent'):
    ap = repo.func(VA, 'WithinPercent._applied_percent')
    report.info(rule, ap.node, 'applied tolerance uses abs(): %s' % any(
        isinstance(x, ast.Call) and call_name(x) == 'abs'
        for x in walk_no_nested(ap.node)))


def r7_factories(report, repo):
  rule = 'C07-R7'
  report.rule(rule, 'T-DTABLE/T-STR: equals / all_equals dispatch: Number -> '
              'range with min = max = value (type threaded), str -> anchored, '
              'escaped regex matched from the start of str(value), else '
              'Equals / AllEqualsValidator')
  it = _interp(repo)
  m = repo.module(VA)
  for fname, num_cls, other_cls in (('equals', 'InRange', 'Equals'),
                                    ('all_equals', 'AllInRangeValidator',
                                     'AllEqualsValidator')):
    f = repo.func(VA, fname)
    fn = f.node
    it.steps = 0
    o = it.call_function(fn, [7], {'type': _shift} if fname == 'equals' else {})
    ok = isinstance(o, Obj) and o.cls.name == num_cls and \
        o.attrs.get('_minimum') == 7 and o.attrs.get('_maximum') == 7 and \
        (fname != 'equals' or o.attrs.get('_type') is _shift)
    report.check(ok, rule, f.qualname, 'number', fn,
                 '%s(number) -> %s(min=max=value%s)' %
                 (fname, num_cls, ', type' if fname == 'equals' else ''))
    it.steps = 0
    o = it.call_function(fn, [(1, 2)], {})
    ok = isinstance(o, Obj) and o.cls.name == other_cls
    report.check(ok, rule, f.qualname, 'other', fn,
                 '%s(other) -> %s' % (fname, other_cls))
    bad = None
    n = 0
    for lit in ('a.b', 'x', 'a+', '', '^$', 'A|B', '(x', 'tab\there'):
      it.steps = 0
      try:
        o = it.call_function(fn, [lit], {})
      except InterpRaise as e:
        bad = (lit, 'factory raises ' + e.kind)
        break
      if not (isinstance(o, Obj) and o.cls.name == 'RegexMatcher'):
        bad = (lit, 'not a RegexMatcher')
        break
      cands = [lit, lit + '\n', lit + 'X', 'X' + lit, lit + lit,
               lit.replace('.', 'Z').replace('+', '').replace('|', '')
               or 'Q', lit.upper() if lit.upper() != lit else lit + ' ',
               lit + '\n\n', lit + '\nX', 'X\n' + lit]
      for cnd in cands:
        n += 1
        it.steps = 0
        kind, got = _call(it, o, '__call__', cnd)
        want = cnd == lit or cnd == lit + '\n'
        if kind != 'ret' or bool(got) != want:
          bad = (lit, 'candidate %r %s %r, expected %r' %
                 (cnd, kind, got, want))
          break
      if bad:
        break
    report.check(bad is None, rule, f.qualname, 'string', fn,
                 '%s(str) accepts exactly the literal (and one trailing '
                 'newline) on %d candidates' % (fname, n),
                 '%s(%r): %s' % ((fname,) + (bad or ('', ''))))
    report.table(rule, n)
  rm = repo.func(VA, 'RegexMatcher.__call__')
  cs = [c for c in core.calls_in(rm.node) if last_attr(c) in ('match', 'search',
                                                              'fullmatch')]
  ok = len(cs) == 1 and last_attr(cs[0]) == 'match' and len(cs[0].args) == 1 \
      and call_name(cs[0].args[0]) == 'str'
  report.check(ok, rule, rm.qualname, 'match(str(value))', rm.node,
               'RegexMatcher matches from the start of str(value)',
               'RegexMatcher no longer uses .match(str(value))')
  mr = repo.func(VA, 'matches_regex')
  rets = [n for n in walk_no_nested(mr.node) if isinstance(n, ast.Return)]
  ok = len(rets) == 1 and isinstance(rets[0].value, ast.Call) and \
      last_attr(rets[0].value) == 'RegexMatcher' and any(
          call_name(a) == 're.compile' and len(a.args) == 1 and
          not a.keywords and dotted(a.args[0]) == dotted(rets[0].value.args[0])
          for a in rets[0].value.args if isinstance(a, ast.Call))
  report.check(ok, rule, mr.qualname, 'compile', mr.node,
               'matches_regex compiles the pattern it records, without flags',
               'matches_regex compiles a different pattern / adds flags that '
               'change what the declared regex accepts')


def r8_identity(report, repo):
  rule = 'C07-R8'
  report.rule(rule, 'T-AGREE: with_args passes all five constructor '
              'parameters; __eq__ distinguishes every limit field; '
              'RegexMatcher.__deepcopy__ carries both fields; __str__ of the '
              'range validators mentions each defined limit once')
  it = _interp(repo)
  base = dict(_minimum=11, _maximum=44, _marginal_minimum=22,
              _marginal_maximum=33, _type=None)
  o = _make(it, 'InRange', **base)
  f = repo.func(VA, 'InRange.with_args')
  it.steps = 0
  try:
    c = it.call_method(o, 'with_args')
    ok = isinstance(c, Obj) and c is not o and all(
        c.attrs.get(k) == v for k, v in base.items())
    o3 = _make(it, 'InRange', **dict(base, _type=_shift))
    c3 = it.call_method(o3, 'with_args')
    ok = ok and c3.attrs.get('_type') is _shift
  except InterpRaise as e:
    ok = False
  report.check(ok, rule, f.qualname, 'with_args', f.node,
               'InRange.with_args yields a new validator with the same five '
               'fields',
               'InRange.with_args drops or changes a limit / type field')
  # __eq__ field coverage
  specs = [
      ('InRange', base, ['_minimum', '_maximum', '_marginal_minimum',
                         '_marginal_maximum']),
      ('WithinPercent', dict(expected=10.0, percent=20, marginal_percent=5),
       ['expected', 'percent', 'marginal_percent']),
      ('Equals', dict(_expected=3, _type=None), ['_expected']),
      ('RegexMatcher', dict(regex='ab', _compiled=None), ['regex']),
  ]
  for cls, attrs, fields in specs:
    f = repo.func(VA, cls + '.__eq__')
    a = _make(it, cls, **attrs)
    b = _make(it, cls, **attrs)
    it.steps = 0
    same = it.equals(a, b)
    diffs = {}
    for fld in fields:
      ch = dict(attrs)
      ch[fld] = (ch[fld] + 1) if isinstance(ch[fld], (int, float)) else 'zz'
      it.steps = 0
      try:
        diffs[fld] = it.equals(a, _make(it, cls, **ch))
      except InterpRaise as e:
        diffs[fld] = 'raises ' + e.kind
    if cls == 'InRange':
      # same stored limits, a value-changing type= : they decide differently
      it.steps = 0
      try:
        diffs['type='] = it.equals(a, _make(it, cls, **dict(attrs,
                                                            _type=_shift)))
      except InterpRaise as e:
        diffs['type='] = 'raises ' + e.kind
    ok = same is True and all(v is False for v in diffs.values())
    report.check(ok, rule, f.qualname, '__eq__', f.node,
                 '%s.__eq__ is true for equal limits and false when any of %s '
                 'differs' % (cls, fields),
                 '%s.__eq__: equal->%r, differing field results %r' %
                 (cls, same, diffs))
  f = repo.func(VA, 'RegexMatcher.__deepcopy__')
  a = _make(it, 'RegexMatcher', regex='ab', _compiled='COMPILED')
  c = it.call_method(a, '__deepcopy__', {})
  report.check(isinstance(c, Obj) and c is not a and c.attrs.get('regex') ==
               'ab' and c.attrs.get('_compiled') == 'COMPILED', rule,
               f.qualname, 'deepcopy', f.node,
               'RegexMatcher.__deepcopy__ carries regex and compiled pattern')
  for cls in ('InRange', 'AllInRangeValidator'):
    f = repo.func(VA, cls + '.__str__')
    for defined in (('_minimum',), ('_maximum',), ('_minimum', '_maximum'),
                    ('_minimum', '_maximum', '_marginal_minimum',
                     '_marginal_maximum')):
      attrs = {k: (base[k] if k in defined else None) for k in base}
      o = _make(it, cls, **attrs)
      it.steps = 0
      s = it.to_str(o)
      ok = all(s.count(str(base[k])) == 1 for k in defined) and not any(
          str(base[k]) in s for k in base if k not in defined and
          base[k] is not None)
      report.check(ok, rule, f.qualname, '__str__:' + ','.join(defined), f.node,
                   '%s.__str__ prints each defined limit once: %r' % (cls, s),
                   '%s.__str__ with %s defined prints %r' % (cls, defined, s))


def r9_pivots(report, repo):
  rule = 'C07-R9'
  report.rule(rule, 'T-DTABLE: DimensionPivot = all rows\' last element pass; '
              'ConsistentEndDimensionPivot = from the first passing row on all '
              'pass, none passing => False (all boolean patterns, length 0-4)')
  it = _interp(repo)
  sub = lambda x: bool(x)
  n = 0
  for cls in ('DimensionPivot', 'ConsistentEndDimensionPivot'):
    bad = None
    o = _make(it, cls, _sub_validator=sub)
    for k in range(0, 5):
      for pat in itertools.product((False, True), repeat=k):
        rows = [(i, 'coord', p) for i, p in enumerate(pat)]
        n += 1
        it.steps = 0
        kind, got = _call(it, o, '__call__', rows)
        if cls == 'DimensionPivot':
          want = all(pat)
        else:
          want = any(pat) and all(pat[list(pat).index(True):])
        if kind != 'ret' or bool(got) != want:
          bad = bad or (pat, kind, got, want)
    f = repo.func(VA, cls + '.__call__')
    report.check(bad is None, rule, f.qualname, 'table', f.node,
                 '%s agrees with its specification on all row patterns' % cls,
                 '%s on row pattern %r: %s %r, expected %r' %
                 ((cls,) + (bad or ((), '', None, None))))
  report.table(rule, n)


def run(report, repo):
  try:
    report.guard(r1_r2_in_range, report, repo)
    report.guard(r3_converted, report, repo)
    report.guard(r4_all_in_range, report, repo)
    report.guard(r5_constructors, report, repo)
    report.guard(r6_within_percent, report, repo)
    report.guard(r7_factories, report, repo)
    report.guard(r8_identity, report, repo)
    report.guard(r9_pivots, report, repo)
  except InterpRaise as e:
    raise core.AnalysisError('evaluator: unexpected raise %s (%s)' %
                             (e.kind, e.detail))
