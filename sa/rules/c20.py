"""C20 - configuration: flag > loaded > default, consistent views."""

import ast

from sa import cfg as cfgm
from sa import core, lib
from sa.core import call_name, dotted, last_attr, norm, walk_no_nested
from sa.lib import ends_with

DECIDES = (
    'item access as a decision table over {declared, flag, loaded, default} '
    '(undeclared first, then flag, loaded, default, else UnsetKeyError); '
    '__contains__ is true exactly when item access returns; _asdict layers '
    'defaults, then loaded values, then flags of declared keys; the value '
    'holder and attribute access delegate to item access; load_from_dict '
    'stores a value iff (declared or _allow_undeclared) and (not already '
    'loaded or _override), load / load_from_file thread both flags; who may '
    'write the three tables (reset cannot drop flags and rebinds the loaded '
    'table to a new dict); save_and_restore snapshots a copy before the try, '
    'runs the wrapped call inside it and restores exactly that copy in the '
    'finally; declare rejects invalid names and redeclaration before '
    'writing; attribute assignment of a key always raises; execute() stores '
    'the _asdict() snapshot in the metadata.')
DOES_NOT_DECIDE = (
    'equality of the views for all operation sequences as a stateful model '
    '(shown per operation: every writer preserves the three-table '
    'representation and every reader uses the same precedence); value-level '
    'effects of YAML parsing.')

CF = 'openhtf/util/configuration.py'
C = '_Configuration'


def _membership(expr, key, table):
  """'in'/'notin' if expr is `<key> in/not in self.<table>`."""
  if isinstance(expr, ast.Compare) and len(expr.ops) == 1 and \
      dotted(expr.left) == key and dotted(expr.comparators[0]) == 'self.' + table:
    if isinstance(expr.ops[0], ast.In):
      return 'in'
    if isinstance(expr.ops[0], ast.NotIn):
      return 'notin'
  return None


def _getitem_classifier(key):

  def classify(expr, steps):
    for table, atom in (('_declarations', 'declared'), ('_flag_values', 'flag'),
                        ('_loaded_values', 'loaded')):
      m = _membership(expr, key, table)
      if m:
        return atom if m == 'in' else ('not', atom)
    if not (isinstance(expr, ast.Attribute) and expr.attr == 'has_default'):
      return None
    full = lib.expand_locals(cfgm.Path(steps, None), expr)
    if norm(full) == 'self._declarations[%s].has_default' % key:
      return 'default'
    return None

  return classify


def r1_getitem(report, repo):
  rule = 'C20-R1'
  report.rule(rule, 'T-DTABLE: __getitem__: undeclared -> UndeclaredKeyError; '
              'then flag, loaded, default; else UnsetKeyError')
  f = repo.func(CF, C + '.__getitem__')
  key = lib.param_names(f.node)[1]
  classify = _getitem_classifier(key)

  def spec(v, p):
    if not v['declared']:
      r = p.raised()
      if p.end == 'exit' or r is None or last_attr(r.exc) != \
          'UndeclaredKeyError':
        return 'undeclared-row: an undeclared key must raise UndeclaredKeyError'
      return None
    want = None
    if v['flag']:
      want = 'self._flag_values[%s]' % key
    elif v['loaded']:
      want = 'self._loaded_values[%s]' % key
    elif v['default']:
      want = 'self._declarations[%s].default_value' % key
    if want is None:
      r = p.raised()
      if p.end == 'exit' or r is None or last_attr(r.exc) != 'UnsetKeyError':
        return 'unset-row: must raise UnsetKeyError'
      return None
    if p.end != 'exit':
      return 'value-row: raises although a value exists'
    got = norm(lib.expand_locals(p, p.last_return().value,
                                 before_index=len(p.steps) - 1))
    if got != want:
      return 'precedence-row: returns %s, expected %s' % (got, want)
    return None

  lib.decision_table(report, rule, f, ['declared', 'flag', 'loaded', 'default'],
                     classify, spec)
  report.check(any(dotted(d) == 'threads.synchronized'
                   for d in f.node.decorator_list), rule, f.qualname,
               'synchronized', f.node, 'item access holds the configuration '
               'lock')


def _asdict_layers(finfo):
  """Order in which the value sources are laid into the snapshot that
  _asdict returns (later layers win): list of 'default' / 'loaded' / 'flag',
  with '?<text>' for a write to the snapshot that is not understood.  Works on
  the statement sequence, whatever else (logging, unrelated statements) is in
  between, and on the equivalent spellings `d.update(x)`, `{**a, **b}`,
  `dict(x)`, comprehension vs loop."""

  def comp_layer(gen, key, val):
    it = gen.iter
    if dotted(it) == 'self._declarations' and any(
        norm(i).endswith('.has_default') for i in gen.ifs) and \
        norm(val).endswith('.default_value'):
      return ['default']
    if isinstance(it, ast.Call) and norm(it) == 'self._declarations.items()' \
        and isinstance(gen.target, ast.Tuple) and len(gen.target.elts) == 2:
      # `for key, declaration in self._declarations.items()`
      k, d = [dotted(e) for e in gen.target.elts]
      if dotted(key) == k and dotted(val) == (d or '?') + '.default_value' \
          and len(gen.ifs) == 1 and dotted(gen.ifs[0]) == d + '.has_default':
        return ['default']
    if isinstance(it, ast.Call) and norm(it) == 'self._flag_values.items()' \
        and isinstance(gen.target, ast.Tuple) and len(gen.target.elts) == 2:
      k, v = [dotted(e) for e in gen.target.elts]
      if dotted(key) == k and dotted(val) == v and any(
          _membership(i, k, '_declarations') == 'in' for i in gen.ifs):
        return ['flag']
    return None

  def layers(e, env):
    if isinstance(e, ast.Name) and e.id in env:
      return list(env[e.id])
    if dotted(e) == 'self._loaded_values':
      return ['loaded']
    if isinstance(e, ast.DictComp) and len(e.generators) == 1:
      r = comp_layer(e.generators[0], e.key, e.value)
      if r is not None:
        return r
    if isinstance(e, ast.Dict):
      out = []
      for k, v in zip(e.keys, e.values):
        if k is not None:
          return ['?' + norm(e)[:40]]
        out += layers(v, env)
      return out
    if isinstance(e, ast.Call) and call_name(e) == 'dict' and len(
        e.args) <= 1 and not e.keywords:
      return layers(e.args[0], env) if e.args else []
    if isinstance(e, ast.Call) and last_attr(e) == 'copy' and not e.args:
      return layers(e.func.value, env)
    return ['?' + norm(e)[:40]]

  env = {}
  result = None

  def mentions(st, names):
    return any(isinstance(x, ast.Name) and x.id in names for x in ast.walk(st))

  def run(stmts):
    nonlocal result
    for st in stmts:
      if isinstance(st, ast.Expr) and (isinstance(st.value, ast.Constant) or
                                       cfgm.is_log_call(st.value)):
        continue
      if isinstance(st, ast.Assign) and len(st.targets) == 1 and isinstance(
          st.targets[0], ast.Name):
        env[st.targets[0].id] = layers(st.value, env)
        continue
      if isinstance(st, ast.Expr) and isinstance(st.value, ast.Call) and \
          last_attr(st.value) == 'update' and isinstance(
              st.value.func.value, ast.Name) and \
          st.value.func.value.id in env and len(st.value.args) == 1:
        env[st.value.func.value.id] += layers(st.value.args[0], env)
        continue
      if isinstance(st, ast.For) and norm(st.iter) == \
          'self._flag_values.items()' and isinstance(st.target, ast.Tuple) \
          and len(st.target.elts) == 2 and not st.orelse:
        k, v = [dotted(e) for e in st.target.elts]
        inner = [x for x in st.body if not (isinstance(x, ast.Expr) and (
            isinstance(x.value, ast.Constant) or cfgm.is_log_call(x.value)))]
        body = None

        def member(t):
          neg = False
          while isinstance(t, ast.UnaryOp) and isinstance(t.op, ast.Not):
            t, neg = t.operand, not neg
          m = _membership(t, k, '_declarations')
          if m is None:
            return None
          return (m == 'in') != neg
        if len(inner) == 1 and isinstance(inner[0], ast.If) and \
            member(inner[0].test) is True and not inner[0].orelse:
          body = inner[0].body
        elif len(inner) >= 2 and isinstance(inner[0], ast.If) and \
            member(inner[0].test) is False and not inner[0].orelse and \
            len(inner[0].body) == 1 and isinstance(inner[0].body[0],
                                                   ast.Continue):
          # guard form: `if key not in declarations: continue`
          body = inner[1:]
        if body is not None:
          body = [x for x in body if not (isinstance(x, ast.Expr) and (
              isinstance(x.value, ast.Constant) or
              cfgm.is_log_call(x.value)))]
          if len(body) == 1 and isinstance(body[0], ast.Assign) and isinstance(
              body[0].targets[0], ast.Subscript) and isinstance(
                  body[0].targets[0].value, ast.Name) and \
              body[0].targets[0].value.id in env and dotted(
                  body[0].targets[0].slice) == k and dotted(
                      body[0].value) == v:
            env[body[0].targets[0].value.id] += ['flag']
            continue
      # defaults laid in by a loop over the declarations
      if isinstance(st, ast.For) and not st.orelse and last_attr(
          st.iter) in ('items', None) and norm(st.iter) in (
              'self._declarations.items()', 'self._declarations'):
        if isinstance(st.target, ast.Tuple) and len(st.target.elts) == 2:
          k, d = [dotted(e) for e in st.target.elts]
        else:
          k, d = dotted(st.target), 'self._declarations[%s]' % dotted(st.target)
        inner = [x for x in st.body if not (isinstance(x, ast.Expr) and (
            isinstance(x.value, ast.Constant) or cfgm.is_log_call(x.value)))]
        if len(inner) == 1 and isinstance(inner[0], ast.If) and norm(
            inner[0].test) == d + '.has_default' and not inner[0].orelse and \
            len(inner[0].body) == 1 and isinstance(
                inner[0].body[0], ast.Assign) and isinstance(
                    inner[0].body[0].targets[0], ast.Subscript) and isinstance(
                        inner[0].body[0].targets[0].value, ast.Name) and \
            inner[0].body[0].targets[0].value.id in env and dotted(
                inner[0].body[0].targets[0].slice) == k and norm(
                    inner[0].body[0].value) == d + '.default_value':
          env[inner[0].body[0].targets[0].value.id] += ['default']
          continue
      if isinstance(st, ast.Return):
        result = layers(st.value, env) if st.value is not None else []
        return
      if mentions(st, set(env)):
        for nme in env:
          if mentions(st, {nme}):
            env[nme] += ['?' + norm(st)[:40]]
  run(finfo.node.body)
  return result


def r2_views(report, repo):
  rule = 'C20-R2'
  report.rule(rule, 'T-SIB: __contains__ <=> __getitem__ returns; _asdict '
              'layers default -> loaded -> declared flags; value holder and '
              '__getattr__ delegate to __getitem__')
  f = repo.func(CF, C + '.__contains__')
  key = lib.param_names(f.node)[1]
  classify = _getitem_classifier(key)

  def spec(v, p):
    if p.end != 'exit':
      return 'membership test raises'
    r = p.last_return().value
    got = lib.eval_expr(r, v, classify, p, before_index=len(p.steps) - 1)
    want = v['declared'] and (v['default'] or v['loaded'] or v['flag'])
    if got is None:
      return 'result not evaluable: %s' % norm(r)
    if bool(got) != bool(want):
      return ('row: `key in conf` is %s but item access %s' %
              (bool(got), 'returns a value' if want else 'raises'))
    return None

  lib.decision_table(report, rule, f, ['declared', 'flag', 'loaded', 'default'],
                     classify, spec)
  a = repo.func(CF, C + '._asdict')
  got = _asdict_layers(a)
  ok = got == ['default', 'loaded', 'flag']
  report.check(ok, rule, a.qualname, 'layering', a.node,
               '_asdict: defaults, then update(loaded), then flags of declared '
               'keys: the same winner per declared key as item access',
               '_asdict does not layer default -> loaded -> declared flags in '
               'this order (layers found: %s): the snapshot stored in test '
               'metadata disagrees with item access' % (got,))
  h = repo.func(CF, '_ConfigValueHolder.value')
  rets = [n for n in walk_no_nested(h.node) if isinstance(n, ast.Return)]
  report.check(len(rets) == 1 and norm(rets[0].value) ==
               'self._configuration[self.name]', rule, h.qualname, 'delegates',
               h.node, 'the declared value holder reads through item access')
  ga = repo.func(CF, C + '.__getattr__')
  g = lib.cfg(ga)
  rets = [n for n in g.nodes if n.kind == 'stmt' and isinstance(n.ast,
                                                                ast.Return)]
  fld = lib.param_names(ga.node)[1]
  ok = len(rets) == 1 and norm(rets[0].ast.value) == 'self[%s]' % fld and \
      g.dominated_by_edge(rets[0], lambda s, l, d: s.kind == 'test' and
                          l == 'T' and call_name(s.ast) == 'self._is_valid_key')
  report.check(ok, rule, ga.qualname, 'delegates', ga.node,
               'attribute access of a key reads through item access')


def r3_load(report, repo):
  rule = 'C20-R3'
  report.rule(rule, 'T-DTABLE/T-KW: load_from_dict stores iff (declared or '
              '_allow_undeclared) and (not already loaded or _override); load '
              'and load_from_file thread both flags')
  f = repo.func(CF, C + '.load_from_dict')
  loops = [n for n in walk_no_nested(f.node) if isinstance(n, ast.For)]
  report.expect_instances(rule, len(loops), 1, 'load loops')
  key = dotted(loops[0].target.elts[0])
  keys = lib.copy_class(f, key)

  def classify(expr, steps):
    for k_ in keys:
      m = _membership(expr, k_, '_declarations')
      if m:
        return 'declared' if m == 'in' else ('not', 'declared')
      m = _membership(expr, k_, '_loaded_values')
      if m:
        return 'already' if m == 'in' else ('not', 'already')
    d = dotted(expr)
    if d == '_allow_undeclared':
      return 'allow'
    if d == '_override':
      return 'override'
    return None

  def spec(v, p):
    if p.end != 'exit':
      return None
    iterated = any(l == 'iter' for n, l in p.steps if n.kind == 'for')
    stores = [n for n, _ in p.steps if n.kind == 'stmt' and isinstance(
        n.ast, ast.Assign) and isinstance(n.ast.targets[0], ast.Subscript) and
              dotted(n.ast.targets[0].value) == 'self._loaded_values']
    if not iterated:
      return 'empty-row: stores without a key' if stores else None
    want = (v['declared'] or v['allow']) and (not v['already'] or v['override'])
    if want != (len(stores) == 1):
      return ('store-row: value %s although declared=%s allow=%s '
              'already_loaded=%s override=%s' %
              ('stored' if stores else 'not stored', v['declared'], v['allow'],
               v['already'], v['override']))
    if stores:
      s = stores[0].ast
      if dotted(s.targets[0].slice) not in keys or not isinstance(
          s.value, ast.Name):
        return 'store-row: must store the value under its key'
    return None

  lib.decision_table(report, rule, f,
                     ['declared', 'allow', 'already', 'override'], classify,
                     spec)
  for q in ('load', 'load_from_file'):
    ff = repo.func(CF, C + '.' + q)
    cs = core.calls_in(ff.node, name='self.load_from_dict')
    ok = len(cs) == 1 and dotted(core.get_kw(cs[0], '_override')) == \
        '_override' and dotted(core.get_kw(cs[0], '_allow_undeclared')) == \
        '_allow_undeclared'
    report.check(ok, rule, ff.qualname, 'flags-threaded', ff.node,
                 '%s passes _override and _allow_undeclared through' % q,
                 '%s does not pass both _override and _allow_undeclared to '
                 'load_from_dict' % q)
    a = ff.node.args
    names = [x.arg for x in a.args]
    dfl = {n: d for n, d in zip(names[len(names) - len(a.defaults):],
                                a.defaults)}
    ok = isinstance(dfl.get('_override'), ast.Constant) and \
        dfl['_override'].value is True and isinstance(
            dfl.get('_allow_undeclared'), ast.Constant) and \
        dfl['_allow_undeclared'].value is False
    report.check(ok, rule, ff.qualname, 'defaults', ff.node,
                 '%s: later loads override by default, undeclared keys are '
                 'refused by default' % q)


def r4_who(report, repo):
  rule = 'C20-R4'
  report.rule(rule, 'T-WHO: _flag_values written only in __init__ / '
              'load_flag_values; _declarations only in __init__ / declare; '
              '_loaded_values only in reset, load_from_dict and the restore of '
              'save_and_restore; reset rebinds _loaded_values to a new dict')
  allowed = {
      '_flag_values': (C + '.__init__', C + '.load_flag_values'),
      '_declarations': (C + '.__init__', C + '.declare'),
      '_loaded_values': (C + '.reset', C + '.load_from_dict',
                         C + '.save_and_restore._saving_wrapper'),
  }
  n = 0
  for attr, owners in allowed.items():
    for m, node, kind, tgt in core.attr_write_sites(repo, attr):
      if m.relpath == 'openhtf/util/test.py':
        continue
      n += 1
      owner = core.owner_qualname(node)
      val = getattr(node, 'value', None)
      empty_init = owner == C + '.__init__' and isinstance(
          node, (ast.Assign, ast.AnnAssign)) and (
              (isinstance(val, ast.Dict) and not val.keys) or
              (isinstance(val, ast.Call) and call_name(val) == 'dict' and
               not val.args and not val.keywords))
      # creating the (empty) table in the constructor is not a write to it
      report.check(m.relpath == CF and (owner in owners or empty_init), rule,
                   owner, node, node,
                   '%s written in %s' % (attr, owner),
                   '%s is written in %s (%s): %s' %
                   (attr, owner, norm(node),
                    'reset() or a load would drop / change flag values'
                    if attr == '_flag_values' else
                    'the three-table representation is bypassed'))
  report.expect_instances(rule, n, 6, 'table write sites')
  r = repo.func(CF, C + '.reset')
  a = [x for x in walk_no_nested(r.node) if isinstance(x, ast.Assign) and
       dotted(x.targets[0]) == 'self._loaded_values']
  ok = len(a) == 1 and isinstance(a[0].value, ast.Dict) and not a[0].value.keys
  report.check(ok, rule, r.qualname, 'fresh-dict', r.node,
               'reset rebinds the loaded table to a new empty dict (saved '
               'snapshots are not emptied)')
  bad = [c for c in core.calls_in(r.node) if 'flag_values' in (call_name(c)
                                                               or '')]
  report.check(not bad, rule, r.qualname, 'keeps-flags', r.node,
               'reset does not touch flag values')


def r5_save_restore(report, repo):
  rule = 'C20-R5'
  report.rule(rule, 'T-MUST/T-FRESH: _saving_wrapper: saved value is a copy of '
              '_loaded_values taken before the try; the wrapped call is inside '
              'the try; the finally restores exactly that copy')
  f = repo.func(CF, C + '.save_and_restore._saving_wrapper')
  tries = [n for n in walk_no_nested(f.node) if isinstance(n, ast.Try) and
           n.finalbody]
  report.check(len(tries) == 1, rule, f.qualname, 'try-finally', f.node,
               'the wrapped call is protected by try/finally',
               'no try/finally: a raising function leaves the temporary '
               'configuration in place')
  if len(tries) != 1:
    return
  t = tries[0]
  saves = [n for n in walk_no_nested(f.node) if isinstance(n, ast.Assign) and
           isinstance(n.targets[0], ast.Name) and any(
               isinstance(x, ast.Attribute) and
               dotted(x) == 'self._loaded_values' for x in ast.walk(n.value))
           and not any(p is t for p in core.parents(n))]
  g = lib.cfg(f)
  callsf = [c for c in core.calls_in(f.node) if dotted(c.func) == '_func']
  ok = len(saves) == 1 and bool(callsf) and all(
      g.dominated_by(x, lambda n_: n_.ast is saves[0])
      for x in g.nodes_of(callsf[0]))
  copy_ok = False
  if ok:
    v = saves[0].value
    copy_ok = isinstance(v, ast.Call) and (
        (call_name(v) in ('dict', 'copy.copy', 'copy.deepcopy') and
         dotted(v.args[0]) == 'self._loaded_values') or
        (last_attr(v) == 'copy' and dotted(v.func.value) ==
         'self._loaded_values'))
  report.check(ok and copy_ok, rule, f.qualname, 'snapshot-is-copy',
               saves[0] if saves else f.node,
               'a copy of the loaded values is taken before the try',
               'the snapshot is %s: an alias (or no snapshot before the try) '
               'is modified by the loads it is meant to undo' %
               (norm(saves[0].value) if saves else 'missing'))
  name = dotted(saves[0].targets[0]) if saves else None
  calls = [c for c in core.calls_in(f.node) if dotted(c.func) == '_func']
  report.check(len(calls) == 1 and core.in_block(calls[0], t, 'body'), rule,
               f.qualname, 'call-in-try', f.node,
               'the wrapped function runs inside the try')
  fin = t.finalbody
  eff = []
  for s_ in fin:
    inner = s_.body if isinstance(s_, ast.With) and any(
        'lock' in (dotted(i.context_expr) or '').lower() for i in s_.items) \
        else [s_]
    eff.extend(x for x in inner if not (isinstance(x, ast.Expr) and (
        isinstance(x.value, ast.Constant) or cfgm.is_log_call(x.value))))
  ok = len(eff) == 1 and isinstance(eff[0], ast.Assign) and \
      dotted(eff[0].targets[0]) == 'self._loaded_values' and \
      dotted(eff[0].value) == name
  report.check(
      ok, rule, f.qualname, 'exact-restore', fin[0] if fin else t,
      'finally: self._loaded_values = <the snapshot>: exactly the values '
      'present at call time come back, whatever they were',
      'the finally does %s instead of re-binding the snapshot: the restore is '
      'not exact (e.g. re-loading through load_from_dict drops keys that are '
      'loaded but not declared)' % [norm(s) for s in fin])
  lds = [c for c in core.calls_in(f.node, name='self.load_from_dict')]
  report.check(all(core.in_block(c, t, 'body') for c in lds), rule, f.qualname,
               'temp-load-in-try', f.node,
               'the temporary values are loaded inside the try')


def r6_declare(report, repo):
  rule = 'C20-R6'
  report.rule(rule, 'T-DOM: declare raises for an invalid name and for a '
              'redeclaration before the table is written; __setattr__ raises '
              'for every valid key name before delegating')
  f = repo.func(CF, C + '.declare')
  g = lib.cfg(f)
  name = lib.param_names(f.node)[1]
  ws = [n for n in g.nodes if n.kind == 'stmt' and isinstance(
      n.ast, ast.Assign) and isinstance(n.ast.targets[0], ast.Subscript) and
        dotted(n.ast.targets[0].value) == 'self._declarations']
  report.expect_instances(rule, len(ws), 1, 'declaration writes')
  w = ws[0]
  ok1 = g.dominated_by_edge(
      w, lambda s, l, d: s.kind == 'test' and l == 'T' and
      call_name(s.ast) == 'self._is_valid_key')
  ok2 = g.dominated_by_edge(
      w, lambda s, l, d: s.kind == 'test' and
      _membership(s.ast, name, '_declarations') is not None and
      l == ('F' if _membership(s.ast, name, '_declarations') == 'in' else 'T'))
  report.check(ok1, rule, f.qualname, 'valid-name', w.ast,
               'a key is declared only after its name was validated')
  report.check(ok2, rule, f.qualname, 'no-redeclaration', w.ast,
               'a key is declared only if it was not declared before',
               'a key can be declared twice: the later declaration silently '
               'replaces default and description')
  kinds = sorted(last_attr(n.ast.exc) for n in g.nodes if n.kind == 'stmt' and
                 isinstance(n.ast, ast.Raise) and n.ast.exc is not None)
  report.check(kinds == ['InvalidKeyError', 'KeyAlreadyDeclaredError'], rule,
               f.qualname, 'errors', f.node,
               'the two rejections raise InvalidKeyError / '
               'KeyAlreadyDeclaredError')
  s = repo.func(CF, C + '.__setattr__')
  gs = lib.cfg(s)
  sup = [n for n in gs.nodes if n.kind == 'stmt' and any(
      isinstance(x, ast.Call) and last_attr(x) == '__setattr__'
      for x in n.subnodes())]
  ok = bool(sup) and all(gs.dominated_by_edge(
      n, lambda s_, l, d: s_.kind == 'test' and l == 'F' and
      call_name(s_.ast) == 'self._is_valid_key') for n in sup) and any(
          isinstance(n.ast, ast.Raise) and last_attr(n.ast.exc) ==
          'AttributeError' for n in gs.nodes if n.kind == 'stmt')
  report.check(ok, rule, s.qualname, 'no-attribute-set', s.node,
               'assigning a key by attribute raises AttributeError; only '
               'non-key attributes reach object.__setattr__')
  vk = repo.func(CF, C + '._is_valid_key')
  rets = [n for n in walk_no_nested(vk.node) if isinstance(n, ast.Return)]
  report.check(len(rets) == 1 and norm(rets[0].value) ==
               'key and key[0].islower()', rule, vk.qualname, 'key-shape',
               vk.node, 'keys are non-empty and start with a lowercase letter')


def run(report, repo):
  report.guard(r1_getitem, report, repo)
  report.guard(r2_views, report, repo)
  report.guard(r3_load, report, repo)
  report.guard(r4_who, report, repo)
  report.guard(r5_save_restore, report, repo)
  report.guard(r6_declare, report, repo)
  from sa.rules import c09  # pylint: disable=g-import-not-at-top
  report.guard(c09.r7_metadata, report, repo)
