"""C13 - ADB message framing."""

import ast
import struct as _struct

from sa import cfg as cfgm
from sa import core, lib
from sa.core import call_name, dotted, last_attr, norm, walk_no_nested
from sa.lib import ends_with

DECIDES = (
    'writer/reader layout agreement (little-endian, 6 unsigned words = 24 '
    'bytes, same format constant on both sides, field roles in the same '
    'order: command, arg0, arg1, payload length, payload sum, magic = command '
    'xor 0xFFFFFFFF); header and payload of one message are written (read) '
    'inside one continuous writer (reader) lock region, also through helper '
    'methods; the payload write post-dominates the header write; every '
    'delivered message passed to_adb_message; empty / short header, unknown '
    'command, length or checksum mismatch raise the ADB protocol / integrity '
    'errors (decision table over {length mismatch, checksum mismatch}); the '
    'command tables are mutual inverses over the 7 commands.')
DOES_NOT_DECIDE = (
    'the checksum arithmetic for all payloads (value relation); the code is '
    'Python-2 style (ord over str) and is analysed as written.')

AM = 'openhtf/plugs/usb/adb_message.py'
CLS = 'AdbTransportAdapter'


def r1_layout(report, repo):
  rule = 'C13-R1'
  report.rule(rule, 'T-AGREE/T-STR: header format is `<6I`; AdbMessage.header '
              'packs 6 values whose roles, in order, match the 6 fields of '
              'RawAdbMessage; both sides use the same format constant')
  cls = repo.cls(AM, 'AdbMessage')
  fmt = None
  for s in cls.body:
    if isinstance(s, ast.Assign) and dotted(s.targets[0]) == \
        'HEADER_STRUCT_FORMAT':
      fmt = core.const_str(s.value)
  if fmt is None:
    raise core.AnalysisError('HEADER_STRUCT_FORMAT is not a string literal')
  ok = fmt[:1] == '<'
  try:
    size = _struct.calcsize(fmt)
    n_fields = len(_struct.unpack(fmt, b'\0' * size))
  except _struct.error:
    size, n_fields = -1, -1
  unsigned = all(ch in '0123456789I' for ch in fmt[1:])
  report.check(ok and size == 24 and n_fields == 6 and unsigned, rule,
               'AdbMessage', 'HEADER_STRUCT_FORMAT', cls,
               'header layout %r: little-endian, 6 unsigned 32-bit words, 24 '
               'bytes' % fmt,
               'header layout %r is not little-endian 6 x uint32 (size %s, %s '
               'fields)' % (fmt, size, n_fields))
  h = repo.func(AM, 'AdbMessage.header')
  packs = core.calls_in(h.node, name='struct.pack')
  report.expect_instances(rule, len(packs), 1, 'struct.pack calls')
  p = packs[0]
  roles = []
  for a in p.args[1:]:
    d = dotted(a)
    if d == 'self._command':
      roles.append('cmd')
    elif d in ('self.arg0', 'self.arg1', 'self.magic'):
      roles.append(d[5:])
    elif d == 'self.data_crc32':
      roles.append('data_checksum')
    elif isinstance(a, ast.Call) and call_name(a) == 'len' and \
        dotted(a.args[0]) == 'self.data':
      roles.append('data_length')
    else:
      roles.append('?' + norm(a))
  raw = repo.cls(AM, 'RawAdbMessage')
  fields = None
  for b in raw.bases:
    if isinstance(b, ast.Call) and last_attr(b) == 'namedtuple' and \
        len(b.args) == 2 and isinstance(b.args[1], (ast.List, ast.Tuple)):
      fields = [core.const_str(e) for e in b.args[1].elts]
  report.check(roles == fields and fields is not None and len(fields) == 6,
               rule, h.qualname, 'field-order', p,
               'packed roles %s == unpacked fields %s' % (roles, fields),
               'the writer packs %s but the reader names the words %s: one '
               'side\'s field order changed' % (roles, fields))
  report.check(dotted(p.args[0]) == 'self.HEADER_STRUCT_FORMAT', rule,
               h.qualname, 'format-constant', p,
               'writer uses HEADER_STRUCT_FORMAT')
  rd = repo.func(AM, CLS + '.read_message')
  ups = core.calls_in(rd.node, name='struct.unpack')
  cal = core.calls_in(rd.node, name='struct.calcsize')
  ok = len(ups) == 1 and len(cal) == 1 and ends_with(
      dotted(ups[0].args[0]) or '', 'HEADER_STRUCT_FORMAT') and ends_with(
          dotted(cal[0].args[0]) or '', 'HEADER_STRUCT_FORMAT')
  report.check(ok, rule, rd.qualname, 'format-constant', rd.node,
               'reader sizes and unpacks the header with the same constant')
  if ups:
    raws = [c for c in core.calls_in(rd.node, attr='RawAdbMessage')]
    ok = len(raws) == 1 and len(raws[0].args) == 1 and isinstance(
        raws[0].args[0], ast.Starred) and any(
            x is ups[0] for x in lib.resolved(rd, raws[0].args[0].value))
    report.check(ok, rule, rd.qualname, 'unpack-into-raw', rd.node,
                 'the unpacked words fill RawAdbMessage positionally')
  init = repo.func(AM, 'AdbMessage.__init__')
  mg = [n for n in walk_no_nested(init.node) if isinstance(n, ast.Assign) and
        dotted(n.targets[0]) == 'self.magic']
  ok = len(mg) == 1 and isinstance(mg[0].value, ast.BinOp) and isinstance(
      mg[0].value.op, ast.BitXor)
  if ok:
    sides = [mg[0].value.left, mg[0].value.right]
    mask = [x for x in sides if norm(x) == '4294967295']
    other = [x for x in sides if norm(x) != '4294967295']
    ok = len(mask) == 1 and len(other) == 1
  if ok:
    # the other operand is the wire command: self._command itself, or the
    # local that was stored into it (same reaching definitions)
    gi0 = lib.cfg(init)
    cmd_st = [n for n in gi0.nodes if n.kind == 'stmt' and isinstance(
        n.ast, ast.Assign) and dotted(n.ast.targets[0]) == 'self._command']
    mg_n = gi0.nodes_of(mg[0])[0]
    if dotted(other[0]) == 'self._command':
      ok = len(cmd_st) == 1 and gi0.dominated_by(mg_n,
                                                 lambda n: n is cmd_st[0])
    else:
      ok = len(cmd_st) == 1 and isinstance(other[0], ast.Name) and \
          isinstance(cmd_st[0].ast.value, ast.Name) and \
          other[0].id == cmd_st[0].ast.value.id and \
          {id(d) for d, _ in lib.reaching_defs(gi0, mg_n, other[0].id)} == \
          {id(d) for d, _ in lib.reaching_defs(gi0, cmd_st[0], other[0].id)}
  report.check(ok, rule, init.qualname, 'magic', init.node,
               'magic = command xor 0xFFFFFFFF')
  crc = repo.func(AM, 'AdbMessage.data_crc32')
  rets = [n for n in walk_no_nested(crc.node) if isinstance(n, ast.Return)]
  ok = len(rets) == 1 and isinstance(rets[0].value, ast.BinOp) and isinstance(
      rets[0].value.op, ast.BitAnd) and call_name(rets[0].value.left) == 'sum' \
      and norm(rets[0].value.right) == '4294967295' and any(
          dotted(x) == 'self.data' for x in ast.walk(rets[0].value.left))
  report.check(ok, rule, crc.qualname, 'byte-sum', crc.node,
               'payload checksum = byte sum of self.data masked to 32 bits')


def _transport_io_sites(repo, fq, op, depth=2, seen=None):
  """Call sites in fq that perform _transport.<op> directly or through
  helper methods of the class: [(call node in fq, chain)]."""
  seen = seen or set()
  f = repo.func(AM, fq)
  out = []
  for c in core.calls_in(f.node):
    cn = call_name(c) or ''
    if cn == 'self._transport.' + op:
      out.append((c, [fq]))
    elif cn.startswith('self.') and depth > 0 and f.cls is not None:
      hq = '%s.%s' % (f.cls.name, cn[5:])
      if repo.has_func(AM, hq) and hq not in seen and hq != fq:
        sub = _transport_io_sites(repo, hq, op, depth - 1, seen | {fq})
        if sub:
          out.append((c, [fq] + sub[0][1]))
  return out


def r2_r3_regions(report, repo, rule='C13-R2', rule3='C13-R3'):
  report.rule(rule, 'T-REGION/T-WHO: header and payload transfer of one '
              'message lie in one continuous lock region (writer lock for '
              'write_message, reader lock for read_message), helper methods '
              'inlined; no other method touches the raw transport')
  for meth, op, lock in (('write_message', 'write', 'self._writer_lock'),
                         ('read_message', 'read', 'self._reader_lock')):
    fq = CLS + '.' + meth
    f = repo.func(AM, fq)
    sites = _transport_io_sites(repo, fq, op)
    report.expect_instances(rule, len(sites), 2, 'transport %ss in %s' %
                            (op, meth))
    regions = []
    for c, chain in sites:
      ws = [w for w in core.enclosing_withs(c) if lock in core.with_item_names(w)]
      regions.append(ws[0] if ws else None)
    ok = all(r is not None for r in regions) and len(set(id(r)
                                                         for r in regions)) == 1
    report.check(
        ok, rule, fq, 'one-%s-region' % op, f.node,
        '%s: %d transport %ss inside one `with %s` region' %
        (meth, len(sites), op, lock),
        '%s does not keep %s for the whole message (header and payload %s in '
        'different or no lock regions%s): frames of concurrent %s can '
        'interleave' % (meth, lock, op + 's',
                        '; via ' + ' -> '.join(sites[0][1])
                        if sites and len(sites[0][1]) > 1 else '',
                        'writers' if op == 'write' else 'readers'))
  # who else touches the transport
  cls = repo.cls(AM, CLS)
  allowed = {'write': ('write_message',), 'read': ('read_message',)}
  for f in repo.module(AM).all_funcs():
    if f.cls is None or f.cls.name not in (CLS, 'DebugAdbTransportAdapter'):
      continue
    for op in ('read', 'write'):
      for c in core.calls_in(f.node, name='self._transport.' + op):
        # helpers are fine when only reachable from the owning method
        callers = [g.name for g in repo.module(AM).all_funcs()
                   if g.cls is f.cls and g is not f and
                   core.calls_in(g.node, name='self.' + f.name)]
        ok = f.name in allowed[op] or (callers and
                                       all(x in allowed[op] for x in callers))
        report.check(ok, rule, f.qualname, c, c,
                     '_transport.%s used by %s' % (op, f.qualname),
                     '_transport.%s is called from %s, outside the framed '
                     '%s path' % (op, f.qualname, allowed[op][0]))
  report.rule(rule3, 'T-MUST: in write_message the payload write post-dominates '
              'the header write on all normal paths; header first')
  f = repo.func(AM, CLS + '.write_message')
  g = lib.cfg(f)
  sites = _transport_io_sites(repo, CLS + '.write_message', 'write')
  nodes = []
  for c, _ in sites:
    nodes.extend((n, c) for n in g.nodes_of(c))

  def arg_role(c):
    for a in c.args:
      d = dotted(a) or ''
      if d.endswith('.header'):
        return 'header'
      if d.endswith('.data'):
        return 'data'
    return '?'

  hdr = [n for n, c in nodes if arg_role(c) == 'header']
  dat = [n for n, c in nodes if arg_role(c) == 'data']
  ok = len(hdr) == 1 and len(dat) >= 1 and g.must_pass(
      hdr[0], g.is_normal_exit, lambda n: any(n is d for d in dat),
      avoid_edge=lambda a, l, b: l == 'exc') and all(
          g.dominated_by(d, lambda n: n is hdr[0]) for d in dat)
  report.check(ok, rule3, f.qualname, 'payload-after-header', f.node,
               'once the header was written every normal path writes the '
               'payload (the expired-timeout branch only replaces the timeout)',
               'a normal path writes the header but not the payload (or the '
               'payload first): the device loses frame synchronisation')


def r3b_payload_paths(report, repo):
  rule = 'C13-R3'
  f = repo.func(AM, CLS + '.write_message')

  tnames = lib.copy_class(f, lib.param_names(f.node)[2])

  def cl(expr, steps):
    cn = call_name(expr) or ''
    if cn.endswith('.has_expired') and cn.rsplit('.', 1)[0] in tnames:
      return 'expired'
    return None

  def sp(v, p):
    if p.end != 'exit':
      return None
    dataw = [(i, s_) for i, (n, _) in enumerate(p.steps) for s_ in n.subnodes()
             if isinstance(s_, ast.Call) and
             call_name(s_) == 'self._transport.write' and any(
                 (dotted(a) or '').endswith('.data') for a in s_.args)]
    if len(dataw) != 1:
      return 'payload-row: the payload is written %d times' % len(dataw)
    di, dw = dataw[0]
    # the timeout the payload write is given, as it stands on this path
    targ = dw.args[1] if len(dw.args) > 1 else None
    base = targ.value if isinstance(targ, ast.Attribute) else targ
    tval = cfgm.path_resolve(p, base, before_index=di) if base is not None \
        else None
    tparam = lib.param_names(f.node)[2]
    if v['expired']:
      a0 = tval.args[0] if isinstance(tval, ast.Call) and tval.args else None
      if isinstance(a0, ast.Name):  # a named module-level number
        a0 = repo.module(AM).constants.get(a0.id, a0)
      ok = isinstance(tval, ast.Call) and last_attr(tval) in (
          'from_millis', 'from_seconds') and isinstance(
              a0, ast.Constant) and isinstance(a0.value, (int, float)) and \
          a0.value > 0
      if not ok:
        return ('expired-row: when the timeout expired after the header, the '
                'payload must still be sent with a fresh positive timeout')
    elif not core.is_name(tval, tparam):
      return 'normal-row: the caller\'s timeout is replaced although not expired'
    return None

  lib.decision_table(report, rule, f, ['expired'], cl, sp)
  rule4 = 'C13-R4'
  r = repo.func(AM, CLS + '.read_message')
  # locals named by what they are bound from
  rmsg = lib.local_from(r, lib.calls(attr='RawAdbMessage'), 'raw_message')
  rhdr = lib.local_from(
      r, lambda e: isinstance(e, ast.Call) and
      call_name(e) == 'self._transport.read' and any(
          call_name(x) == 'struct.calcsize' for x in ast.walk(e)),
      'raw_header')

  def cl2(expr, steps):
    # "the header announces a payload": data_length compared with 0, either
    # way round (a length is never negative), or tested for truth
    if norm(expr) == rmsg + '.data_length':
      return 'has_payload'
    if isinstance(expr, ast.Compare) and len(expr.ops) == 1:
      l, r_, op = expr.left, expr.comparators[0], expr.ops[0]
      is_len = lambda e: norm(e) == rmsg + '.data_length'
      is0 = lambda e: isinstance(e, ast.Constant) and e.value == 0 and \
          e.value is not False
      if is_len(l) and is0(r_):
        if isinstance(op, (ast.Gt, ast.NotEq)):
          return 'has_payload'
        if isinstance(op, ast.Eq):
          return ('not', 'has_payload')
      if is0(l) and is_len(r_):
        if isinstance(op, ast.NotEq):
          return 'has_payload'
        if isinstance(op, (ast.Eq, ast.GtE)):
          return ('not', 'has_payload')
    if core.is_name(expr, rhdr):
      return 'got_header'
    return None

  def validated(p):
    """what the to_adb_message call on this path is given"""
    vc = p.calls(attr='to_adb_message')
    if len(vc) != 1 or not vc[0].args:
      return None
    i = p.index_of(lambda n_: n_.contains(vc[0]))
    return cfgm.path_resolve(p, vc[0].args[0], before_index=i)

  def sp2(v, p):
    if not v['got_header']:
      return None  # covered by the empty-header rule
    if p.end != 'exit':
      return None
    reads = [s_ for n, _ in p.steps for s_ in n.subnodes()
             if isinstance(s_, ast.Call) and
             call_name(s_) == 'self._transport.read']
    pay = [c for c in reads if c.args and
           norm(c.args[0]) == rmsg + '.data_length']
    if v['has_payload']:
      if len(pay) != 1:
        return ('payload-row: a frame announcing a payload must read exactly '
                'data_length bytes (payload reads: %d)' % len(pay))
      src = validated(p)
      if src is not pay[0]:
        return 'payload-row: the validated data is not what was read'
    else:
      if pay:
        return 'empty-row: a payload is read for a frame announcing none'
      src = validated(p)
      if not (isinstance(src, ast.Constant) and src.value in ('', b'')):
        return 'empty-row: data must be empty for a frame without payload'
    return None

  lib.decision_table(report, rule4, r, ['got_header', 'has_payload'], cl2, sp2)


def r4_validation(report, repo):
  rule = 'C13-R4'
  report.rule(rule, 'T-MUST/T-DTABLE: read_message delivers only what passed '
              'to_adb_message; empty header and struct.error raise '
              'AdbProtocolError; to_adb_message raises AdbDataIntegrityError '
              'iff length or checksum disagree; unknown commands are rejected '
              'by AdbMessage.__init__')
  f = repo.func(AM, CLS + '.read_message')
  g = lib.cfg(f)
  rets = [n for n in g.nodes if n.kind == 'stmt' and isinstance(n.ast,
                                                                ast.Return)]
  report.expect_instances(rule, len(rets), 1, 'returns in read_message')
  for r in rets:
    ok = isinstance(r.ast.value, ast.Call) and \
        last_attr(r.ast.value) == 'to_adb_message'
    if not ok and isinstance(r.ast.value, ast.Name):
      ok = g.dominated_by(r, lambda n: n.kind == 'stmt' and isinstance(
          n.ast, ast.Assign) and core.is_name(n.ast.targets[0],
                                              r.ast.value.id) and
                          last_attr(n.ast.value) == 'to_adb_message')
    report.check(ok, rule, f.qualname, 'validated-return', r.ast,
                 'the returned message is the result of to_adb_message',
                 'read_message returns %s without validation by '
                 'to_adb_message' % norm(r.ast.value))
  hdr_reads = [c for c in core.calls_in(f.node, name='self._transport.read')
               if any(call_name(x) == 'struct.calcsize' for x in ast.walk(c))]
  report.check(len(hdr_reads) == 1, rule, f.qualname, 'header-size', f.node,
               'the header read asks for struct.calcsize(format) bytes')
  rhdr = lib.local_from(f, lambda e: any(c is e for c in hdr_reads),
                        'raw_header')
  empt = [n for n in g.nodes if n.kind == 'test' and core.is_name(n.ast, rhdr)]
  ok = len(empt) == 1 and lib.branch_must_raise(g, empt[0], 'F') and any(
      isinstance(x.ast, ast.Raise) and
      last_attr(x.ast.exc) == 'AdbProtocolError'
      for x in [empt[0].succ('F')] + g.reach(
          [empt[0].succ('F')], avoid_edge=lambda a, l, b: l == 'exc'))
  report.check(ok, rule, f.qualname, 'empty-header', f.node,
               'an empty header raises AdbProtocolError')
  ups = core.calls_in(f.node, name='struct.unpack')
  ok = False
  if ups:
    sh = lib.shielded_by_try(ups[0], ('error',))
    ok = sh is not None and any(
        isinstance(s, ast.Raise) and last_attr(s.exc) == 'AdbProtocolError'
        for s in sh[1].body)
  report.check(ok, rule, f.qualname, 'short-header', f.node,
               'a short header (struct.error) raises AdbProtocolError')
  t = repo.func(AM, 'RawAdbMessage.to_adb_message')
  par = lib.param_names(t.node)[1]

  msgv = lib.local_from(t, lib.calls(attr='AdbMessage'), 'message')

  def classify(expr, steps):
    if isinstance(expr, ast.Compare) and len(expr.ops) == 1:
      l, r, op = expr.left, expr.comparators[0], expr.ops[0]
      sides = {norm(l), norm(r)}
      # the payload, as the parameter or as the field of the message built
      # from it
      if sides in ({'len(%s)' % par, 'self.data_length'},
                   {'len(%s.data)' % msgv, 'self.data_length'}):
        if isinstance(op, ast.NotEq):
          return 'len_bad'
        if isinstance(op, ast.Eq):
          return ('not', 'len_bad')
      if 'self.data_checksum' in sides and any(s.endswith('.data_crc32')
                                               for s in sides):
        if isinstance(op, ast.NotEq):
          return 'crc_bad'
        if isinstance(op, ast.Eq):
          return ('not', 'crc_bad')
    return None

  def spec(v, p):
    bad = v['len_bad'] or v['crc_bad']
    if bad:
      if p.end == 'exit':
        return ('reject-row: a frame with %s is delivered instead of raising '
                'AdbDataIntegrityError' % ('wrong payload length' if
                                           v['len_bad'] else 'wrong checksum'))
      r = p.raised()
      if r is None or last_attr(r.exc) != 'AdbDataIntegrityError':
        return 'reject-row: must raise AdbDataIntegrityError'
      return None
    if p.end != 'exit':
      return 'accept-row: a consistent frame is rejected'
    if p.last_return() is None or p.last_return().value is None:
      return 'accept-row: must return the constructed AdbMessage'
    rv = p.last_return().value
    src = p.value_of(rv.id) if isinstance(rv, ast.Name) else rv
    if not (isinstance(src, ast.Call) and last_attr(src) == 'AdbMessage'):
      return 'accept-row: must return the constructed AdbMessage'
    a = src.args
    ok = len(a) == 4 and [dotted(x) for x in a[1:]] == ['self.arg0', 'self.arg1',
                                                       par]
    if not ok:
      return 'accept-row: message not built from (cmd, arg0, arg1, data)'
    c0 = a[0]
    if not (isinstance(c0, ast.Call) and last_attr(c0) == 'get' and ends_with(
        dotted(c0.func.value) or '', 'WIRE_TO_CMD') and
            dotted(c0.args[0]) == 'self.cmd'):
      return ('accept-row: command must be looked up with WIRE_TO_CMD.get so '
              'that an unknown word reaches AdbMessage.__init__\'s check')
    return None

  lib.decision_table(report, rule, t, ['len_bad', 'crc_bad'], classify, spec)
  init = repo.func(AM, 'AdbMessage.__init__')
  gi = lib.cfg(init)
  st = [n for n in gi.nodes if n.kind == 'stmt' and isinstance(n.ast, ast.Assign)
        and dotted(n.ast.targets[0]) == 'self._command']
  cparam = lib.param_names(init.node)[1]

  def member_edge(s, l, d):
    return s.kind == 'test' and isinstance(s.ast, ast.Compare) and len(
        s.ast.ops) == 1 and isinstance(s.ast.ops[0], (ast.In, ast.NotIn)) and \
        dotted(s.ast.left) == cparam and ends_with(
            dotted(s.ast.comparators[0]) or '', 'CMD_TO_WIRE') and \
        l == ('F' if isinstance(s.ast.ops[0], ast.NotIn) else 'T')
  ok = len(st) == 1 and gi.dominated_by_edge(st[0], member_edge)
  tests = [n for n in gi.nodes if n.kind == 'test' and isinstance(
      n.ast, ast.Compare) and dotted(n.ast.left) == cparam]
  if len(st) == 1 and not ok and isinstance(st[0].ast.value, ast.Name):
    # the other form: one `CMD_TO_WIRE.get(command)` lookup, the store
    # dominated by the not-None edge of a test on the looked-up local
    loc = st[0].ast.value.id
    vals = lib.value_exprs(gi, st[0], st[0].ast.value)
    is_get = bool(vals) and all(
        isinstance(v, ast.Call) and last_attr(v) == 'get' and ends_with(
            dotted(v.func.value) or '', 'CMD_TO_WIRE') and
        len(v.args) == 1 and dotted(v.args[0]) == cparam and not v.keywords
        for v in vals)

    def none_edge(s, l, d):
      return s.kind == 'test' and isinstance(s.ast, ast.Compare) and len(
          s.ast.ops) == 1 and isinstance(s.ast.ops[0], (ast.Is, ast.IsNot)) \
          and core.is_name(s.ast.left, loc) and isinstance(
              s.ast.comparators[0], ast.Constant) and \
          s.ast.comparators[0].value is None and \
          l == ('F' if isinstance(s.ast.ops[0], ast.Is) else 'T')
    ok = is_get and gi.dominated_by_edge(st[0], none_edge)
    tests = [n for n in gi.nodes if n.kind == 'test' and isinstance(
        n.ast, ast.Compare) and core.is_name(n.ast.left, loc)]
  ok = ok and bool(tests) and any(
      isinstance(x.ast, ast.Raise) and last_attr(x.ast.exc) ==
      'AdbProtocolError' for x in gi.nodes if x.kind == 'stmt')
  report.check(ok, rule, init.qualname, 'unknown-command', init.node,
               'an unknown command raises AdbProtocolError before the message '
               'is built')


def r5_tables(report, repo):
  rule = 'C13-R5'
  report.rule(rule, 'T-AGREE: make_wire_commands builds mutually inverse '
              'dictionaries; the command list has the 7 ADB commands')
  f = repo.func(AM, 'make_wire_commands')
  ids = f.node.args.vararg.arg if f.node.args.vararg else lib.param_names(
      f.node)[0]
  # (a) the packing term: ord(<char>) << (<index> * 8) with (<index>, <char>)
  # ranging over enumerate(<command>), summed up (sum(...) or `+=` from 0)
  sh = [x for x in ast.walk(f.node) if isinstance(x, ast.BinOp) and
        isinstance(x.op, ast.LShift)]
  enums = []
  for x in ast.walk(f.node):
    if isinstance(x, (ast.comprehension, ast.For)) and call_name(x.iter) == \
        'enumerate' and isinstance(x.target, ast.Tuple) and \
        len(x.target.elts) == 2:
      enums.append((dotted(x.target.elts[0]), dotted(x.target.elts[1]),
                    dotted(x.iter.args[0]) if x.iter.args else None))
  ok = len(sh) == 1 and len(enums) == 1
  fwd_key = None
  if ok:
    idx, ch, word = enums[0]
    fwd_key = word
    ok = call_name(sh[0].left) == 'ord' and dotted(sh[0].left.args[0]) == ch \
        and norm(sh[0].right) in (idx + ' * 8', '8 * ' + idx)
    summed = any(isinstance(x, ast.Call) and call_name(x) == 'sum' and any(
        y is sh[0] for y in ast.walk(x)) for x in ast.walk(f.node)) or any(
            isinstance(x, ast.AugAssign) and isinstance(x.op, ast.Add) and
            x.value is sh[0] and any(
                isinstance(i, ast.Assign) and dotted(i.targets[0]) == dotted(
                    x.target) and isinstance(i.value, ast.Constant) and
                i.value.value == 0 for i in ast.walk(f.node))
            for x in ast.walk(f.node))
    ok = ok and summed
  # (b) forward table keyed by the command, inverse table built from its items
  fwd = inv = None
  for x in ast.walk(f.node):
    if isinstance(x, ast.DictComp) and len(x.generators) == 1:
      gen = x.generators[0]
      if dotted(gen.iter) == ids and dotted(x.key) == dotted(gen.target):
        fwd = ('comp', x)
      elif isinstance(gen.target, ast.Tuple) and len(gen.target.elts) == 2 and \
          last_attr(gen.iter) == 'items' and dotted(x.key) == dotted(
              gen.target.elts[1]) and dotted(x.value) == dotted(
                  gen.target.elts[0]):
        inv = ('comp', dotted(gen.iter.func.value))
    elif isinstance(x, ast.For):
      # table stores directly in this loop's body (not in a nested loop)
      for st in x.body:
        if not (isinstance(st, ast.Assign) and isinstance(st.targets[0],
                                                          ast.Subscript)):
          continue
        tgt = st.targets[0]
        if dotted(x.iter) == ids and dotted(tgt.slice) == dotted(x.target):
          fwd = ('loop', dotted(tgt.value))
        elif isinstance(x.target, ast.Tuple) and len(x.target.elts) == 2 and \
            last_attr(x.iter) == 'items' and dotted(tgt.slice) == dotted(
                x.target.elts[1]) and dotted(st.value) == dotted(
                    x.target.elts[0]):
          inv = ('loop', dotted(x.iter.func.value), dotted(tgt.value))
  fwd_name = None
  if fwd is not None:
    fwd_name = lib.local_from(f, lambda e: e is fwd[1], None) if fwd[0] == \
        'comp' else fwd[1]
  ok = ok and fwd is not None and inv is not None and fwd_name is not None \
      and inv[1] == fwd_name
  rets = [n for n in walk_no_nested(f.node) if isinstance(n, ast.Return)]
  ok = ok and len(rets) == 1 and isinstance(rets[0].value, ast.Tuple) and \
      len(rets[0].value.elts) == 2 and dotted(rets[0].value.elts[0]) == fwd_name
  report.check(ok, rule, f.qualname, 'inverse-tables', f.node,
               'cmd->wire packs characters little-endian; wire->cmd is its '
               'inverse')
  cls = repo.cls(AM, 'AdbMessage')
  cmds = None
  for s in cls.body:
    if isinstance(s, ast.Assign) and isinstance(s.value, ast.Call) and \
        call_name(s.value) == 'make_wire_commands':
      cmds = [core.const_str(a) for a in s.value.args]
      tg = [dotted(e) for e in s.targets[0].elts] if isinstance(
          s.targets[0], ast.Tuple) else []
      report.check(tg == ['CMD_TO_WIRE', 'WIRE_TO_CMD'], rule, 'AdbMessage',
                   'table-names', s, 'tables bound in (cmd->wire, wire->cmd) '
                   'order')
  want = ['SYNC', 'CNXN', 'AUTH', 'OPEN', 'OKAY', 'CLSE', 'WRTE']
  report.check(cmds is not None and sorted(cmds) == sorted(want) and all(
      len(c) == 4 for c in cmds), rule, 'AdbMessage', 'commands', cls,
               'the 7 four-character ADB commands are registered',
               'registered commands %s differ from %s' % (cmds, want))


def run(report, repo):
  report.guard(r1_layout, report, repo)
  report.guard(r2_r3_regions, report, repo)
  report.guard(r3b_payload_paths, report, repo)
  report.guard(r4_validation, report, repo)
  report.guard(r5_tables, report, repo)
  from sa.rules import extra4  # pylint: disable=g-import-not-at-top
  report.guard(extra4.defaults_are_constants, report, repo, 'C13-R6', AM)
  from sa.rules import extra5 as _e5c  # pylint: disable=g-import-not-at-top
  report.guard(_e5c.read_until_filters_only_by_command, report, repo, 'C13-R7')
