"""Rules written for round-4 seeded changes (see seeded/LOG.md).  Each is a
necessary structural condition of a clause of the property named in `rule=`;
they are registered from the run() of the properties they belong to."""

import ast

from sa import cfg as cfgm
from sa import core, lib
from sa.core import call_name, dotted, last_attr, norm, walk_no_nested
from sa.lib import ends_with

ME = 'openhtf/core/measurements.py'
TS = 'openhtf/core/test_state.py'
TE = 'openhtf/core/test_executor.py'
PE = 'openhtf/core/phase_executor.py'
TH = 'openhtf/util/threads.py'
LG = 'openhtf/util/logs.py'
FP = 'openhtf/plugs/usb/fastboot_protocol.py'
AM = 'openhtf/plugs/usb/adb_message.py'
AP = 'openhtf/plugs/usb/adb_protocol.py'


def with_args_keeps_validators(report, repo, rule):
  report.rule(rule, 'T-AGREE: Measurement.with_args carries every validator '
              'over (substituted where the validator supports it): the '
              'iteration over self.validators has no filter')
  f = repo.func(ME, 'Measurement.with_args')
  n = 0
  for x in ast.walk(f.node):
    gens = x.generators if isinstance(x, (ast.ListComp, ast.GeneratorExp,
                                         ast.SetComp)) else []
    for gen in gens:
      if dotted(gen.iter) in ('self.validators',
                              'self.conditional_validators'):
        n += 1
        report.check(not gen.ifs, rule, f.qualname, 'no-validator-filter:' +
                     norm(gen.iter), x,
                     'every element of %s reaches the copy' % norm(gen.iter),
                     'with_args drops the validators that do not satisfy `%s`: '
                     'a derived phase validates with fewer validators than '
                     'declared (a rejected value is recorded PASS)' %
                     (norm(gen.ifs[0]) if gen.ifs else ''))
  for lp in [x for x in walk_no_nested(f.node) if isinstance(x, ast.For)]:
    if dotted(lp.iter) in ('self.validators', 'self.conditional_validators'):
      n += 1
      skipping = [y for y in walk_no_nested(lp) if isinstance(y, ast.Continue)]
      report.check(not skipping, rule, f.qualname, 'no-validator-filter:' +
                   norm(lp.iter), lp, 'no validator is skipped')
  report.expect_instances(rule, n, 1, 'validator iterations in with_args')


def snapshot_per_invocation(report, repo, rule):
  report.rule(rule, 'T-LOOP: the "was a record written by this invocation" '
              'test of execute_phase compares against a record count taken '
              'inside the repeat loop (once per invocation)')
  f = repo.func(PE, 'PhaseExecutor.execute_phase')
  loops = [n for n in walk_no_nested(f.node) if isinstance(n, ast.While)]
  report.expect_instances(rule, len(loops), 1, 'repeat loops')
  lp = loops[0]
  cmps = [c for c in walk_no_nested(lp) if isinstance(c, ast.Compare) and
          len(c.ops) == 1 and isinstance(c.ops[0], (ast.Gt, ast.NotEq)) and
          call_name(c.left) == 'len' and isinstance(c.comparators[0], ast.Name)]
  report.expect_instances(rule, len(cmps), 1, 'record-count comparisons')
  for c in cmps:
    base = c.comparators[0].id
    defs = [n for n in walk_no_nested(f.node) if isinstance(n, ast.Assign) and
            any(core.is_name(t, base) for t in n.targets)]
    ok = bool(defs) and all(core.in_block(d, lp, 'body') for d in defs) and all(
        call_name(d.value) == 'len' for d in defs)
    report.check(ok, rule, f.qualname, 'count-taken-in-loop', c,
                 'the prior record count is taken before every invocation',
                 'the record count `%s` is taken outside the repeat loop: after '
                 'the first recorded invocation every later one counts as '
                 '"recorded" (a run_if-skipped repeat is judged against the '
                 'stale FAIL record and repeated again)' % base)


def state_before_any_exit(report, repo, rule):
  report.rule(rule, 'T-MUST: TestExecutor._thread_proc creates the TestState '
              'on every path (no early exit before it): finalize() always has '
              'a state to return, execute() always has a record')
  f = repo.func(TE, 'TestExecutor._thread_proc')
  g = lib.cfg(f)
  mk = [n for n in g.nodes if n.kind == 'stmt' and isinstance(
      n.ast, ast.Assign) and dotted(n.ast.targets[0]) == 'self.test_state' and
        isinstance(n.ast.value, ast.Call)]
  report.expect_instances(rule, len(mk), 1, 'TestState creations')
  seen = [g.entry] + g.reach([g.entry], avoid=lambda n: n is mk[0],
                             avoid_edge=lambda a, l, b: l == 'exc')
  report.check(not any(x is g.exit for x in seen), rule, f.qualname,
               'state-created-on-every-path', mk[0].ast,
               'no normal exit precedes the creation of the test state',
               '_thread_proc can return before the TestState exists (e.g. when '
               'an abort arrived early): finalize() raises TestStopError, no '
               'record is produced and no callback is called')


def immutable_copy_is_deep(report, repo, rule):
  report.rule(rule, 'T-OWN: ImmutableMeasurement.from_measurement copies the '
              'measured value recursively (attr_copy / deepcopy): the copy '
              'handed to the phase shares no cache list with the record')
  f = repo.func(ME, 'ImmutableMeasurement.from_measurement')
  shallow = [c for c in core.calls_in(f.node)
             if call_name(c) in ('attr.evolve', 'copy.copy')]
  deep = [c for c in core.calls_in(f.node)
          if last_attr(c) in ('attr_copy', 'deepcopy')]
  report.check(not shallow and bool(deep), rule, f.qualname, 'deep-copy',
               (shallow or deep or [f.node])[0],
               'the measured value is copied with attr_copy / deepcopy',
               'the measured value is copied shallowly (%s): the copy shares '
               '_cached_basetype_values with the recorded measurement, a store '
               'through the copy adds a row to the record\'s rendering' %
               [norm(c.func) for c in shallow])


def cache_conversions_json_safe(report, repo, rule):
  report.rule(rule, 'T-ARGS: every rendering cached in measurements.py is made '
              'with the JSON-safe conversion (no json_safe=False): the cached '
              'record view is what the JSON output serialises')
  n = 0
  for fi in repo.module(ME).all_funcs():
    for c in core.calls_in(fi.node, attr='convert_to_base_types'):
      n += 1
      js = core.get_kw(c, 'json_safe')
      bad = isinstance(js, ast.Constant) and js.value is False
      report.check(not bad, rule, fi.qualname, 'json-safe:' + norm(c)[:40], c,
                   'conversion keeps json_safe', 'a cached rendering is built '
                   'with json_safe=False: NaN / Infinity stay raw floats in the '
                   'record view and the default JSON output raises mid-stream')
  report.expect_instances(rule, n, 3, 'cached conversions')


def no_identity_deepcopy(report, repo, rule, modules):
  report.rule(rule, 'T-OWN: no __deepcopy__ / __copy__ in the descriptor '
              'modules returns the object itself')
  n = 0
  for rel in modules:
    for fi in repo.module(rel).all_funcs():
      if fi.node.name not in ('__deepcopy__', '__copy__'):
        continue
      n += 1
      g = lib.cfg(fi)
      for rn in [x for x in g.nodes if isinstance(x.ast, ast.Return)]:
        vals = lib.value_exprs(g, rn, rn.ast.value) if rn.ast.value is not \
            None else []
        bad = any(core.is_name(v, 'self') for v in vals)
        report.check(not bad, rule, fi.qualname, 'copy-is-not-self', rn.ast,
                     '%s returns a new object' % fi.qualname,
                     '%s returns self: per-run deep copies share this object '
                     'with the declared test' % fi.qualname)
  report.info(rule, None, '%d copy hooks inspected' % n)


def joins_are_bounded(report, repo, rule):
  report.rule(rule, 'T-ARGS: outside join_or_die no method of the killable '
              'thread classes waits for the thread without a timeout')
  for rel, clsname in ((TH, 'KillableThread'), (PE, 'PhaseExecutorThread')):
    for fi in repo.methods(rel, clsname):
      for c in core.calls_in(fi.node, name='self.join'):
        ok = bool(c.args or c.keywords)
        report.check(ok, rule, fi.qualname, 'bounded-join', c,
                     'join carries a timeout', '%s waits for the thread with '
                     'an unbounded join(): with a body that never returns the '
                     'executor never proceeds past the timeout' % fi.qualname)


def defaults_are_constants(report, repo, rule, rel):
  report.rule(rule, 'T-ARGS: no parameter default in %s is computed by a call '
              '(a default is evaluated once at import: a timeout object made '
              'there is shared and expires for ever)' % rel)
  for fi in repo.module(rel).all_funcs():
    a = fi.node.args
    for d in list(a.defaults) + [x for x in a.kw_defaults if x is not None]:
      bad = any(isinstance(x, ast.Call) for x in ast.walk(d))
      report.check(not bad, rule, fi.qualname, 'default:' + norm(d)[:40], d,
                   'default is not a call', '%s has the default `%s` computed '
                   'at import time and shared by all calls' % (fi.qualname,
                                                              norm(d)[:60]))


def progress_shield_in_loop(report, repo, rule):
  report.rule(rule, 'T-SHIELD: the try/except around the progress callback is '
              'inside the generator\'s loop (a raising callback does not end '
              'the generator)')
  f = repo.func(FP, 'FastbootProtocol._handle_progress')
  loops = [n for n in walk_no_nested(f.node) if isinstance(n, (ast.While,
                                                             ast.For))]
  tries = [n for n in walk_no_nested(f.node) if isinstance(n, ast.Try)]
  ok = bool(loops) and bool(tries) and all(
      any(core.in_block(t, lp, 'body') for lp in loops) for t in tries)
  report.check(ok, rule, f.qualname, 'shield-inside-loop', f.node,
               'the callback is shielded once per iteration',
               'the try/except is outside the loop: a raising progress '
               'callback ends the generator, the next send() raises '
               'StopIteration and the download aborts mid-transfer')


def snapshot_is_pure(report, repo, rule):
  report.rule(rule, 'T-OWN: the state snapshot functions (_asdict of the '
              'subscribable objects) assign no attribute of self: a cached '
              'snapshot would be served stale after a notification')
  import itertools  # pylint: disable=g-import-not-at-top
  n = 0
  for rel, q in ((TS, 'TestState._asdict'),
                 ('openhtf/plugs/user_input.py', 'UserInput._asdict')):
    if not repo.has_func(rel, q):
      continue
    f = repo.func(rel, q)
    n += 1
    ws = [t for st in walk_no_nested(f.node) if isinstance(
        st, (ast.Assign, ast.AugAssign)) for t in core.assigned_targets(st)
          if (dotted(t) or '').startswith('self.')]
    report.check(not ws, rule, f.qualname, 'no-self-write', f.node,
                 '%s does not write to self' % q,
                 '%s stores %s: a snapshot cached on the object can be served '
                 'after the notification that invalidated it' % (
                     q, [norm(w) for w in ws][:2]))
  report.expect_instances(rule, n, 1, 'snapshot functions')
  del itertools


def handler_always_installed(report, repo, rule):
  report.rule(rule, 'T-MUST: initialize_record_handler attaches a handler for '
              'the new run on every normal path')
  f = repo.func(LG, 'initialize_record_handler')
  g = lib.cfg(f)
  adds = [n for n, c in lib.nodes_with_call(g, attr='addHandler')]
  report.expect_instances(rule, len(adds), 1, 'addHandler calls')
  seen = [g.entry] + g.reach([g.entry], avoid=lambda n: any(n is a
                                                            for a in adds),
                             avoid_edge=lambda a, l, b: l == 'exc')
  report.check(not any(x is g.exit for x in seen), rule, f.qualname,
               'handler-on-every-path', adds[0].ast,
               'no path returns without attaching the run\'s handler',
               'initialize_record_handler can return without attaching a '
               'handler for this run (e.g. when one with an equal uid exists): '
               'the run records none of its own log messages')


def stop_wait_is_constant(report, repo, rule):
  report.rule(rule, 'T-ARGS: the poll interval of PhaseExecutor.stop()\'s wait '
              'loop is a positive constant (it does not depend on the optional '
              'cancel timeout, which may be None)')
  f = repo.func(PE, 'PhaseExecutor.stop')
  m = repo.module(PE)
  for c in core.calls_in(f.node, name='time.sleep'):
    a = c.args[0] if c.args else None
    if isinstance(a, ast.Name) and a.id in m.constants:
      a = m.constants[a.id]
    ok = isinstance(a, ast.Constant) and isinstance(
        a.value, (int, float)) and a.value > 0
    report.check(ok, rule, f.qualname, 'constant-poll', c,
                 'constant positive poll interval',
                 'the poll interval is computed (%s): with cancel_timeout_s '
                 'unset the computation fails after the kill and before '
                 'reset_stop(), the stop flag stays set and teardown phases '
                 'are skipped' % (norm(c.args[0]) if c.args else 'none'))


def read_until_close_drains(report, repo, rule):
  report.rule(rule, 'T-LOOP: AdbStream.read_until_close ends only through the '
              'closed-stream error of read(): it does not test the closed '
              'state itself (buffered, already acknowledged data would be '
              'dropped)')
  if not repo.has_func(AP, 'AdbStream.read_until_close'):
    report.violation(rule, 'AdbStream', 'read_until_close-missing', AP,
                     'AdbStream.read_until_close is gone')
    return
  f = repo.func(AP, 'AdbStream.read_until_close')
  loops = [n for n in walk_no_nested(f.node) if isinstance(n, ast.While)]
  report.expect_instances(rule, len(loops), 1, 'read loops')
  for lp in loops:
    closed_tests = [x for x in ast.walk(lp.test) if isinstance(x, ast.Call) and
                    last_attr(x) in ('is_closed', 'is_open')]
    report.check(not closed_tests, rule, f.qualname, 'loop-not-gated-on-closed',
                 lp, 'the loop is not gated on the closed state',
                 'the read loop stops as soon as the stream is marked closed '
                 '(%s): data buffered before the CLSE is never delivered' %
                 norm(lp.test))


def errors_do_not_reformat(report, repo, rule):
  UE = 'openhtf/plugs/usb/usb_exceptions.py'
  report.rule(rule, 'T-ARGS: the USB error classes do not %-format the message '
              'they are given (the raise sites pass finished text that may '
              'contain device bytes such as "%")')
  n = 0
  for fi in repo.module(UE).all_funcs():
    if fi.node.name != '__init__':
      continue
    n += 1
    params = set(lib.param_names(fi.node)[1:])
    bad = [x for x in ast.walk(fi.node) if (
        isinstance(x, ast.BinOp) and isinstance(x.op, ast.Mod) and isinstance(
            x.left, ast.Name) and x.left.id in params) or (
                isinstance(x, ast.AugAssign) and isinstance(x.op, ast.Mod) and
                isinstance(x.target, ast.Name) and x.target.id in params) or (
                    isinstance(x, ast.Call) and last_attr(x) == 'format' and
                    isinstance(x.func.value, ast.Name) and
                    x.func.value.id in params)]
    report.check(not bad, rule, fi.qualname, 'no-reformat', fi.node,
                 '%s passes its message on unformatted' % fi.qualname,
                 '%s formats the message again (%s): device text containing '
                 '"%%" turns a protocol error into a ValueError/TypeError' % (
                     fi.qualname, norm(bad[0])[:50] if bad else ''))
  report.info(rule, None, '%d error constructors inspected' % n)
