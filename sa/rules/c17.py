"""C17 - atomic file output."""

import ast

from sa import core, lib
from sa.core import call_name, dotted, last_attr, norm, walk_no_nested
from sa.lib import ends_with

DECIDES = (
    'publish sinks (os.rename / os.replace / shutil.move onto the '
    'destination) and the functions that reach them are enumerated; in the '
    'two context managers (OutputToFile.open_output_file, atomic_write) no '
    'publish is reachable from the exceptional continuation of the yield '
    '(i.e. when the with-body failed, for any exception type), except behind '
    'a success flag that is only set on the normal continuation; the publish '
    'is dominated by closing the staging file (and by flush + fsync when '
    'requested); all writes happen inside the with-body; the temp file is '
    'removed on failure; the file name is the pattern formatted with the '
    'record\'s base-type view.')
DOES_NOT_DECIDE = (
    'atomicity of rename / shutil.move themselves and behaviour under process '
    'kill between file-system operations (OS semantics; same-file-system '
    'staging is assumed).')

CB = 'openhtf/output/callbacks/__init__.py'
AW = 'openhtf/util/atomic_write.py'
SINKS = ('os.rename', 'os.replace', 'shutil.move')


def _publishers(repo):
  """Qualified functions in the two modules that (transitively) reach a sink:
  {qualname: chain}."""
  pubs = {}
  for rel in (CB, AW):
    for f in repo.module(rel).all_funcs():
      for c in core.calls_in(f.node):
        if call_name(c) in SINKS:
          pubs[(rel, f.qualname)] = [call_name(c)]
  changed = True
  while changed:
    changed = False
    for rel in (CB, AW):
      for f in repo.module(rel).all_funcs():
        if (rel, f.qualname) in pubs:
          continue
        for c in core.calls_in(f.node):
          cn = call_name(c) or ''
          if cn.startswith('self.') and f.cls is not None:
            key = (rel, '%s.%s' % (f.cls.name, cn[5:]))
            if key in pubs:
              pubs[(rel, f.qualname)] = [cn] + pubs[key]
              changed = True
  return pubs


def _atomic_typed_names(repo, f):
  """Locals of f bound to an object whose close() publishes (Atomic)."""
  names = set()
  for n in walk_no_nested(f.node):
    if isinstance(n, ast.Assign) and isinstance(n.value, ast.Call) and \
        isinstance(n.targets[0], ast.Name):
      cn = call_name(n.value) or ''
      if last_attr(n.value) == 'Atomic':
        names.add(n.targets[0].id)
      elif cn.startswith('self.') and f.cls is not None:
        q = '%s.%s' % (f.cls.name, cn[5:])
        if repo.has_func(f.path, q):
          callee = repo.func(f.path, q)
          if any(isinstance(r, ast.Return) and isinstance(r.value, ast.Call) and
                 last_attr(r.value) == 'Atomic'
                 for r in walk_no_nested(callee.node)):
            names.add(n.targets[0].id)
  return names


def _dead_for_atomic(repo, f, g, node, recv):
  """The node is only reachable when `getattr(recv, '<m>', None)` is None
  although class Atomic defines <m>: infeasible for an Atomic receiver."""
  atomic = repo.cls(CB, 'Atomic')
  meths = set(s.name for s in atomic.body if isinstance(s, ast.FunctionDef))

  def edge(a, l, b):
    if a.kind != 'test' or not isinstance(a.ast, ast.Compare) or \
        len(a.ast.ops) != 1 or not isinstance(a.ast.left, ast.Name):
      return False
    c = a.ast.comparators[0]
    if not (isinstance(c, ast.Constant) and c.value is None):
      return False
    defs = lib.resolve_local(f, a.ast.left.id)
    if len(defs) != 1 or call_name(defs[0]) != 'getattr' or \
        len(defs[0].args) != 3 or dotted(defs[0].args[0]) != recv or \
        core.const_str(defs[0].args[1]) not in meths:
      return False
    none_label = 'T' if isinstance(a.ast.ops[0], ast.Is) else 'F'
    return l == none_label

  return g.dominated_by_edge(node, edge)


def _publish_nodes(repo, f, g, pubs):
  out = []
  atomics = _atomic_typed_names(repo, f)
  for n in g.nodes:
    for sub in n.subnodes():
      if not isinstance(sub, ast.Call):
        continue
      cn = call_name(sub) or ''
      if cn in SINKS:
        out.append((n, sub, cn))
      elif isinstance(sub.func, ast.Attribute) and isinstance(
          sub.func.value, ast.Name) and sub.func.value.id in atomics and \
          (CB, 'Atomic.' + sub.func.attr) in pubs:
        if _dead_for_atomic(repo, f, g, n, sub.func.value.id):
          continue  # branch taken only by objects that are not Atomic
        out.append((n, sub, 'Atomic.%s -> %s' % (
            sub.func.attr, ' -> '.join(pubs[(CB, 'Atomic.' + sub.func.attr)]))))
  return out


def _success_flags(g, exc_starts):
  """Names whose every `= True` assignment is unreachable from the failed
  continuation of the yield."""
  reach = set(id(n) for n in g.reach(exc_starts)) | set(id(n)
                                                       for n in exc_starts)
  cands = {}
  for n in g.nodes:
    if n.kind == 'stmt' and isinstance(n.ast, ast.Assign) and isinstance(
        n.ast.targets[0], ast.Name) and isinstance(n.ast.value, ast.Constant) \
        and n.ast.value.value is True:
      cands.setdefault(n.ast.targets[0].id, []).append(n)
  return set(k for k, ns in cands.items() if all(id(x) not in reach
                                                 for x in ns))


def r1_publish_on_success_only(report, repo):
  rule = 'C17-R1'
  report.rule(rule, 'effect/T-DOM: in the file-output context managers the '
              'publish (rename/move onto the destination, directly or through '
              'Atomic.close) is not reachable from the exceptional '
              'continuation of the yield unless guarded by a success flag set '
              'only on the normal continuation; no publisher is called from '
              '__exit__/__del__')
  pubs = _publishers(repo)
  report.expect_instances(rule, len(pubs), 2, 'functions reaching a publish sink')
  for (rel, q), chain in sorted(pubs.items()):
    report.info(rule, '%s::%s' % (rel, q), 'may publish via %s' %
                ' -> '.join(chain))
  n_cm = 0
  for rel, q in ((CB, 'OutputToFile.open_output_file'), (AW, 'atomic_write')):
    f = repo.func(rel, q)
    g = lib.cfg(f)
    ys = [n for n in g.nodes if any(isinstance(s, ast.Yield)
                                    for s in n.subnodes())]
    pn = _publish_nodes(repo, f, g, pubs)
    if not pn:
      report.violation(rule, f.qualname, 'no-publish', f.node,
                       '%s never publishes the staged file' % f.qualname)
      continue
    for y in ys:
      excs = [t for l, t in y.succs if l == 'exc']
      if not excs:
        continue
      n_cm += 1
      flags = _success_flags(g, excs)

      def flag_edge(a, l, b, _flags=flags):
        return a.kind == 'test' and l == 'T' and isinstance(
            a.ast, ast.Name) and a.ast.id in _flags

      failed = list(excs) + g.reach(excs, avoid_edge=flag_edge)
      bad = [(n, c, how) for n, c, how in pn if any(n is x for x in failed)]
      # the yield belongs to the branch that opens the staged file?
      report.check(
          not bad, rule, f.qualname, 'publish-after-failure', y.ast,
          '%s: when the with-body raises (any exception type) no publish is '
          'reachable' % f.qualname,
          '%s: a publish (%s at line %s) is reachable when the with-body '
          'raised%s: a truncated / partially written file replaces the '
          'destination' % (
              f.qualname, bad[0][2] if bad else '', bad[0][0].lineno if bad
              else '', ' (e.g. a BaseException that the handler does not '
              'catch, then `finally`)' if bad else ''))
    # the publish is reachable on the normal continuation
    for y in ys:
      nx = [t for l, t in y.succs if l == 'next']
      okn = any(any(n is x for x in nx + g.reach(
          nx, avoid_edge=lambda a, l, b: l == 'exc')) for n, _, _ in pn)
      if [t for l, t in y.succs if l == 'exc'] and any(
          any(n is x for x in g.reach([y])) for n, _, _ in pn):
        report.check(okn, rule, f.qualname, 'publish-on-success', y.ast,
                     '%s publishes when the with-body completed' % f.qualname)
  report.expect_instances(rule, n_cm, 2, 'context-manager yields')
  for rel in (CB, AW):
    for f in repo.module(rel).all_funcs():
      if f.name in ('__exit__', '__del__'):
        g = lib.cfg(f)
        pn = _publish_nodes(repo, f, g, pubs) + [
            (n, c, 'self.' + last_attr(c)) for n, c in lib.nodes_with_call(g)
            if (call_name(c) or '').startswith('self.') and f.cls is not None and
            (rel, '%s.%s' % (f.cls.name, (call_name(c) or '')[5:])) in pubs]
        report.check(not pn, rule, f.qualname, 'publisher-in-exit', f.node,
                     '%s does not publish' % f.qualname,
                     '%s publishes unconditionally (runs on failure too)' %
                     f.qualname)


def r2_order(report, repo):
  rule = 'C17-R2'
  report.rule(rule, 'T-ORDER: writes happen inside the with-body; Atomic.close '
              'closes the temp file before the move; atomic_write renames only '
              'after the staging file was closed normally (flush + fsync first '
              'when requested) and removes the temp file in finally')
  f = repo.func(CB, 'OutputToFile.__call__')
  withs = [n for n in walk_no_nested(f.node) if isinstance(n, ast.With) and
           any(last_attr(i.context_expr) == 'open_output_file'
               for i in n.items)]
  report.expect_instances(rule, len(withs), 1, 'output with-blocks')
  w = withs[0]
  var = dotted(w.items[0].optional_vars)
  writes = [c for c in core.calls_in(f.node) if last_attr(c) == 'write' and
            dotted(c.func.value) == var]
  report.check(bool(writes) and all(core.in_block(c, w, 'body') for c in writes),
               rule, f.qualname, 'writes-in-body', w,
               'every write to the output file is inside the with-body '
               '(before the context manager publishes)')
  sers = core.calls_in(f.node, attr='serialize_test_record')
  report.check(len(sers) == 1 and core.in_block(sers[0], w, 'body'), rule,
               f.qualname, 'serialize-in-body', w,
               'serialisation runs inside the with-body: its failure reaches '
               'the context manager as an exception')
  a = repo.func(CB, 'Atomic.close')
  g = lib.cfg(a)
  mv = [n for n, c in lib.nodes_with_call(g) if call_name(c) in SINKS]
  cl = [n for n, c in lib.nodes_with_call(g, name='self.temp.close')]
  ok = len(mv) == 1 and len(cl) >= 1 and g.dominated_by(
      mv[0], lambda n: any(n is x for x in cl))
  report.check(ok, rule, a.qualname, 'close-before-move', a.node,
               'the temp file is closed (flushed) before it is moved onto the '
               'destination',
               'Atomic.close moves the temp file before closing it: buffered '
               'data can be missing from the published file')
  if mv:
    c = [c for n, c in lib.nodes_with_call(g) if call_name(c) in SINKS][0]
    report.check([dotted(x) for x in c.args[:2]] == ['self.temp.name',
                                                     'self.filename'], rule,
                 a.qualname, 'move-args', c, 'move(temp, destination)')
  d = repo.func(CB, 'Atomic.discard') if repo.has_func(CB, 'Atomic.discard') \
      else None
  if d is not None:
    report.check(not any(call_name(c) in SINKS for c in core.calls_in(d.node)),
                 rule, d.qualname, 'discard-does-not-publish', d.node,
                 'discard() never touches the destination')
  f = repo.func(AW, 'atomic_write')
  g = lib.cfg(f)
  rn = [n for n, c in lib.nodes_with_call(g) if call_name(c) in SINKS]
  report.expect_instances(rule, len(rn), 1, 'renames in atomic_write')
  stage = [n for n in walk_no_nested(f.node) if isinstance(n, ast.With) and any(
      call_name(i.context_expr) in ('open', 'tempfile.NamedTemporaryFile',
                                    'io.open') for i in n.items)]
  closed = [n for n in g.nodes if n.kind == 'with_exit' and
            any(n.ast is st for st in stage) and n.tag == 'normal']
  closed += [n for n, c in lib.nodes_with_call(g, attr='close')]
  ok = bool(closed) and all(g.dominated_by(
      r, lambda n: any(n is x for x in closed)) for r in rn)
  if not stage:
    stage = [f.node]
  report.check(ok, rule, f.qualname, 'rename-after-close', rn[0].ast,
               'the rename is dominated by the normal exit of the staging '
               'file\'s with-block (file closed and flushed without error)',
               'the rename is reachable without the staging file having been '
               'closed normally (e.g. rename in `finally` behind a flag set '
               'before flush/close): a failing flush/fsync/close still '
               'publishes the partially flushed file')
  fs = lib.nodes_with_call(g, name='os.fsync')
  fl = [n for n, c in lib.nodes_with_call(g, attr='flush')]
  ys = [n for n in g.nodes if any(isinstance(s, ast.Yield)
                                  for s in n.subnodes())]
  ok = len(fs) == 1 and len(fl) == 1 and len(ys) == 1 and \
      core.in_block(fs[0][1], stage[0], 'body') and g.dominated_by(
          fs[0][0], lambda n: n is fl[0]) and g.dominated_by(
              fl[0], lambda n: n is ys[0]) and g.dominated_by_edge(
                  fs[0][0], lambda s, l, d: s.kind == 'test' and l == 'T' and
                  dotted(s.ast) == 'filesync')
  report.check(ok, rule, f.qualname, 'flush-fsync', f.node,
               'with filesync: flush then fsync, after the body, before the '
               'file is closed and renamed')
  tries = [n for n in walk_no_nested(f.node) if isinstance(n, ast.Try) and
           n.finalbody]
  def fin_calls():
    """calls made by the finally block, one level of module helpers deep"""
    out = []
    for s in tries[0].finalbody:
      for c in core.calls_in(s):
        out.append(c)
        if isinstance(c.func, ast.Name) and repo.has_func(AW, c.func.id):
          out.extend(core.calls_in(repo.func(AW, c.func.id).node))
    return out
  ok = len(tries) >= 1 and any(
      call_name(c) == 'os.remove' for c in fin_calls()) and not any(
          call_name(c) in SINKS for c in fin_calls())
  report.check(ok, rule, f.qualname, 'cleanup', f.node,
               'the temp file is removed in the finally; the finally does not '
               'rename')
  r = [c for n, c in lib.nodes_with_call(g) if call_name(c) in SINKS][0]
  tmpn = lib.local_from(f, lib.calls(attr='NamedTemporaryFile'), 'tmpf')
  report.check([dotted(x) for x in r.args[:2]] == [tmpn + '.name',
                                                   lib.param_names(f.node)[0]],
               rule, f.qualname, 'rename-args', r, 'rename(temp, destination)')


def r2b_destination_untouched(report, repo):
  rule = 'C17-R2'
  n = 0
  for rel, q, dest in ((CB, 'Atomic.__init__', 'filename'),
                       (CB, 'Atomic.write', 'self.filename'),
                       (CB, 'Atomic.close', 'self.filename'),
                       (AW, 'atomic_write', 'filename')):
    f = repo.func(rel, q)
    for c in core.calls_in(f.node):
      uses = [a for a in list(c.args) + [k.value for k in c.keywords]
              if dotted(a) in (dest, 'self.filename')]
      if not uses:
        continue
      n += 1
      ok = call_name(c) in SINKS and len(c.args) >= 2 and \
          dotted(c.args[1]) in (dest, 'self.filename')
      report.check(
          ok, rule, f.qualname, c, c,
          '%s: the destination path is used only as the target of the '
          'publish' % f.qualname,
          '%s passes the destination path to %s: the destination is touched '
          '(opened / created / truncated) outside the atomic publish, so a '
          'failure can leave an empty or partial file there' %
          (f.qualname, norm(c.func)))
  report.expect_instances(rule, n, 2, 'uses of the destination path')


def r3_filename(report, repo):
  rule = 'C17-R3'
  report.rule(rule, 'T-AGREE: the file name is util.format_string(pattern, '
              'base-type view of the record); the opened file is created for '
              'that name')
  f = repo.func(CB, 'OutputToFile.create_file_name')
  fs = core.calls_in(f.node, attr='format_string')
  ok = len(fs) == 1 and len(fs[0].args) == 2 and \
      dotted(fs[0].args[0]) == 'self.filename_pattern'
  defs = lib.resolved(f, fs[0].args[1]) if ok else []
  ok = ok and len(defs) == 1 and last_attr(defs[0]) == 'convert_to_base_types' \
      and dotted(defs[0].args[0]) == lib.param_names(f.node)[1]
  if ok:
    ik = core.get_kw(defs[0], 'ignore_keys')
    if ik is not None:
      ign = [core.const_str(e) for e in ik.elts] if isinstance(
          ik, (ast.Tuple, ast.List)) else ['?']
      ok = set(ign) <= {'code_info', 'phases', 'log_records'}
  report.check(ok, rule, f.qualname, 'pattern-formatted', f.node,
               'name = format_string(pattern, convert_to_base_types(record)) '
               '(only bulky list fields ignored)')
  o = repo.func(CB, 'OutputToFile.open_output_file')
  cf = core.calls_in(o.node, name='self.create_file_name')
  of = core.calls_in(o.node, name='self.open_file')
  ok = len(cf) == 1 and len(of) == 1 and dotted(cf[0].args[0]) == \
      lib.param_names(o.node)[1]
  if ok:
    src = lib.resolved(o, of[0].args[0])
    ok = len(src) == 1 and src[0] is cf[0]
  report.check(ok, rule, o.qualname, 'opens-that-name', o.node,
               'the file opened is the one named by create_file_name(record)')
  at = repo.func(CB, 'Atomic.__init__')
  ok = any(isinstance(n, ast.Assign) and dotted(n.targets[0]) == 'self.filename'
           and dotted(n.value) == lib.param_names(at.node)[1]
           for n in walk_no_nested(at.node))
  report.check(ok, rule, at.qualname, 'destination', at.node,
               'Atomic remembers the destination it was created for')


def run(report, repo):
  report.guard(r1_publish_on_success_only, report, repo)
  report.guard(r2_order, report, repo)
  report.guard(r2b_destination_untouched, report, repo)
  report.guard(r3_filename, report, repo)
  report.assume('os.rename / shutil.move onto the same file system are atomic; '
                'process kill between file-system calls is not modelled')
