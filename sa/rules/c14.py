"""C14 - ADB streams."""

import ast
import re

from sa import cfg as cfgm
from sa import core, lib, locks
from sa.core import call_name, dotted, last_attr, norm, walk_no_nested
from sa.lib import ends_with

DECIDES = (
    'exactly one OKAY carrying (local id, remote id) per device WRTE at both '
    'handling sites and none on other paths (decision tables); chunk and '
    'remainder of a host write use the same maxdata bound and oversize sends '
    'are refused; flag, WRTE send and wait for the ack lie in one write-lock '
    'region, WRTE is sent only from there and the ack flag is cleared only by '
    'an expected OKAY; every lock / condition acquisition in the reader '
    'hand-off and in read_for_stream is released on all exits (held-lock '
    'dataflow incl. exceptional edges); condition-variable discipline: the '
    'reader election happens while holding the condition, wait() holds it '
    'continuously since the failed election, notify_all() holds it and only '
    'after the reader role was released; every blocking wait/get carries a '
    'timeout; read-buffer discipline (producers append at the back, the '
    'consumer returns unread bytes to the front, all under the buffer lock).')
DOES_NOT_DECIDE = (
    'in-order exactly-once delivery and absence of deadlock under all '
    'schedules (history/schedule quantifier): only these protocol shapes.')

AP = 'openhtf/plugs/usb/adb_protocol.py'
AM = 'openhtf/plugs/usb/adb_message.py'
ST = 'AdbStreamTransport'


def _okay_sends(p):
  """OKAY sends on a path: (call, (arg ids))."""
  out = []
  for c in p.calls():
    la = last_attr(c)
    if la == '_send_command' and c.args and core.const_str(c.args[0]) == 'OKAY':
      out.append((c, ('self.local_id', 'self.remote_id')))
    if la == 'AdbMessage':
      cmd = core.get_kw(c, 'command', 0)
      if core.const_str(cmd) == 'OKAY':
        out.append((c, tuple(dotted(a) for a in c.args[1:3])))
  return out


def r1_acks(report, repo):
  rule = 'C14-R1'
  report.rule(rule, 'T-DTABLE/T-SIB: one OKAY(local_id, remote_id) per device '
              'WRTE at both handling sites, guarded by a known remote id; no '
              'OKAY on other paths')
  f = repo.func(AP, 'AdbConnection._handle_message_for_stream')
  st, msg = lib.param_names(f.node)[1], lib.param_names(f.node)[2]

  # the local holding the destination stream of a foreign message
  dst = lib.local_from(f, lib.calls(name='self._stream_transport_map.get'),
                       'dest_transport')

  def classify(expr, steps):
    if isinstance(expr, ast.Compare) and len(expr.ops) == 1:
      l, r, op = expr.left, expr.comparators[0], expr.ops[0]
      if dotted(l) == msg + '.command':
        if isinstance(r, ast.Tuple):
          vals = sorted(core.const_str(e) or '?' for e in r.elts)
          if vals == ['CLSE', 'OKAY', 'WRTE']:
            return ('not', 'legal') if isinstance(op, ast.NotIn) else 'legal'
        c = core.const_str(r)
        if c in ('WRTE', 'CLSE', 'OKAY') and isinstance(op, (ast.Eq,
                                                             ast.NotEq)):
          k = 'is_' + c.lower()
          return k if isinstance(op, ast.Eq) else ('not', k)
      if {dotted(l), dotted(r)} == {msg + '.arg1', st + '.local_id'} and \
          isinstance(op, (ast.Eq, ast.NotEq)):
        return 'mine' if isinstance(op, ast.Eq) else ('not', 'mine')
    d = dotted(expr)
    if d == st + '.remote_id':
      return 'have_remote'
    if d == dst:
      return 'dest_known'
    return None

  atoms = ['legal', 'mine', 'is_wrte', 'is_clse', 'is_okay', 'have_remote',
           'dest_known']

  def consistent(v):
    kinds = [v['is_wrte'], v['is_clse'], v['is_okay']]
    if v['legal'] and sum(kinds) != 1:
      return False
    if not v['legal'] and any(kinds):
      return False
    return True

  def spec(v, p):
    oks = _okay_sends(p)
    if not v['legal']:
      if p.end == 'exit':
        return 'illegal-row: an illegal packet type is accepted'
      r = p.raised()
      if r is None or last_attr(r.exc) != 'AdbProtocolError':
        return 'illegal-row: must raise AdbProtocolError'
      return 'illegal-row: OKAY sent for an illegal packet' if oks else None
    if v['mine'] and v['is_wrte']:
      if not v['have_remote']:
        if p.end == 'exit' or oks:
          return 'wrte-row: WRTE before the stream has a remote id must raise'
        return None
      if p.end != 'exit':
        return 'wrte-row: a WRTE for the reading stream raises'
      if len(oks) != 1:
        return 'wrte-row: %d OKAYs sent for one WRTE' % len(oks)
      if oks[0][1] != (st + '.local_id', st + '.remote_id'):
        return 'wrte-row: OKAY does not carry (local id, remote id): %s' % (
            oks[0][1],)
      if dotted(p.last_return().value) != msg:
        return 'wrte-row: the message is not handed to the reading stream'
      return None
    if oks:
      return 'other-row: OKAY sent although no WRTE for this stream was read'
    if p.end != 'exit':
      return None
    if v['mine']:
      if dotted(p.last_return().value) != msg:
        return 'mine-row: message for the reading stream is not returned'
      closes = p.calls(name='self.close_stream_transport')
      if v['is_clse'] != (len(closes) == 1):
        return 'mine-row: CLSE must close the stream transport exactly once'
      return None
    enq = p.calls(attr='enqueue_message')
    if v['dest_known']:
      if len(enq) != 1 or dotted(enq[0].func.value) != dst:
        return 'other-stream-row: message not enqueued for its stream'
    elif enq:
      return 'unknown-row: message enqueued without a destination'
    r = p.last_return()
    if r is not None and r.value is not None and dotted(r.value) == msg:
      return 'other-stream-row: a message of another stream is returned'
    return None

  lib.decision_table(report, rule, f, atoms, classify, spec, consistent)

  e = repo.func(AP, ST + '.enqueue_message')
  emsg = lib.param_names(e.node)[1]

  def cl2(expr, steps):
    if isinstance(expr, ast.Compare) and dotted(expr.left) == emsg + '.command' \
        and isinstance(expr.ops[0], ast.Eq):
      c = core.const_str(expr.comparators[0])
      if c in ('WRTE', 'OKAY', 'CLSE'):
        return 'is_' + c.lower()
    return None

  def sp2(v, p):
    if p.end != 'exit':
      return None
    oks = _okay_sends(p)
    if v['is_wrte'] and len(oks) != 1:
      return 'wrte-row: %d OKAYs for an enqueued WRTE' % len(oks)
    if not v['is_wrte'] and oks:
      return 'other-row: OKAY sent for a non-WRTE message'
    # the remote id is set from / compared with the message's arg0 (a helper
    # doing this is inlined by the loader)
    sets = [n for n, _ in p.steps if (n.kind == 'stmt' and isinstance(
        n.ast, ast.Assign) and dotted(n.ast.targets[0]) == 'self.remote_id' and
                                    dotted(n.ast.value) == emsg + '.arg0') or (
                                        n.kind == 'test' and isinstance(
                                            n.ast, ast.Compare) and
                                        {dotted(n.ast.left), dotted(
                                            n.ast.comparators[0])} ==
                                        {'self.remote_id', emsg + '.arg0'})]
    if v['is_okay']:
      if len(sets) != 1:
        return ('okay-row: an OKAY dispatched by another stream\'s reader '
                'must set / check the remote id (else the first WRTE that '
                'follows cannot be acknowledged)')
    elif sets:
      return 'other-row: remote id touched for a non-OKAY message'
    puts = p.calls(name='self.message_queue.put')
    if len(puts) != 1 or dotted(puts[0].args[0]) != emsg:
      return 'queue-row: the message must be queued exactly once'
    return None

  lib.decision_table(report, rule, e, ['is_wrte', 'is_okay'], cl2, sp2,
                     lambda v: not (v['is_wrte'] and v['is_okay']))
  sc = repo.func(AP, ST + '._send_command')
  g = lib.cfg(sc)
  ws = lib.nodes_with_call(g, attr='write_message')
  report.expect_instances(rule, len(ws), 1, 'sends in _send_command')
  n, c = ws[0]
  am = [x for x in ast.walk(c) if isinstance(x, ast.Call) and
        last_attr(x) == 'AdbMessage']
  ok = len(am) == 1 and [dotted(a) for a in am[0].args[:4]] == [
      'command', 'self.local_id', 'self.remote_id', 'data']
  report.check(ok, rule, sc.qualname, 'ids', c,
               '_send_command builds AdbMessage(command, local_id, remote_id, '
               'data)')
  ok = g.dominated_by_edge(n, lambda s, l, d: s.kind == 'test' and l == 'T' and
                           dotted(s.ast) == 'self.remote_id')
  report.check(ok, rule, sc.qualname, 'known-remote-id', c,
               'nothing is sent before the remote id is known')
  return g, n


def r2_chunks(report, repo, sc_cfg, send_node):
  rule = 'C14-R2'
  report.rule(rule, 'T-AGREE: AdbStream.write: chunk sent and remainder kept '
              'use the same maxdata bound, loop ends when data is empty; '
              '_send_command refuses len(data) > maxdata')
  f = repo.func(AP, 'AdbStream.write')
  loops = [n for n in walk_no_nested(f.node) if isinstance(n, ast.While)]
  report.expect_instances(rule, len(loops), 1, 'chunk loops')
  lp = loops[0]
  report.check(core.is_name(lp.test, 'data'), rule, f.qualname, 'loop-cond', lp,
               'loop runs while data is non-empty')
  sl = [n for n in walk_no_nested(lp) if isinstance(n, ast.Subscript) and
        core.is_name(n.value, 'data') and isinstance(n.slice, ast.Slice)]
  sent = [s for s in sl if s.slice.lower is None and s.slice.upper is not None]
  kept = [s for s in sl if s.slice.upper is None and s.slice.lower is not None]
  ok = len(sent) == 1 and len(kept) == 1 and norm(sent[0].slice.upper) == norm(
      kept[0].slice.lower) and norm(sent[0].slice.upper).endswith('maxdata')
  report.check(ok, rule, f.qualname, 'same-bound', lp,
               'data[:B] is sent and data[B:] kept with the same B = maxdata',
               'the chunk sent and the remainder kept use different bounds '
               '(%s vs %s): bytes are lost or duplicated' %
               (norm(sent[0].slice.upper) if sent else '?',
                norm(kept[0].slice.lower) if kept else '?'))
  if kept:
    st = core.enclosing_stmt(kept[0])
    report.check(isinstance(st, ast.Assign) and core.is_name(st.targets[0],
                                                             'data'), rule,
                 f.qualname, 'remainder-assigned', st,
                 'the remainder replaces data')
    w = core.calls_in(lp, name='self._transport.write')
    ok = len(w) == 1 and len(sent) == 1
    if ok:
      # what is written is the head slice, taken before data is advanced
      # (written at once, or kept in a local first)
      wargs = lib.resolved(f, w[0].args[0])
      cut = core.enclosing_stmt(sent[0])
      ok = any(x is sent[0] for x in wargs) and \
          lib.stmt_index(lp.body, cut) < lib.stmt_index(lp.body, st) or (
              cut is st and False)
      ok = ok or (any(x is sent[0] for x in wargs) and cut is not st and
                  lib.stmt_index(lp.body, cut) <= lib.stmt_index(lp.body, st))
    report.check(ok, rule, f.qualname, 'send-then-advance', lp,
                 'each chunk is written before data is advanced')

  def big(s, l, d):
    if s.kind != 'test' or not isinstance(s.ast, ast.Compare):
      return False
    t = norm(s.ast)
    return l == 'F' and 'len(data)' in t and 'maxdata' in t and isinstance(
        s.ast.ops[0], ast.Gt)

  report.check(sc_cfg.dominated_by_edge(send_node, big), rule,
               ST + '._send_command', 'bounded', send_node.ast,
               'a payload larger than maxdata is refused before sending')


def r3_one_in_flight(report, repo):
  rule = 'C14-R3'
  report.rule(rule, 'T-REGION/T-WHO: write(): _expecting_okay = True, the WRTE '
              'send and the wait for the ack in one `with _write_lock`; WRTE '
              'sent only there; _expecting_okay cleared only on an expected '
              'OKAY')
  f = repo.func(AP, ST + '.write')
  sets = [n for n in walk_no_nested(f.node) if isinstance(n, ast.Assign) and
          dotted(n.targets[0]) == 'self._expecting_okay']
  sends = [c for c in core.calls_in(f.node, name='self._send_command')
           if c.args and core.const_str(c.args[0]) == 'WRTE']
  waits = core.calls_in(f.node, name='self._read_messages_until_true')
  ok = len(sets) == 1 and len(sends) == 1 and len(waits) == 1
  region = None
  if ok:
    for x in (sets[0], sends[0], waits[0]):
      ws = [w for w in core.enclosing_withs(x)
            if 'self._write_lock' in core.with_item_names(w)]
      if not ws:
        ok = False
      elif region is None:
        region = ws[0]
      elif ws[0] is not region:
        ok = False
  if ok:
    b = region.body
    ok = lib.stmt_index(b, sets[0]) < lib.stmt_index(b, sends[0]) < \
        lib.stmt_index(b, waits[0]) and isinstance(
            sets[0].value, ast.Constant) and sets[0].value.value is True
  report.check(ok, rule, f.qualname, 'one-region', f.node,
               'flag := True, WRTE send, wait-for-OKAY inside one write-lock '
               'region, in this order',
               'the WRTE send and the wait for its OKAY are not one write-lock '
               'region: two WRTEs of one stream can be in flight and their '
               'acks cannot be told apart')
  if waits:
    lam = waits[0].args[0]
    ok = isinstance(lam, ast.Lambda) and isinstance(lam.body, ast.UnaryOp) and \
        dotted(lam.body.operand) == 'self._expecting_okay'
    report.check(ok, rule, f.qualname, 'waits-for-ack', waits[0],
                 'the wait ends when _expecting_okay was cleared')
  n = 0
  for rel in (AP, AM, 'openhtf/plugs/usb/shell_service.py',
              'openhtf/plugs/usb/filesync_service.py',
              'openhtf/plugs/usb/adb_device.py'):
    if rel not in repo.modules:
      continue
    for c in core.calls_in(repo.module(rel).tree):
      pass
    for m_, c in [(repo.module(rel), c) for c in ast.walk(repo.module(rel).tree)
                  if isinstance(c, ast.Call)]:
      cmd = None
      if last_attr(c) == '_send_command' and c.args:
        cmd = core.const_str(c.args[0])
      elif last_attr(c) == 'AdbMessage':
        cmd = core.const_str(core.get_kw(c, 'command', 0))
      if cmd == 'WRTE':
        n += 1
        owner = core.owner_qualname(c)
        report.check(rel == AP and owner == ST + '.write', rule, owner, c, c,
                     'WRTE sent from %s' % owner,
                     'a WRTE is sent from %s, outside the one-in-flight '
                     'region' % owner)
  report.expect_instances(rule, n, 1, 'WRTE send sites')
  for m_, node, kind, tgt in core.attr_write_sites(repo, '_expecting_okay',
                                                   modules=[AP]):
    owner = core.owner_qualname(node)
    v = getattr(node, 'value', None)
    if isinstance(v, ast.Constant) and v.value is False:
      hm = repo.func(AP, ST + '._handle_message')
      g = lib.cfg(hm)
      ok = owner == ST + '._handle_message' and all(
          g.dominated_by_edge(x, lambda s, l, d: s.kind == 'test' and l == 'T'
                              and isinstance(s.ast, ast.Compare) and
                              core.const_str(s.ast.comparators[0]) == 'OKAY')
          and g.dominated_by_edge(
              x, lambda s, l, d: s.kind == 'test' and l == 'T' and
              dotted(s.ast) == 'self._expecting_okay')
          for x in g.nodes_of(node))
      report.check(ok, rule, owner, node, node,
                   'the ack flag is cleared only by an OKAY that was expected',
                   'the ack flag is cleared at %s without an expected OKAY' %
                   owner)


def r4_r5_locks(report, repo):
  rule4, rule5 = 'C14-R4', 'C14-R5'
  report.rule(rule4, 'T-PAIR: in _read_messages_until_true and read_for_stream '
              'every acquisition of _message_received / _reader_lock is '
              'released on all exits incl. exceptional ones (held-lock '
              'dataflow)')
  report.rule(rule5, 'condition discipline: election of the reader while '
              'holding the condition; wait() holds it continuously since the '
              'failed election; notify_all() holds it and runs only after the '
              'reader role was released')
  f = repo.func(AP, ST + '._read_messages_until_true')
  g = lib.cfg(f)
  names = ['self._message_received', 'self._reader_lock']
  must, may = locks.held_dataflow(g, names)
  for ex, what in ((g.exit, 'normal exit'), (g.raise_exit, 'exceptional exit')):
    if ex.id not in may:
      continue
    left = sorted(may[ex.id])
    report.check(not left, rule4, f.qualname, 'held-at-%s' % what.split()[0],
                 f.node, '%s: nothing is held at the %s' % (f.qualname, what),
                 '%s can leave by its %s still holding %s: every later reader '
                 'or waiter of this stream blocks' % (f.qualname, what, left))
  rf = repo.func(AP, 'AdbConnection.read_for_stream')
  g2 = lib.cfg(rf)
  must2, may2 = locks.held_dataflow(g2, ['self._reader_lock'])
  for ex, what in ((g2.exit, 'normal exit'), (g2.raise_exit,
                                              'exceptional exit')):
    left = sorted(may2.get(ex.id, ()))
    report.check(not left, rule4, rf.qualname, 'held-at-%s' % what.split()[0],
                 rf.node, '%s: the connection reader lock is released on the %s'
                 % (rf.qualname, what),
                 '%s can leave by its %s holding %s: no thread can read the '
                 'connection any more' % (rf.qualname, what, left))
  acq = [n for n in g2.nodes if n.kind == 'test' and
         call_name(n.ast) == 'self._reader_lock.acquire']
  report.check(bool(acq) and all(
      c.args and isinstance(c.args[0], ast.Constant) and c.args[0].value is False
      for c in [n.ast for n in acq]), rule4, rf.qualname, 'non-blocking', rf.node,
               'the connection reader lock is only try-acquired')

  # --- condition discipline
  COND, RL = names
  elect = [n for n in g.nodes if n.kind == 'test' and
           call_name(n.ast) == RL + '.acquire']
  report.expect_instances(rule5, len(elect), 1, 'reader elections')
  for e in elect:
    report.check(COND in must[e.id], rule5, f.qualname,
                 'election-under-condition', e.ast,
                 'the reader election happens while holding the condition',
                 'the reader election (%s.acquire(False)) is made without '
                 'holding %s: a notify between the failed election and wait() '
                 'is lost and the waiter sleeps until its timeout' % (RL, COND))
  waits = [n for n in g.nodes if any(
      isinstance(s, ast.Call) and call_name(s) == COND + '.wait'
      for s in n.subnodes())]
  report.expect_instances(rule5, len(waits), 1, 'condition waits')
  for w in waits:
    report.check(COND in must[w.id], rule5, f.qualname, 'wait-holds-condition',
                 w.ast, 'wait() is called holding the condition')
    for e in elect:
      fs = e.succ('F')
      # nodes executed between the failed election and wait()
      region = [] if fs is w else [fs] + g.reach(
          [fs], avoid=lambda n: n is w or n is e)
      reaches_wait = fs is w or any(x is w for x in g.reach(
          [fs], avoid=lambda n: n is e))
      rel = [n for n in region if any(
          op == 'release' and lk == COND
          for op, lk in locks.lock_events(n, names))]
      bad = [r for r in rel if any(x is w for x in g.reach(
          [r], avoid=lambda n: n is e))]
      report.check(
          not bad and reaches_wait, rule5, f.qualname,
          'continuous-hold', w.ast,
          'the condition is held continuously from the failed election to '
          'wait()',
          'the condition is released between the failed reader election and '
          'wait(): the current reader can notify in that window and the '
          'wake-up is lost')
    c = [s for s in w.subnodes() if isinstance(s, ast.Call) and
         call_name(s) == COND + '.wait'][0]
    report.check(bool(c.args or c.keywords), rule5, f.qualname, 'wait-timeout',
                 c, 'wait() carries the caller\'s remaining timeout')
  nots = [n for n in g.nodes if any(
      isinstance(s, ast.Call) and call_name(s) == COND + '.notify_all'
      for s in n.subnodes())]
  report.expect_instances(rule5, len(nots), 1, 'notify sites')
  for n in nots:
    report.check(COND in must[n.id], rule5, f.qualname,
                 'notify-holds-condition', n.ast,
                 'notify_all() is called holding the condition')
    report.check(
        RL not in may[n.id], rule5, f.qualname, 'notify-before-release', n.ast,
        'waiters are notified only after the reader role was released',
        'notify_all() runs while %s may still be held: a woken waiter loses '
        'the election to the thread that is about to leave and nobody reads '
        'until its timeout (lost hand-off)' % RL)
  # the reader is notified on every exit of the reading branch
  for e in elect:
    ts = e.succ('T')
    reach = [ts] + g.reach(
        [ts], avoid=lambda n: any(n is x for x in nots) or n is e,
        avoid_edge=lambda a, l, b: l == 'exc' and locks.ignorable_exc(a, names))
    loop_heads = [n for n in g.nodes if n.kind == 'loop']
    leaves = [n for n in reach if g.is_any_exit(n) or n in loop_heads]
    report.check(not leaves, rule5, f.qualname, 'notify-on-every-exit', e.ast,
                 'every way out of the reading branch (normal, return, '
                 'exception) notifies the waiters',
                 'the reading thread can leave without notify_all(): waiters '
                 'sleep until their timeout')
  # the read itself happens without holding the condition
  reads = [n for n in g.nodes if any(
      isinstance(s, ast.Call) and last_attr(s) == 'read_for_stream'
      for s in n.subnodes())]
  for r in reads:
    report.check(COND not in may[r.id] and RL in must[r.id], rule5, f.qualname,
                 'read-as-reader', r.ast,
                 'the blocking read is done holding only the reader role')


def r6_bounded(report, repo):
  rule = 'C14-R6'
  report.rule(rule, 'no unbounded blocking: every Condition.wait / Queue.get / '
              'Event.wait in the ADB protocol modules carries a timeout or is '
              'non-blocking')
  n = 0
  for rel in (AP, AM):
    for c in [x for x in ast.walk(repo.module(rel).tree)
              if isinstance(x, ast.Call)]:
      la = last_attr(c)
      recv = dotted(c.func.value) if isinstance(c.func, ast.Attribute) else ''
      if la == 'wait' and recv:
        n += 1
        report.check(bool(c.args or c.keywords), rule,
                     core.owner_qualname(c), c, c,
                     '%s.wait has a timeout' % recv,
                     '%s.wait() without timeout' % recv)
      elif la == 'get' and recv and 'queue' in recv:
        n += 1
        blk = c.args[0] if c.args else core.get_kw(c, 'block')
        to = c.args[1] if len(c.args) > 1 else core.get_kw(c, 'timeout')
        nonblock = isinstance(blk, ast.Constant) and blk.value is False
        report.check(nonblock or to is not None, rule, core.owner_qualname(c),
                     c, c, '%s.get is bounded' % recv,
                     '%s.get() can block forever' % recv)
      elif la == 'acquire' and recv and not c.args and 'lock' in recv.lower() \
          and rel == AP and core.owner_qualname(c).endswith('read_for_stream'):
        n += 1
        report.violation(rule, core.owner_qualname(c), c, c,
                         'blocking acquire of %s in the polling reader' % recv)
  report.expect_instances(rule, n, 2, 'blocking primitives')


def r7_buffer(report, repo):
  rule = 'C14-R7'
  report.rule(rule, 'read-buffer discipline: received data is appended at the '
              'back, the consumer returns unread bytes to the front '
              '(appendleft, or append onto a buffer it just cleared), every '
              'mutation of the buffer / its size is inside `with '
              '_read_buffer_lock`')
  n = 0
  for f in repo.module(AP).all_funcs():
    if f.cls is None or f.cls.name != ST or f.name == '__init__':
      continue
    g = None
    for node in walk_no_nested(f.node):
      tgt = None
      if isinstance(node, ast.Call) and isinstance(node.func, ast.Attribute) and \
          dotted(node.func.value) == 'self._read_buffer' and \
          node.func.attr in core.MUTATORS:
        tgt = node.func.attr
      elif isinstance(node, (ast.Assign, ast.AugAssign)) and any(
          dotted(t) in ('self._buffer_size', 'self._read_buffer')
          for t in core.assigned_targets(node)):
        tgt = 'size'
      if tgt is None:
        continue
      n += 1
      report.check('self._read_buffer_lock' in core.held_withs(node), rule,
                   f.qualname, node, node,
                   '%s: buffer mutation under the buffer lock' % f.qualname,
                   '%s mutates the read buffer outside _read_buffer_lock' %
                   f.qualname)
      if f.name == 'read' and tgt == 'append':
        g = g or lib.cfg(f)
        ok = all(g.dominated_by(x, lambda y: any(
            isinstance(s, ast.Call) and call_name(s) == 'self._read_buffer.clear'
            for s in y.subnodes())) for x in g.nodes_of(node))
        report.check(ok, rule, f.qualname, 'pushback-to-front', node,
                     'unread bytes go back to the front of the buffer',
                     'read() puts unread bytes back with append() on a '
                     'non-empty buffer: they end up behind later payloads and '
                     'the stream is delivered out of order')
      if f.name == '_handle_message' and tgt in ('appendleft', 'insert'):
        report.violation(rule, f.qualname, node, node,
                         'received data is inserted at the front of the buffer '
                         '(out-of-order delivery)')
  report.expect_instances(rule, n, 5, 'read-buffer mutations')
  f = repo.func(AP, ST + '.read')
  pred = core.calls_in(f.node, name='self._read_messages_until_true')
  ptxt = ''
  if len(pred) == 1 and pred[0].args:
    a0 = pred[0].args[0]
    if isinstance(a0, ast.Lambda):
      ptxt = norm(a0.body)
    elif isinstance(a0, ast.Name):
      # a named local predicate function
      for d_ in f.node.body:
        if isinstance(d_, ast.FunctionDef) and d_.name == a0.id:
          ptxt = ' '.join(norm(x.value) for x in ast.walk(d_)
                          if isinstance(x, ast.Return) and x.value is not None)
    elif isinstance(a0, ast.Call) and call_name(a0) in (
        'functools.partial', 'partial') and a0.args and isinstance(
            a0.args[0], ast.Attribute) and core.is_name(a0.args[0].value,
                                                        'self') and \
        repo.has_func(AP, ST + '.' + a0.args[0].attr):
      # a method of the transport with its arguments bound
      m_ = repo.func(AP, ST + '.' + a0.args[0].attr)
      mp = lib.param_names(m_.node)[1:]
      bound = dict(zip(mp, [norm(x) for x in a0.args[1:]]))
      ptxt = ' '.join(norm(x.value) for x in ast.walk(m_.node)
                      if isinstance(x, ast.Return) and x.value is not None)
      for k, v_ in bound.items():
        ptxt = re.sub(r'\b%s\b' % re.escape(k), v_, ptxt)
  ok = len(pred) == 1 and 'self._buffer_size' in ptxt and \
      lib.param_names(f.node)[1] in ptxt
  report.check(ok, rule, f.qualname, 'waits-for-data', f.node,
               'read() waits until enough bytes are buffered')
  sz = [n_ for n_ in walk_no_nested(f.node) if isinstance(n_, ast.Assign) and
        dotted(n_.targets[0]) == 'self._buffer_size']
  # the remainder is what is put back at the front of the buffer
  gr = lib.cfg(f)
  backs = [(n_, c) for n_, c in lib.nodes_with_call(gr) if last_attr(c) in (
      'appendleft', 'append', 'extendleft', 'extend', 'insert') and
           dotted(c.func.value) == 'self._read_buffer' and c.args]

  def same_path(a_, b_):
    return a_ is b_ or gr.dominated_by(a_, lambda x: x is b_) or \
        gr.dominated_by(b_, lambda x: x is a_)
  ok = bool(sz)
  for a_ in sz:
    an = gr.nodes_of(a_)
    rel = [(n_, c) for n_, c in backs if any(same_path(x, n_) for x in an)]
    if call_name(a_.value) == 'len' and a_.value.args:
      ok = ok and any(dotted(c.args[-1]) == dotted(a_.value.args[0])
                      for _, c in rel)
    elif isinstance(a_.value, ast.Constant) and a_.value.value == 0:
      ok = ok and not rel
    else:
      ok = False
  report.check(ok, rule, f.qualname, 'size-of-pushback', f.node,
               'the buffer size becomes the size of the unread remainder')


def r8_repoll(report, repo):
  rule = 'C14-R8'
  report.rule(rule, 'T-MUST: read_for_stream polls its own queue again after '
              'winning the connection reader lock and before the first wire '
              'read (a message queued by the previous reader between the first '
              'poll and the lock hand-over is otherwise overtaken)')
  rf = repo.func(AP, 'AdbConnection.read_for_stream')
  g = lib.cfg(rf)
  acq = [n for n in g.nodes if n.kind == 'test' and
         call_name(n.ast) == 'self._reader_lock.acquire']
  reads = [n for n, c in lib.nodes_with_call(g, attr='read_message')]
  report.expect_instances(rule, len(acq), 1, 'reader-lock acquisitions')
  report.expect_instances(rule, len(reads), 1, 'wire reads')

  def polls(n):
    return any(isinstance(s, ast.Call) and last_attr(s) in ('get_nowait', 'get')
               and (dotted(s.func.value) or '').endswith('message_queue')
               for s in n.subnodes())
  for a in acq:
    won = a.succ('T')
    if won is None:
      continue
    seen = [won] + g.reach([won], avoid=polls)
    bad = [r for r in reads if not polls(won) and any(r is x for x in seen)]
    report.check(not bad, rule, rf.qualname, 'repoll-after-lock', a.ast,
                 'queue polled between winning the lock and reading the wire',
                 'the wire is read right after winning the reader lock without '
                 'polling this stream\'s queue again: a message the previous '
                 'reader queued meanwhile is delivered after newer data '
                 '(reordering) or the read blocks with its data queued')


def run(report, repo):
  report.guard(r8_repoll, report, repo)
  res = report.guard(r1_acks, report, repo)
  if res is not None:
    report.guard(r2_chunks, report, repo, res[0], res[1])
  report.guard(r3_one_in_flight, report, repo)
  report.guard(r4_r5_locks, report, repo)
  report.guard(r6_bounded, report, repo)
  report.guard(r7_buffer, report, repo)
  from sa.rules import extra4  # pylint: disable=g-import-not-at-top
  report.guard(extra4.read_until_close_drains, report, repo, 'C14-R9')
  from sa.rules import extra5 as _e5b  # pylint: disable=g-import-not-at-top
  from sa.rules import c13 as _c13  # pylint: disable=g-import-not-at-top
  report.guard(_c13.r2_r3_regions, report, repo, rule='C14-R10', rule3='C14-R10b')
