"""C12 - phase timeout and thread kill."""

import ast

from sa import cfg as cfgm
from sa import core, lib
from sa.core import call_name, dotted, last_attr, norm, walk_no_nested
from sa.lib import ends_with

DECIDES = (
    'the kill protocol\'s shape: the thread body runs under the running lock, '
    'the kill-before-start check is inside that region and dominates the body, '
    'exception/finish handlers run outside it; kill() sets the killed flag '
    'first and raises asynchronously only if the thread is alive and its body '
    'is running (non-blocking probe that releases on success), at self.ident; '
    'join_or_die as a decision table (deadline from option or default, loop '
    'bounded by the deadline with a finite join interval, stored outcome wins '
    'over alive => kill + timeout outcome, else killed outcome); which code '
    'constructs the timeout outcome; TestApi reaches phase-scoped data only '
    'through the phase state captured at construction; teardown still on every '
    'path.')
DOES_NOT_DECIDE = (
    'anything about durations relative to deadlines (virtual time) or delivery '
    'timing of the asynchronous exception (runtime quantities).')

TH = 'openhtf/util/threads.py'
PE = 'openhtf/core/phase_executor.py'
TD = 'openhtf/core/test_descriptor.py'
TS = 'openhtf/core/test_state.py'
LOCK = 'self._running_lock'


def r1_run(report, repo, rule='C12-R1'):
  report.rule(rule, 'T-REGION/T-DOM: KillableThread.run: _thread_proc() inside '
              '`with self._running_lock`, dominated by the killed-flag test in '
              'the same region; _thread_exception / _thread_finished outside')
  f = repo.func(TH, 'KillableThread.run')
  g = lib.cfg(f)
  bodies = core.calls_in(f.node, name='self._thread_proc')
  report.expect_instances(rule, len(bodies), 1, '_thread_proc calls')
  b = bodies[0]
  regions = [w for w in core.enclosing_withs(b) if LOCK in core.with_item_names(w)]
  report.check(bool(regions), rule, f.qualname, 'body-in-lock', b,
               'thread body runs while holding the running lock',
               'the thread body runs outside the running lock: kill() cannot '
               'tell whether the body or the handlers are running and may raise '
               'into the exception/finish handlers')
  tests = core.calls_in(f.node, name='self._killed.is_set')
  report.check(bool(tests), rule, f.qualname, 'killed-check', f.node,
               'killed flag tested before the body')
  for t in tests:
    ok = bool(regions) and any(any(t is x for x in ast.walk(s))
                               for s in regions[0].body)
    report.check(ok, rule, f.qualname, 'killed-check-in-lock', t,
                 'killed flag tested inside the running-lock region',
                 'the kill-before-start check is outside the running lock: a '
                 'kill() between the check and the lock acquisition is lost '
                 '(flag set, body not yet "running") and the body runs to '
                 'completion')
  for n in g.nodes_of(b):
    ok = g.dominated_by_edge(
        n, lambda s, l, d: s.kind == 'test' and l == 'F' and
        call_name(s.ast) == 'self._killed.is_set')
    report.check(ok, rule, f.qualname, 'body-guarded', b,
                 'body reachable only when the killed flag was clear',
                 'the body can start although the thread was already killed')
  for nm in ('self._thread_exception', 'self._thread_finished'):
    cs = core.calls_in(f.node, name=nm)
    report.expect_instances(rule, len(cs), 1, nm)
    for c in cs:
      report.check(LOCK not in core.held_withs(c), rule, f.qualname,
                   nm + '-outside-lock', c,
                   '%s runs after the running lock was released (a late kill '
                   'cannot interrupt it)' % nm,
                   '%s runs while the running lock is held: a kill() arriving '
                   'then raises inside the handler' % nm)
  fin = core.calls_in(f.node, name='self._thread_finished')
  ok = bool(fin) and lib.in_handler_or_finally(fin[0]) is not None and \
      lib.in_handler_or_finally(fin[0])[1] == 'finalbody'
  report.check(ok, rule, f.qualname, 'finished-in-finally', f.node,
               '_thread_finished runs in the finally block')


def r2_kill(report, repo, rule='C12-R2'):
  report.rule(rule, 'T-ORDER/T-DOM: kill(): _killed.set() first; async_raise '
              'only if is_alive() and the body is running; the probe is a '
              'non-blocking acquire that releases on success; async_raise '
              'targets self.ident')
  f = repo.func(TH, 'KillableThread.kill')
  g = lib.cfg(f)
  sets = lib.nodes_with_call(g, name='self._killed.set')
  if not sets:
    report.violation(rule, f.qualname, 'killed-flag-never-set', f.node,
                     'kill() never sets the killed flag: a kill requested '
                     'before the thread started does not prevent its body')
    return
  others = [n for n in g.nodes if n.kind in ('test', 'stmt') and n.ast is not None
            and n is not sets[0][0] and not lib.is_transparent(n) and
            not isinstance(n.ast, ast.Constant) and
            not (isinstance(n.ast, ast.Expr) and isinstance(n.ast.value,
                                                            ast.Constant))]
  ok = all(g.dominated_by(n, lambda x: x is sets[0][0]) for n in others)
  report.check(ok, rule, f.qualname, 'flag-first', f.node,
               'the killed flag is set before anything else is examined',
               'kill() examines the thread before setting the killed flag: a '
               'thread that has not started yet would still run its body')
  ar = lib.nodes_with_call(g, name='self.async_raise')
  report.expect_instances(rule, len(ar), 1, 'async_raise calls')
  for n, c in ar:
    report.check(ends_with(dotted(c.args[0]) if c.args else '',
                           'ThreadTerminationError'), rule, f.qualname,
                 'raises-termination-error', c,
                 'the raised type is ThreadTerminationError')
  # decision table over {thread alive, running lock obtained by the probe}
  # (the probe helper, if there is one, is inlined by the loader)
  acq = core.calls_in(f.node, name=LOCK + '.acquire')
  ok = len(acq) == 1 and acq[0].args and isinstance(
      acq[0].args[0], ast.Constant) and acq[0].args[0].value is False
  report.check(bool(ok), rule, f.qualname, 'non-blocking', f.node,
               'the probe acquires the running lock without blocking',
               'the running-lock probe blocks: kill() waits for the body to '
               'finish instead of interrupting it')

  def classify2(expr, steps):
    if isinstance(expr, ast.Name):
      v = cfgm.Path(steps, None).value_of(expr.id)
      if v is not None and call_name(v) == LOCK + '.acquire':
        return 'acquired'
      return None
    if call_name(expr) == LOCK + '.acquire':
      return 'acquired'
    if call_name(expr) == 'self.is_alive':
      return 'alive'
    return None

  def spec(v, p_):
    if p_.end != 'exit':
      return None
    rel = p_.calls(name=LOCK + '.release')
    raises = p_.calls(name='self.async_raise')
    probes = p_.calls(name=LOCK + '.acquire')
    if not v['alive']:
      if raises:
        return 'raise-guard:self.is_alive: asynchronous raise for a thread ' \
            'that is not alive'
      return None
    if not probes:
      return 'raise-guard:probe: the running lock is not probed'
    if v['acquired']:
      if len(rel) != 1:
        return 'acquired-row: the probe must release the lock it obtained'
      if raises:
        return ('raise-guard:body-running: asynchronous raise although the '
                'running lock was free (the body is not running: the '
                'exception would hit the exception/finish handlers)')
    else:
      if rel:
        return 'busy-row: must not release a lock it does not hold'
      if len(raises) != 1:
        return 'busy-row: a running body must be interrupted exactly once'
    return None

  lib.decision_table(report, rule, f, ['alive', 'acquired'], classify2, spec)
  a = repo.func(TH, 'KillableThread.async_raise')
  cs = [c for c in core.calls_in(a.node)
        if last_attr(c) == 'PyThreadState_SetAsyncExc']
  report.expect_instances(rule, len(cs), 1, 'SetAsyncExc calls')
  ok = all(any(isinstance(x, ast.Attribute) and dotted(x) == 'self.ident'
               for x in ast.walk(c.args[0])) for c in cs if c.args)
  report.check(ok, rule, a.qualname, 'own-ident', a.node,
               'the asynchronous exception is aimed at self.ident only')
  ga = lib.cfg(a)
  for n in ga.nodes:
    if n.kind == 'stmt' and isinstance(n.ast, ast.Raise) and n.ast.exc is not \
        None and last_attr(n.ast.exc) == 'ValueError':
      posts = [x for x, c_ in lib.nodes_with_call(ga)
               if last_attr(c_) == 'PyThreadState_SetAsyncExc']
      okv = ga.dominated_by_edge(
          n, lambda s_, l, d: s_.kind == 'test' and l == 'T' and
          call_name(s_.ast) == 'self.is_alive' and any(
              ga.dominated_by(s_, lambda y, _p=p_: y is _p) for p_ in posts))
      report.check(
          okv, rule, a.qualname, 'dead-thread-is-benign', n.ast,
          '"thread id invalid" is an error only if the thread is still alive',
          'async_raise raises ValueError when the interpreter found no such '
          'thread even if the thread has just exited: a kill racing with the '
          'end of the body blows up in join_or_die (ERROR instead of TIMEOUT, '
          'teardown skipped) although such a kill must have no effect')


def r3_join_or_die(report, repo, rule='C12-R3'):
  report.rule(rule, 'T-DTABLE/T-LOOP: join_or_die: deadline = now + (timeout_s '
              'option else default); loop bounded by the deadline comparison, '
              'each iteration join(<finite constant>); afterwards: stored '
              'outcome wins, else alive => kill + timeout outcome, else killed '
              'outcome')
  f = repo.func(PE, 'PhaseExecutorThread.join_or_die')
  loops = [n for n in walk_no_nested(f.node) if isinstance(n, ast.While)]
  report.expect_instances(rule, len(loops), 1, 'wait loops')
  lp = loops[0]
  t = lp.test
  # the deadline local: what is computed as time.monotonic() + <timeout>
  dln = lib.local_from(
      f, lambda e: isinstance(e, ast.BinOp) and isinstance(e.op, ast.Add) and
      call_name(e.left) == 'time.monotonic', 'deadline')
  ok = isinstance(t, ast.Compare) and len(t.ops) == 1 and (
      (isinstance(t.ops[0], ast.Lt) and call_name(t.left) == 'time.monotonic'
       and core.is_name(t.comparators[0], dln)) or
      (isinstance(t.ops[0], ast.Gt) and core.is_name(t.left, dln) and
       call_name(t.comparators[0]) == 'time.monotonic'))
  report.check(ok, rule, f.qualname, 'loop-bounded-by-deadline', lp,
               'wait loop runs only while time.monotonic() < deadline',
               'the wait loop is not bounded by the deadline (%s): the executor '
               'can wait forever for a body that never returns' % norm(t))
  joins = core.calls_in(lp, name='self.join')
  report.expect_instances(rule, len(joins), 1, 'joins in the loop')
  m = repo.module(PE)
  for j in joins:
    a = j.args[0] if j.args else core.get_kw(j, 'timeout')
    fin = False
    if isinstance(a, ast.Constant) and isinstance(a.value, (int, float)):
      fin = a.value > 0
    elif isinstance(a, ast.Name) and a.id in m.constants:
      c = m.constants[a.id]
      fin = isinstance(c, ast.Constant) and isinstance(c.value, (int, float)) \
          and c.value > 0
    report.check(fin, rule, f.qualname, 'finite-join', j,
                 'each wait is a join with a finite positive constant',
                 'join() in the wait loop has no finite timeout (%s): a stuck '
                 'body blocks the executor past the deadline' %
                 (norm(a) if a is not None else 'none'))
  # the deadline the loop compares against, per way of getting there: now +
  # the phase's timeout_s when that is given, else now + the default
  OPT = 'self._phase_desc.options.timeout_s'
  g0 = lib.cfg(f)

  def cl_dl(expr, steps):
    if isinstance(expr, ast.Compare) and len(expr.ops) == 1 and isinstance(
        expr.ops[0], (ast.Is, ast.IsNot)) and isinstance(
            expr.comparators[0], ast.Constant) and \
        expr.comparators[0].value is None and cfgm.path_dotted(
            cfgm.Path(steps, None), expr.left) == OPT:
      return 'has_opt' if isinstance(expr.ops[0], ast.IsNot) else (
          'not', 'has_opt')
    return None
  ok = True
  seen = set()
  for val in ({'has_opt': True}, {'has_opt': False}):
    for p in cfgm.walk_paths(g0, lib.make_decider(val, cl_dl)):
      idx = [i for i, (n, _) in enumerate(p.steps)
             if n.kind == 'test' and n.ast is lp.test]
      if not idx:
        continue
      e = cfgm.path_resolve(p, ast.Name(id=dln, ctx=ast.Load()),
                            before_index=idx[0])
      good = isinstance(e, ast.BinOp) and isinstance(e.op, ast.Add) and \
          call_name(e.left) == 'time.monotonic'
      if good:
        # the amount added, read where the deadline was computed
        di = max(i for i, (n, _) in enumerate(p.steps[:idx[0]])
                 if n.kind == 'stmt' and isinstance(n.ast, ast.Assign) and
                 n.ast.value is e)
        amount = cfgm.path_dotted(p, e.right, before_index=di)
        good = amount == (OPT if val['has_opt'] else 'DEFAULT_PHASE_TIMEOUT_S')
      seen.add(val['has_opt'])
      ok = ok and good
  ok = ok and seen == {True, False}
  report.check(ok, rule, f.qualname, 'deadline', f.node,
               'deadline = monotonic() + timeout_s if given else + '
               'DEFAULT_PHASE_TIMEOUT_S')
  dflt = m.constants.get('DEFAULT_PHASE_TIMEOUT_S')
  ok = dflt is not None and core.unparse(dflt).replace(' ', '') in ('3*60',
                                                                    '180')
  report.check(ok, rule, 'phase_executor', 'DEFAULT_PHASE_TIMEOUT_S', PE,
               'default phase timeout is 180 s')

  def classify(expr, steps):
    past_loop = any(n.kind == 'test' and n.ast is lp.test and l == 'F'
                    for n, l in steps) or any(
                        n.kind == 'stmt' and isinstance(n.ast, ast.Break)
                        for n, _ in steps)
    d = dotted(expr)
    if expr is lp.test:
      return None
    if d == 'self._phase_execution_outcome' and past_loop:
      return 'have_outcome'
    if call_name(expr) == 'self.is_alive' and past_loop:
      return 'alive'
    return None

  def spec(v, p):
    if p.end != 'exit':
      return None
    r = p.last_return().value
    kills = p.calls(name='self.kill')
    post_kills = kills
    if v['have_outcome']:
      if dotted(r) != 'self._phase_execution_outcome':
        return ('outcome-row: a stored outcome must be returned (a body that '
                'finished keeps its own result), returns %s' % norm(r))
      if post_kills:
        return 'outcome-row: a finished body must not be killed'
      return None
    is_to = isinstance(r, ast.Call) and last_attr(r) == \
        'PhaseExecutionOutcome' and r.args and isinstance(
            r.args[0], ast.Constant) and r.args[0].value is None
    if v['alive']:
      if not is_to:
        return 'timeout-row: alive without outcome must return the timeout outcome'
      if len(kills) != 1:
        return 'timeout-row: the abandoned thread must be killed once'
      return None
    ok = isinstance(r, ast.Call) and last_attr(r) == 'PhaseExecutionOutcome' \
        and r.args and isinstance(r.args[0], ast.Call) and \
        last_attr(r.args[0]) == 'ThreadTerminationError'
    if not ok:
      return 'killed-row: dead without outcome must return the killed outcome'
    if kills:
      return 'killed-row: a dead thread must not be killed again'
    return None

  lib.decision_table(report, rule, f, ['have_outcome', 'alive'], classify, spec)


def r4_timeout_outcome(report, repo):
  rule = 'C12-R4'
  report.rule(rule, 'T-WHO: PhaseExecutionOutcome(None) (timeout) is '
              'constructed only in join_or_die and the cancelled exit of '
              'execute_phase')
  n = 0
  for m, c in core.call_sites(repo, attr='PhaseExecutionOutcome'):
    if c.args and isinstance(c.args[0], ast.Constant) and \
        c.args[0].value is None:
      n += 1
      owner = core.owner_qualname(c)
      ok = m.relpath == PE and owner in ('PhaseExecutorThread.join_or_die',
                                         'PhaseExecutor.execute_phase')
      report.check(ok, rule, owner, c, c,
                   'timeout outcome constructed in %s' % owner,
                   'a timeout outcome is fabricated in %s: a phase that did '
                   'not time out can be reported TIMEOUT' % owner)
  report.expect_instances(rule, n, 2, 'timeout outcome constructions')


def r5_test_api(report, repo):
  rule = 'C12-R5'
  report.rule(rule, 'forbidden chain: TestApi reaches phase-scoped data only '
              'through the phase state captured at construction; the TestApi '
              'cache of TestState is built from the current running phase '
              'state')
  cls = repo.cls(TD, 'TestApi')
  n = 0
  for f in repo.module(TD).all_funcs():
    if f.cls is not cls:
      continue
    for x in walk_no_nested(f.node):
      if isinstance(x, ast.Attribute):
        d = dotted(x) or ''
        if '_running_test_state.running_phase_state' in d or \
            d.endswith('_running_test_state.test_api') or \
            d.endswith('_running_test_state.logger'):
          report.violation(
              rule, f.qualname, x, x,
              'TestApi.%s looks the running phase up at use time (%s): code '
              'of an abandoned (timed-out) body would write into the record '
              'of whatever phase runs later' % (f.name, d))
        if d.startswith('self._running_phase_state'):
          n += 1
  report.expect_instances(rule, n, 3, 'uses of the captured phase state')
  report.ok(rule, cls, 'TestApi uses the captured _running_phase_state at %d '
            'sites and never looks the running phase up late' % n)
  ta = repo.func(TS, 'TestState.test_api')
  cs = core.calls_in(ta.node, attr='TestApi')
  ok = len(cs) == 1 and dotted(core.get_kw(cs[0], 'running_phase_state')) == \
      'self.running_phase_state' and any(
          isinstance(x, ast.Attribute) and dotted(x) ==
          'self.running_phase_state.measurements'
          for x in ast.walk(core.get_kw(cs[0], 'measurements') or cs[0]))
  report.check(ok, rule, ta.qualname, 'bound-to-current', ta.node,
               'a TestApi is bound to the phase state current at creation')


def run(report, repo):
  report.guard(r1_run, report, repo)
  report.guard(r2_kill, report, repo)
  report.guard(r3_join_or_die, report, repo)
  report.guard(r4_timeout_outcome, report, repo)
  report.guard(r5_test_api, report, repo)
  from sa.rules import c03, c09  # pylint: disable=g-import-not-at-top
  report.guard(c03.group_table, report, repo, 'C12-R6')
  report.guard(c03.r5_thread_proc, report, repo)
  report.guard(c09.r5_running_markers, report, repo)
  from sa.rules import c05, c06  # pylint: disable=g-import-not-at-top
  # a body that raised before its deadline keeps its own result (shared C05-R5)
  report.guard(c05.r5_thread_proc, report, repo, rule='C12-R7')
  # a TIMEOUT result is not replaced by a later validation error
  report.rule('C12-R8', 'T-DOM: _finalize_measurements replaces the phase '
              'result only when it is not terminal')
  report.guard(c06.r5b_keep_terminal, report, repo, rule='C12-R8')
  from sa.rules import extra4  # pylint: disable=g-import-not-at-top
  report.guard(extra4.joins_are_bounded, report, repo, 'C12-R9')
  from sa.rules import extra5 as _e5b  # pylint: disable=g-import-not-at-top
  report.guard(_e5b.monitor_binds_measurement_once, report, repo, 'C12-R10')
  from sa.rules import extra5 as _e6  # pylint: disable=g-import-not-at-top
  report.guard(_e6.first_terminal_outcome_wins, report, repo, 'C12-R11')
