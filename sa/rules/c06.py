"""C06 - measurement outcome = all validators on the recorded value."""

import ast

from sa import cfg as cfgm
from sa import core, lib
from sa.core import call_name, dotted, last_attr, norm, walk_no_nested
from sa.lib import ends_with

DECIDES = (
    'Measurement.validate assigns both outcome and marginal on every normal '
    'exit and FAIL before re-raising; validators and is_marginal see the '
    'stored (transformed) value and marginal can become true only on the PASS '
    'branch; MeasuredValue.set / DimensionedMeasuredValue.__setitem__ store '
    'the transform result on every path (no path skips the store) and reject '
    'bad coordinates before any write; Collection.__setitem__ rejects '
    'undeclared names and dimensioned-without-coordinates before mutation and '
    'validates after storing; end-of-phase validation visits every '
    'measurement, validates each PARTIALLY_SET one inside its own try/except '
    'and turns an exception into the phase result; PARTIALLY_SET is written '
    'only for dimensioned measurements; conditional validators are attached '
    'iff their diagnosis result exists, to the per-run copy; '
    '_measurements_pass allows exactly PASS (and UNSET iff '
    'allow_unset_measurements).')
DOES_NOT_DECIDE = (
    'results of user validators or transforms (values); per-coordinate order '
    'beyond "stored in an insertion-ordered dict".')

ME = 'openhtf/core/measurements.py'
TS = 'openhtf/core/test_state.py'


def _assigns(node, target):
  return node.kind == 'stmt' and node.ast is not None and any(
      dotted(t) == target for t in core.assigned_targets(node.ast))


def r1_validate(report, repo):
  rule = 'C06-R1'
  report.rule(rule, 'T-ASSIGN: Measurement.validate assigns outcome and '
              'marginal on every normal exit; exception exit assigns FAIL then '
              're-raises')
  f = repo.func(ME, 'Measurement.validate')
  g = lib.cfg(f)
  no_exc = lambda a, l, b: l == 'exc'
  for field in ('self.outcome', 'self.marginal'):
    reach = g.reach([g.entry], avoid=lambda n, _f=field: _assigns(n, _f),
                    avoid_edge=no_exc)
    ok = not any(n is g.exit for n in reach)
    report.check(
        ok, rule, f.qualname, 'unassigned:' + field, f.node,
        'every normal path through validate() assigns %s' % field,
        'a normal path through validate() does not assign %s: the value of a '
        'previous validation survives (e.g. marginal stays True after the '
        'value was overridden with a non-marginal or failing one)' % field)
  # exception path: handler assigns FAIL and re-raises
  hs = [n for n in g.nodes if n.kind == 'handler']
  report.expect_instances(rule, len(hs), 1, 'validate handlers')
  for h in hs:
    reach = g.reach([h], avoid=lambda n: _assigns(n, 'self.outcome'),
                    avoid_edge=no_exc)
    ok = not any(g.is_any_exit(n) or n.kind == 'finally' for n in reach)
    hb = h.ast
    fails = [s for s in walk_no_nested(hb) if isinstance(s, ast.Assign) and
             any(dotted(t) == 'self.outcome' for t in s.targets) and
             ends_with(dotted(s.value) or '', 'Outcome.FAIL')]
    reraises = [s for s in hb.body if isinstance(s, ast.Raise)]
    report.check(ok and fails and reraises, rule, f.qualname,
                 'exception-path', hb,
                 'a raising validator marks the measurement FAIL and the '
                 'exception is re-raised',
                 'a raising validator does not leave outcome FAIL and '
                 'propagate')
  # marginal true only on PASS branch
  for n in g.nodes:
    if _assigns(n, 'self.marginal') and isinstance(n.ast, ast.Assign):
      v = n.ast.value
      if isinstance(v, ast.Constant) and v.value is False:
        continue
      # dominated by T edge of the all-validators test and an outcome=PASS
      def accepted(e, at):
        """the all-validators verdict, in place or through a local"""
        if call_name(e) == 'all':
          return True
        if isinstance(e, ast.Name):
          vs = lib.value_exprs(g, at, e)
          return bool(vs) and all(call_name(x) == 'all' for x in vs)
        return False
      ok = g.dominated_by_edge(
          n, lambda s, l, d: s.kind == 'test' and l == 'T' and
          accepted(s.ast, s))
      if not ok and isinstance(v, ast.BoolOp) and isinstance(v.op, ast.And):
        ok = accepted(v.values[0], n)  # `accepted and any(...)`
      report.check(ok, rule, f.qualname, 'marginal-only-on-pass', n.ast,
                   'marginal can become true only on the branch where all '
                   'validators accepted',
                   'marginal may be set true although a validator rejected '
                   'the value')


def r2_validated_value(report, repo):
  rule = 'C06-R2'
  report.rule(rule, 'T-AGREE: every validator / is_marginal call in validate() '
              'receives the stored (transformed) value')
  f = repo.func(ME, 'Measurement.validate')
  n = 0
  # names ranging over the validators (comprehension / loop targets)
  vnames = set()
  for x in ast.walk(f.node):
    if isinstance(x, ast.comprehension) and isinstance(x.target, ast.Name) and \
        dotted(x.iter) == 'self.validators':
      vnames.add(x.target.id)
    elif isinstance(x, ast.For) and isinstance(x.target, ast.Name) and \
        dotted(x.iter) == 'self.validators':
      vnames.add(x.target.id)
  for c in core.calls_in(f.node):
    is_v = isinstance(c.func, ast.Name) and c.func.id in vnames
    is_m = last_attr(c) == 'is_marginal'
    if not (is_v or is_m):
      continue
    n += 1
    ok = len(c.args) == 1 and dotted(c.args[0]) in (
        'self._measured_value.value', 'self.measured_value.value')
    report.check(ok, rule, f.qualname, c, c,
                 '%s applied to self._measured_value.value' % norm(c.func),
                 '%s is applied to %s instead of the recorded value' %
                 (norm(c.func), norm(c.args[0]) if c.args else '<nothing>'))
  report.expect_instances(rule, n, 2, 'validator applications')
  gens = [x for x in walk_no_nested(f.node)
          if isinstance(x, ast.GeneratorExp) or isinstance(x, ast.ListComp)]
  ok = all(dotted(x.generators[0].iter) == 'self.validators' and
           not x.generators[0].ifs for x in gens) and len(gens) >= 2
  report.check(ok, rule, f.qualname, 'all-validators', f.node,
               'both quantifiers range over all of self.validators')
  alls = [c for c in core.calls_in(f.node, name='all')]
  report.check(len(alls) == 1, rule, f.qualname, 'all()', f.node,
               'outcome is decided by all(...) over the validators')


def _store_rules(report, repo, rule, qual, store_pred, cache_pred, cache_rule,
                 do_store=True, do_cache=True):
  f = repo.func(ME, qual)
  g = lib.cfg(f)
  vparam = lib.param_names(f.node)[-1]  # the value being assigned
  tr = [n for n in g.nodes if n.kind == 'stmt' and isinstance(n.ast, ast.Assign)
        and call_name(n.ast.value) == 'self.transform_fn' and
        isinstance(n.ast.targets[0], ast.Name)]
  ok_tr = len(tr) == 1 and g.dominated_by_edge(
      tr[0], lambda s, l, d: s.kind == 'test' and l == 'T' and
      dotted(s.ast) == 'self.transform_fn')
  if ok_tr:
    # the transform is applied to the caller's value itself
    av = lib.value_exprs(g, tr[0], tr[0].ast.value.args[0]) if \
        tr[0].ast.value.args else []
    ok_tr = bool(av) and all(core.is_name(x, vparam) for x in av)
  report.check(
      ok_tr, rule, f.qualname, 'transform', f.node,
      'value = self.transform_fn(value) when a transform is set')
  ttests = [n for n in g.nodes if n.kind == 'test' and
            dotted(n.ast) == 'self.transform_fn']
  stores = [n for n in g.nodes if store_pred(n)]
  report.expect_instances(rule, len(stores), 1, 'value stores in ' + qual)
  for s in (stores if do_store else []):
    ok = all(g.dominated_by(s, lambda n, _t=t: n is _t) for t in ttests) and \
        bool(ttests)
    rhs = s.ast.value
    # what is stored: the transform result when a transform is set (no path
    # from the true branch reaches the store around the transform), else the
    # caller's value
    vals = lib.value_exprs(g, s, rhs) if isinstance(rhs, ast.Name) else [rhs]
    ok_vals = bool(tr) and all(
        (v is tr[0].ast.value) or core.is_name(v, vparam) for v in vals) and \
        any(v is tr[0].ast.value for v in vals)
    if ok_vals:
      for t in ttests:
        first = t.succ('T')
        around = [first] + g.reach([first], avoid=lambda n: n is tr[0],
                                   avoid_edge=lambda a_, l, b_: l == 'exc')
        if first is not tr[0] and any(x is s for x in around):
          ok_vals = False
    report.check(ok and ok_vals, rule, f.qualname,
                 'store-after-transform', s.ast,
                 'the stored value is the (possibly transformed) `value`, '
                 'stored after the transform step',
                 'the value is stored before / without the transform step')
    # every normal path from entry passes the store (no path skips it),
    # except paths that raise
    reach = g.reach([g.entry], avoid=lambda n, _s=s: n is _s,
                    avoid_edge=lambda a, l, b: l == 'exc')
    report.check(not any(n is g.exit for n in reach), rule, f.qualname,
                 'store-on-every-path', s.ast,
                 'every non-raising path stores the assigned value (the last '
                 'assignment always wins)',
                 'a non-raising path returns without storing the assigned '
                 'value: an assignment can be silently dropped')
  caches = [n for n in g.nodes if cache_pred(n)]
  if do_cache and stores and caches and qual == 'MeasuredValue.set':
    # paired write: no path stores the value without refreshing the cache
    no_exc = lambda a, l, b: l == 'exc'
    is_cache = lambda n: any(n is c for c in caches)
    pre = [g.entry] + g.reach([g.entry], avoid=is_cache, avoid_edge=no_exc)
    bad = False
    for st in stores:
      if any(st is x for x in pre):
        post = g.reach([st], avoid=is_cache, avoid_edge=no_exc)
        if any(x is g.exit for x in post):
          bad = True
    report.check(not bad, cache_rule, f.qualname, 'store-without-cache',
                 stores[0].ast,
                 'every path that stores a value also refreshes its cached '
                 'base-type rendering',
                 'a path stores the new value but keeps the cached rendering '
                 'of the previous one (e.g. the cache is only refreshed when '
                 'value != stored_value: 1 then True, 2 then 2.0 show the old '
                 'rendering)')
  for c in (caches if do_cache else []):
    ok = all(g.dominated_by(c, lambda n, _t=t: n is _t) for t in ttests) and \
        bool(ttests)
    report.check(
        ok, cache_rule, f.qualname, 'cache-after-transform', c.ast,
        'the cached base-type rendering is computed from the transformed '
        'value',
        'the base-type cache is filled before the transform is applied: the '
        'serialized value is the untransformed one while the in-memory '
        'value (and the outcome) use the transformed one')
  return f, g, stores, caches


def r3_stored_value(report, repo, only_cache=False, cache_rule='C10-R3'):
  rule = (cache_rule + 's') if only_cache else 'C06-R3'
  cr = cache_rule
  if not only_cache:
    report.rule(rule, 'T-RDEF/T-MUST: MeasuredValue.set and '
                'DimensionedMeasuredValue.__setitem__ store the transform '
                'result, after the transform, on every non-raising path')
  else:
    report.rule(cr, 'T-RDEF: the cached base-type value is computed from the '
                'same (post-transform) definition as the stored value; an '
                'override invalidates the incremental cache')
  kw = dict(do_store=not only_cache, do_cache=only_cache)

  def mv_store(n):
    return _assigns(n, 'self.stored_value')

  def mv_cache(n):
    return _assigns(n, 'self._cached_value')

  f, g, stores, caches = _store_rules(report, repo, rule, 'MeasuredValue.set',
                                      mv_store, mv_cache, cr, **kw)
  if only_cache and not caches:
    report.violation(cr, f.qualname, 'cache-missing', f.node,
                     'MeasuredValue.set no longer fills _cached_value: '
                     'basetype_value() serves a stale or missing rendering')
  for c in (caches if only_cache else []):
    v = c.ast.value
    ok = isinstance(v, ast.Call) and last_attr(v) == 'convert_to_base_types' \
        and len(v.args) == 1 and bool(stores)
    if ok:
      # the rendering is of the very definitions that are stored
      def _defs(node, e):
        if not isinstance(e, ast.Name):
          return {ast.dump(e)}
        return {('name', x.id) if isinstance(x, ast.Name) else id(x)
                for x in lib.value_exprs(g, node, e)}
      ok = _defs(c, v.args[0]) == _defs(stores[0], stores[0].ast.value) and \
          isinstance(v.args[0], ast.Name)
    report.check(ok, cr, f.qualname, 'cache-of-value', c.ast,
                 '_cached_value = convert_to_base_types(value)')
  sets = [n for n in g.nodes if _assigns(n, 'self.is_value_set')]
  report.check(
      len(sets) == 1 and isinstance(sets[0].ast.value, ast.Constant) and
      sets[0].ast.value.value is True, rule, f.qualname, 'is_value_set', f.node,
      'is_value_set becomes True with the store')

  def dm_store(n):
    return n.kind == 'stmt' and isinstance(n.ast, ast.Assign) and any(
        isinstance(t, ast.Subscript) and dotted(t.value) == 'self.value_dict'
        for t in n.ast.targets)

  def dm_cache(n):
    if n.kind != 'stmt':
      return False
    for sub in n.subnodes():
      if isinstance(sub, ast.Call) and last_attr(sub) in ('append', 'extend',
                                                          'insert') and \
          dotted(sub.func.value) == 'self._cached_basetype_values':
        return True
    return False

  f, g, stores, caches = _store_rules(
      report, repo, rule, 'DimensionedMeasuredValue.__setitem__', dm_store,
      dm_cache, cr, **kw)
  if only_cache and not caches:
    report.violation(cr, f.qualname, 'cache-missing', f.node,
                     'DimensionedMeasuredValue.__setitem__ no longer appends '
                     'to (or invalidates) the base-type cache')
  for s in stores:
    t = [t for t in s.ast.targets if isinstance(t, ast.Subscript)][0]
    # the key: the coordinates parameter, or its 1-tuple for one dimension
    cparam = lib.param_names(f.node)[1]
    kv = lib.value_exprs(g, s, t.slice) if isinstance(t.slice, ast.Name) \
        else [t.slice]
    cnames = lib.copy_class(f, cparam)  # the parameter and plain copies of it
    okk = bool(kv) and all(
        (isinstance(x, ast.Name) and x.id in cnames) or (
            isinstance(x, ast.Tuple) and len(x.elts) == 1 and isinstance(
                x.elts[0], ast.Name) and x.elts[0].id in cnames) for x in kv)
    report.check(okk, rule, f.qualname,
                 'store-key', s.ast, 'value stored under its coordinates')
  if not only_cache:
    return
  # override invalidates the cache
  inval = [n for n in g.nodes if _assigns(n, 'self._cached_basetype_values') and
           isinstance(n.ast.value, ast.Constant) and n.ast.value.value is None]
  ok = bool(inval) and all(
      g.dominated_by_edge(n, lambda s, l, d: s.kind == 'test' and l == 'T' and
                          isinstance(s.ast, ast.Compare) and
                          isinstance(s.ast.ops[0], ast.In) and
                          dotted(s.ast.comparators[0]) == 'self.value_dict')
      for n in inval)
  report.check(ok, cr, f.qualname, 'override-invalidates', f.node,
               'overriding a coordinate invalidates the incremental cache')
  for c in caches:
    ok = g.dominated_by_edge(
        c, lambda s, l, d: s.kind == 'test' and l == 'F' and isinstance(
            s.ast, ast.Compare) and isinstance(s.ast.ops[0], ast.In) and
        dotted(s.ast.comparators[0]) == 'self.value_dict')
    report.check(ok, cr, f.qualname, 'append-only-new', c.ast,
                 'the cache is appended to only for a new coordinate')
  bv = repo.func(ME, 'DimensionedMeasuredValue.basetype_value')
  ok = any(isinstance(n, ast.Compare) and
           dotted(n.left) == 'self._cached_basetype_values' and isinstance(
               n.comparators[0], ast.Constant) and n.comparators[0].value is None
           for n in walk_no_nested(bv.node)) and any(
               dotted(n) == 'self.value_dict.items'
               for n in walk_no_nested(bv.node))
  report.check(ok, cr, bv.qualname, 'rebuild', bv.node,
               'an invalidated cache is rebuilt from value_dict')


def r4_rejections(report, repo):
  rule = 'C06-R4'
  report.rule(rule, 'T-DOM: undeclared name / dimensioned-without-coordinates '
              'raise before measured_value.set; wrong coordinate count raises '
              'before any write to value_dict / cache')
  f = repo.func(ME, 'Collection.__setitem__')
  g = lib.cfg(f)
  sets = lib.nodes_with_call(g, attr='set')
  report.expect_instances(rule, len(sets), 1, 'measured_value.set calls')
  pname = lib.param_names(f.node)[1]

  def declared_test(s):
    """`<name> not in self._measurements` / `<name> in self._measurements`"""
    return s.kind == 'test' and isinstance(s.ast, ast.Compare) and \
        len(s.ast.ops) == 1 and isinstance(s.ast.ops[0], (ast.In, ast.NotIn)) \
        and dotted(s.ast.left) == pname and \
        dotted(s.ast.comparators[0]) == 'self._measurements'
  for n, c in sets:
    # (the membership helper, if any, is inlined by the loader)
    ok1 = g.dominated_by_edge(
        n, lambda s, l, d: declared_test(s) and
        (l == 'T') == isinstance(s.ast.ops[0], ast.In))
    ok2 = g.dominated_by_edge(
        n, lambda s, l, d: s.kind == 'test' and l == 'F' and
        (dotted(s.ast) or '').endswith('.dimensions'))
    report.check(ok1, rule, f.qualname, 'declared-check', c,
                 'set() only after the declared-name check',
                 'a value can be stored before the name was checked against '
                 'the declared measurements')
    report.check(ok2, rule, f.qualname, 'dimensions-check', c,
                 'set() only for non-dimensioned measurements',
                 'a dimensioned measurement can be assigned without '
                 'coordinates')
  ok = any(declared_test(n) and lib.branch_must_raise(
      g, n, 'F' if isinstance(n.ast.ops[0], ast.In) else 'T')
           for n in g.nodes)
  report.check(ok, rule, f.qualname, 'raises', f.node,
               'an undeclared name raises')
  d = repo.func(ME, 'DimensionedMeasuredValue.__setitem__')
  gd = lib.cfg(d)
  writes = [n for n in gd.nodes if n.kind == 'stmt' and (
      any(isinstance(t, ast.Subscript) and dotted(t.value) == 'self.value_dict'
          for t in core.assigned_targets(n.ast) if n.ast is not None) or
      _assigns(n, 'self._cached_basetype_values') or any(
          isinstance(s, ast.Call) and last_attr(s) in core.MUTATORS and
          dotted(s.func.value) in ('self._cached_basetype_values',
                                   'self.value_dict')
          for s in n.subnodes()))]
  report.expect_instances(rule, len(writes), 3, 'writes in __setitem__')

  def len_guard(s, l, d_):
    return s.kind == 'test' and l == 'F' and isinstance(s.ast, ast.Compare) \
        and isinstance(s.ast.ops[0], ast.NotEq) and \
        'self.num_dimensions' in [dotted(s.ast.left),
                                  dotted(s.ast.comparators[0])]

  for w in writes:
    report.check(gd.dominated_by_edge(w, len_guard), rule, d.qualname,
                 'coordinate-count', w.ast,
                 'write only after the coordinate-count check passed',
                 'value_dict / cache can be written with a wrong number of '
                 'coordinates')
  gt = [n for n in gd.nodes if n.kind == 'test' and len_guard(n, 'F', None)]
  ok = bool(gt) and all(lib.branch_must_raise(gd, n, 'T') for n in gt)
  report.check(ok, rule, d.qualname, 'raises', d.node,
               'wrong coordinate count raises InvalidDimensionsError')
  # the count is taken of the caller's coordinates, not of a rebound /
  # wrapped key: the _coordinates_len argument is the parameter itself and no
  # assignment to it can reach the count.
  params = lib.param_names(d.node)
  lens = [(n, c) for n, c in lib.nodes_with_call(gd, name='_coordinates_len')]
  report.expect_instances(rule, len(lens), 1, '_coordinates_len calls')
  for n, c in lens:
    arg = c.args[0] if c.args else None
    # everything that reaches the count is the caller's parameter itself
    # (possibly handed through locals), never a rebound / wrapped value
    vals = lib.value_exprs(gd, n, arg) if arg is not None else []
    ok = bool(vals) and all(isinstance(v, ast.Name) and v.id in params[1:]
                            for v in vals)
    report.check(ok, rule, d.qualname, 'count-of-raw-coordinates', c,
                 'the coordinate count is taken of the caller-supplied '
                 'coordinates', 'the coordinate count is taken after the '
                 'coordinates were rebound/wrapped, so a wrong-length key can '
                 'pass the check')


def r5b_keep_terminal(report, repo, rule='C06-R5'):
  """A validation error at the end of a phase never replaces an already
  terminal phase result (exception, TIMEOUT, STOP): the first terminal event
  decides."""
  f = repo.func(TS, 'PhaseState._finalize_measurements')
  cands = [f]
  for c in core.calls_in(f.node):
    cn = call_name(c) or ''
    if cn.startswith('self.') and repo.has_func(TS, 'PhaseState.' + cn[5:]):
      cands.append(repo.func(TS, 'PhaseState.' + cn[5:]))
  n = 0
  for cf in cands:
    g = lib.cfg(cf)
    for node in g.nodes:
      if node.kind != 'stmt' or not isinstance(node.ast, ast.Assign):
        continue
      if not any((dotted(t) or '').endswith('phase_record.result')
                 for t in node.ast.targets):
        continue
      n += 1
      ok = g.dominated_by_edge(
          node, lambda s, l, d: s.kind == 'test' and l == 'F' and
          (dotted(s.ast) or '').endswith('result.is_terminal'))
      report.check(ok, rule, cf.qualname, 'keeps-terminal-result', node.ast,
                   'the phase result is replaced only when it is not terminal',
                   'the phase result can be replaced by a validation error '
                   'although it is already terminal (e.g. TIMEOUT or STOP): '
                   'the run reports ERROR instead of the first terminal event')
  report.expect_instances(rule, n, 1, 'phase result replacements')


def r5_finalize_measurements(report, repo):
  r5b_keep_terminal(report, repo)
  rule = 'C06-R5'
  report.rule(rule, 'T-MUST/T-SHIELD/T-WHO: _finalize_measurements visits '
              'every measurement, validates each PARTIALLY_SET one inside its '
              'own try/except, converts an exception into the phase result '
              'unless already terminal; PARTIALLY_SET written only for '
              'dimensioned measurements in notify_value_set')
  f = repo.func(TS, 'PhaseState._finalize_measurements')
  # the function itself plus helpers of the same class it calls (one level)
  cands = [f]
  for c in core.calls_in(f.node):
    cn = call_name(c) or ''
    if cn.startswith('self.') and repo.has_func(TS, 'PhaseState.' + cn[5:]):
      cands.append(repo.func(TS, 'PhaseState.' + cn[5:]))
  loops = []
  vals = []
  for cf in cands:
    for n in walk_no_nested(cf.node):
      if isinstance(n, ast.For) and isinstance(n.iter, ast.Call) and \
          dotted(n.iter.func) == 'self.measurements.values':
        loops.append((cf, n))
    for c in core.calls_in(cf.node, attr='validate'):
      vals.append((cf, c))
  report.expect_instances(rule, len(loops), 1, 'measurement loops')
  report.expect_instances(rule, len(vals), 1, 'validate() calls')
  for cf, lp in loops:
    bad = [n for n in walk_no_nested(lp)
           if isinstance(n, (ast.Break, ast.Return))]
    report.check(not bad, rule, cf.qualname, 'loop-not-left', lp,
                 'measurement loop over self.measurements.values() has no '
                 'break/return')
  for cf, c in vals:
    g = lib.cfg(cf)
    lps = [lp for _, lp in loops if any(p is lp for p in core.parents(c))]
    inside_loop = bool(lps)
    sh = lib.shielded_by_try(c, ('Exception', 'BaseException', None))
    try_in_loop = sh is not None and inside_loop and any(
        p is lps[0] for p in core.parents(sh[0]))
    report.check(
        inside_loop and try_in_loop, rule, cf.qualname,
        'shield-per-measurement', c,
        'each validate() call has its own try/except inside the loop',
        'validate() is not shielded per measurement inside the loop: one '
        'raising validator stops the loop and later dimensioned measurements '
        'leave the phase PARTIALLY_SET')
    if inside_loop:
      ok = all(g.dominated_by_edge(
          n, lambda s, l, d: s.kind == 'test' and isinstance(
              s.ast, ast.Compare) and len(s.ast.ops) == 1 and ends_with(
                  dotted(s.ast.comparators[0]) or '', 'Outcome.PARTIALLY_SET')
          and (l == 'T') == isinstance(s.ast.ops[0], (ast.Is, ast.Eq)))
               for n in g.nodes_of(c))
      report.check(ok, rule, cf.qualname, 'only-partially-set', c,
                   'end-of-phase validation targets PARTIALLY_SET measurements')
    if sh is not None:
      h = sh[1]
      stores = [s for s in walk_no_nested(h) if isinstance(s, ast.Assign) and
                any((dotted(t) or '').endswith('result') for t in s.targets)
                and any(isinstance(x, ast.Call) and
                        last_attr(x) == 'ExceptionInfo'
                        for x in ast.walk(s.value))]
      report.check(bool(stores) and lib.handler_swallows(h), rule, cf.qualname,
                   'exception-becomes-result', h,
                   'a validation error becomes the phase result (ERROR) and '
                   'the loop continues')
  fin = [n for n in walk_no_nested(f.node) if isinstance(n, ast.Assign) and
         any(dotted(t) == 'self.phase_record.measurements' for t in n.targets)]
  report.check(len(fin) == 1 and dotted(fin[0].value) == 'self.measurements',
               rule, f.qualname, 'record-measurements', f.node,
               'the validated measurements are put on the phase record')
  # who writes PARTIALLY_SET
  n = 0
  for m, node in repo.all_nodes(ast.Assign):
    if ends_with(dotted(node.value) or '', 'Outcome.PARTIALLY_SET'):
      n += 1
      owner = core.owner_qualname(node)
      fi = repo.func(m.relpath, owner) if repo.has_func(m.relpath, owner) else None
      ok = owner == 'Measurement.notify_value_set' and fi is not None
      if ok:
        gg = lib.cfg(fi)
        ok = all(gg.dominated_by_edge(
            x, lambda s, l, d: s.kind == 'test' and l == 'T' and
            dotted(s.ast) == 'self.dimensions') for x in gg.nodes_of(node))
      report.check(ok, rule, owner, node, node,
                   'PARTIALLY_SET assigned only in notify_value_set under '
                   '`if self.dimensions`')
  report.expect_instances(rule, n, 1, 'PARTIALLY_SET writers')


def r6_conditional_validators(report, repo):
  rule = 'C06-R6'
  report.rule(rule, 'T-DOM: from_descriptor attaches cv.validator iff '
              'diag_store.has_diagnosis_result(cv.result), on the deep copy')
  f = repo.func(TS, 'PhaseState.from_descriptor')
  g = lib.cfg(f)
  ws = lib.nodes_with_call(g, attr='with_validator')
  report.expect_instances(rule, len(ws), 1, 'with_validator calls')
  for n, c in ws:
    # the loop variable ranging over the conditional validators
    cvl = [p for p in core.parents(c) if isinstance(p, ast.For) and
           (dotted(p.iter) or '').endswith('conditional_validators')]
    cv = dotted(cvl[0].target) if cvl else 'cv'
    ok = g.dominated_by_edge(
        n, lambda s, l, d: s.kind == 'test' and l == 'T' and
        last_attr(s.ast) == 'has_diagnosis_result' and isinstance(
            s.ast, ast.Call) and dotted(s.ast.args[0]) == cv + '.result')
    report.check(ok and dotted(c.args[0]) == cv + '.validator', rule, f.qualname,
                 'conditional', c,
                 'cv.validator attached only when its diagnosis result exists',
                 'a conditional validator is attached without (or with the '
                 'wrong) diagnosis-result test')
    recv = c.func.value
    loop = [p for p in core.parents(c) if isinstance(p, ast.For) and
            dotted(p.target) == dotted(recv)]
    ok = bool(loop)
    if ok:
      src = dotted(loop[0].iter)
      defs = lib.resolve_local(f, src) if src else []
      ok = bool(defs) and all(any(
          isinstance(x, ast.Call) and call_name(x) == 'copy.deepcopy'
          for x in ast.walk(d)) for d in defs)
    report.check(ok, rule, f.qualname, 'on-copy', c,
                 'validators are attached to the deep copy, not to the '
                 'descriptor\'s measurement',
                 'conditional validators are appended to the shared '
                 'descriptor measurement (accumulates across runs)')
  loops = [n for n in walk_no_nested(f.node) if isinstance(n, ast.For) and
           dotted(n.iter) and dotted(n.iter).endswith('conditional_validators')]
  report.check(len(loops) == 1, rule, f.qualname, 'all-cvs', f.node,
               'every conditional validator is considered')


def r7_measurements_pass(report, repo, rule='C06-R7'):
  report.rule(rule, 'T-DTABLE: _measurements_pass, per measurement examined: '
              'accepted iff its outcome is PASS, or UNSET with '
              'CONF.allow_unset_measurements; True iff every measurement of '
              'the phase is accepted (the marginal flag: C05-R1)')
  f = repo.func(TS, 'PhaseState._measurements_pass')

  def members_on_path(coll, steps):
    """Outcome names in the collection tested, as built on this path."""
    if isinstance(coll, (ast.Set, ast.Tuple, ast.List)):
      return [(dotted(e) or '?').split('.')[-1] for e in coll.elts]
    if not isinstance(coll, ast.Name):
      return None
    for j in range(len(steps) - 1, -1, -1):
      s_ = steps[j][0].ast
      if steps[j][0].kind == 'stmt' and isinstance(s_, ast.Assign) and \
          core.is_name(s_.targets[0], coll.id) and isinstance(
              s_.value, (ast.Set, ast.Tuple, ast.List)):
        members = [(dotted(e) or '?').split('.')[-1] for e in s_.value.elts]
        for k in range(j + 1, len(steps)):
          for c_ in [x for x in steps[k][0].subnodes()
                     if isinstance(x, ast.Call)]:
            if last_attr(c_) == 'add' and dotted(c_.func.value) == coll.id \
                and c_.args:
              members.append((dotted(c_.args[0]) or '?').split('.')[-1])
        return members
    return None

  def classify(expr, steps):
    v = classify.valuation
    if isinstance(expr, ast.Call) and call_name(expr) == 'bool' and \
        len(expr.args) == 1:
      expr = expr.args[0]
    if dotted(expr) == 'CONF.allow_unset_measurements':
      return 'conf'
    path = cfgm.Path(steps, None)
    if isinstance(expr, ast.Compare) and len(expr.ops) == 1:
      left = cfgm.path_dotted(path, expr.left) or ''
      op, r = expr.ops[0], expr.comparators[0]
      if left.endswith('.outcome'):
        mem = (dotted(r) or '').split('.')[-1]
        if isinstance(op, (ast.Eq, ast.Is, ast.NotEq, ast.IsNot)) and \
            mem in ('PASS', 'UNSET'):
          k = 'is_pass' if mem == 'PASS' else 'is_unset'
          return k if isinstance(op, (ast.Eq, ast.Is)) else ('not', k)
        if isinstance(op, (ast.In, ast.NotIn)):
          members = members_on_path(r, steps)
          if members is None:
            return None
          inside = (v['is_pass'] and 'PASS' in members) or (
              v['is_unset'] and 'UNSET' in members) or (
                  not v['is_pass'] and not v['is_unset'] and
                  bool(set(members) - {'PASS', 'UNSET'}))
          return inside if isinstance(op, ast.In) else not inside
    return None

  rows = set()

  def spec(v, p):
    if p.end != 'exit':
      return 'raises'
    r = p.last_return()
    if r is None or r.value is None:
      return 'returns nothing'
    if isinstance(r.value, ast.Constant):
      got = bool(r.value.value)
    else:
      got = lib.eval_expr(r.value, v, classify, p,
                          before_index=len(p.steps) - 1)
    iterated = any(l == 'iter' for n, l in p.steps if n.kind == 'for')
    want = True if not iterated else (
        v['is_pass'] or (v['is_unset'] and v['conf']))
    if iterated:
      rows.add(v['conf'])
    if got is None:
      return 'result not evaluable: %s' % norm(r.value)
    if got != want:
      return ('row: a phase whose measurements all have outcome %s is %s with '
              'allow_unset_measurements=%s' % (
                  'PASS' if v['is_pass'] else (
                      'UNSET' if v['is_unset'] else 'FAIL/PARTIALLY_SET'),
                  'accepted' if got else 'rejected', v['conf']))
    return None

  lib.decision_table(report, rule, f, ['conf', 'is_pass', 'is_unset'],
                     classify, spec,
                     lambda v: not (v['is_pass'] and v['is_unset']))
  report.check(rows == {True, False}, rule, f.qualname, 'unset-iff-conf',
               f.node, 'UNSET allowed only when CONF.allow_unset_measurements',
               'the per-measurement test is not reached for both settings of '
               'allow_unset_measurements')
  loops = [n for n in walk_no_nested(f.node) if isinstance(n, ast.For)]
  ok = len(loops) == 1 and isinstance(loops[0].iter, ast.Call) and \
      dotted(loops[0].iter.func) in (
          'self.phase_record.measurements.values',
          'self.phase_record.measurements.items', 'self.measurements.values',
          'self.measurements.items')
  report.check(ok, rule, f.qualname, 'all-measurements', f.node,
               'one loop over every measurement of the phase')
  if repo.has_func(TS, 'PhaseState._measurements_marginal'):
    m = repo.func(TS, 'PhaseState._measurements_marginal')
    qm = lib.quantifier_loops(lib.cfg(m))
    ok = len(qm) == 1 and qm[0]['kind'] == 'any' and len(
        qm[0]['conds']) == 1 and qm[0]['conds'][0][1] is True and dotted(
            qm[0]['conds'][0][0]) == (dotted(qm[0]['target']) or '') + \
        '.marginal'
    report.check(ok, rule, m.qualname, 'any-marginal', m.node,
                 '_measurements_marginal = any(meas.marginal ...)')


def r8_order(report, repo, rule='C06-R8'):
  report.rule(rule, 'T-ORDER: Collection.__setitem__: set -> notify_value_set; '
              'notify_value_set: dimensioned -> PARTIALLY_SET else validate(), '
              'then the notification callback')
  f = repo.func(ME, 'Collection.__setitem__')
  g = lib.cfg(f)
  sets = lib.nodes_with_call(g, attr='set')
  nots = lib.nodes_with_call(g, attr='notify_value_set')
  ok = len(sets) == 1 and len(nots) == 1 and g.dominated_by(
      nots[0][0], lambda n: n is sets[0][0]) and g.must_pass(
          sets[0][0], g.is_normal_exit, lambda n: n is nots[0][0],
          avoid_edge=lambda a, l, b: l == 'exc')
  report.check(ok, rule, f.qualname, 'set-then-notify', f.node,
               'value stored, then notify_value_set() (validation) on every '
               'normal path')
  nv = repo.func(ME, 'Measurement.notify_value_set')

  def classify(expr, steps):
    d = dotted(expr)
    if d == 'self.dimensions':
      return 'dims'
    if d == 'self._notification_cb':
      return 'cb'
    return None

  def spec(v, p):
    if p.end != 'exit':
      return None
    val = p.calls(name='self.validate')
    ps = [n for n, _ in p.steps if n.kind == 'stmt' and isinstance(
        n.ast, ast.Assign) and ends_with(dotted(n.ast.value) or '',
                                         'Outcome.PARTIALLY_SET')]
    cb = p.calls(name='self._notification_cb')
    if v['dims'] and (val or len(ps) != 1):
      return 'dimensioned-row: must become PARTIALLY_SET without validating'
    if not v['dims'] and (len(val) != 1 or ps):
      return 'scalar-row: must validate immediately'
    if bool(cb) != v['cb']:
      return 'callback-row: notification callback not invoked iff set'
    return None

  lib.decision_table(report, rule, nv, ['dims', 'cb'], classify, spec)


def r9_value_holders(report, repo):
  rule = 'C06-R9'
  report.rule(rule, 'T-ARGS: every value holder constructed in '
              'core/measurements.py receives the measurement\'s transform_fn; '
              'derived copies (with_args) do not replace the holder')
  sites = []
  for fi in repo.module(ME).all_funcs():
    for c in core.calls_in(fi.node):
      if call_name(c) in ('MeasuredValue', 'DimensionedMeasuredValue'):
        sites.append((fi, c))
  report.expect_instances(rule, len(sites), 2, 'value-holder constructions')
  for fi, c in sites:
    kw = {k.arg: k.value for k in c.keywords}
    ok = dotted(kw.get('transform_fn')) in ('self.transform_fn',
                                            'self._transform_fn')
    report.check(ok, rule, fi.qualname, 'holder-gets-transform', c,
                 'value holder built with the measurement\'s transform_fn',
                 'a value holder is built without the declared transform: '
                 'later stores keep the raw value')
  wa = repo.func(ME, 'Measurement.with_args')
  for c in core.calls_in(wa.node):
    if call_name(c) in ('data.attr_copy', 'attr_copy'):
      bad = [k.arg for k in c.keywords
             if k.arg in ('measured_value', 'transform_fn', 'dimensions')
             or k.arg is None]
      report.check(not bad, rule, wa.qualname, 'copy-keeps-holder', c,
                   'with_args copies holder/transform unchanged',
                   'with_args overrides %s of the copy' % bad)


def run(report, repo):
  report.guard(r9_value_holders, report, repo)
  report.guard(r1_validate, report, repo)
  report.guard(r2_validated_value, report, repo)
  report.guard(r3_stored_value, report, repo)
  report.guard(r4_rejections, report, repo)
  report.guard(r5_finalize_measurements, report, repo)
  report.guard(r6_conditional_validators, report, repo)
  report.guard(r7_measurements_pass, report, repo)
  report.guard(r8_order, report, repo)
  from sa.rules import extra4, c02  # pylint: disable=g-import-not-at-top
  report.guard(extra4.with_args_keeps_validators, report, repo, 'C06-R10')
  report.guard(r3_stored_value, report, repo, only_cache=True, cache_rule='C06-R3c')
  report.guard(c02.r7_diagnoses, report, repo, rule='C06-R11')
  from sa.rules import extra5  # pylint: disable=g-import-not-at-top
  report.guard(extra5.finalize_examines_every_measurement, report, repo, 'C06-R9')
  from sa.rules import extra5 as _e5  # pylint: disable=g-import-not-at-top
  report.guard(_e5.cached_value_refreshed_when_set, report, repo, 'C06-R10')
  from sa.rules import extra5 as _e6c  # pylint: disable=g-import-not-at-top
  report.guard(_e6c.with_validator_always_appends, report, repo, 'C06-R11')
  report.guard(_e6c.callback_clearing_by_dimensions, report, repo, 'C06-R12')
