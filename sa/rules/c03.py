"""C03 - PhaseGroup teardown always runs once the group was entered."""

import ast

from sa import cfg as cfgm
from sa import core, lib
from sa.core import call_name, dotted, last_attr, norm, walk_no_nested
from sa.lib import ends_with

DECIDES = (
    '_execute_phase_group as an exhaustive decision table: setup gate, main '
    'then teardown exactly once on every non-exceptional path, the in-teardown '
    'flag handed to the teardown sequence (runs for real unless the subtest '
    'had failed before the group was entered in a non-teardown context), '
    'result = _more_critical(main, teardown); teardown sequence ignores the '
    'first abort, iterates every node inside the teardown lock; the first '
    'abort cannot cancel a running teardown (non-blocking lock hand-shake, '
    'reset before release, release in finally); test teardown (plug tearDown '
    'first) in the finally of the executor thread.')
DOES_NOT_DECIDE = (
    'arrival of an abort between two arbitrary bytecodes (schedule quantifier): '
    'only that the code consults the right flag under the right lock; a Python '
    'exception escaping a nested handler (no try/finally is demanded around '
    'main; executor-internal errors are covered by C01-R6/R7).')

TE = 'openhtf/core/test_executor.py'


def group_table(report, repo, rule):
  report.rule(rule, 'T-DTABLE over _execute_phase_group: atoms {in_teardown, '
              'record, failed-before, failed-after-setup, has setup/main/'
              'teardown, setup non-CONTINUE}; spec from docs/event_sequence.md')
  f = repo.func(TE, 'TestExecutor._execute_phase_group')
  pn = lib.param_names(f.node)  # self, group, subtest_rec, in_teardown
  grp, rec = pn[1], pn[2]

  def seq_kind(call):
    if call_name(call) == 'self._execute_sequence' and call.args:
      d = dotted(call.args[0]) or ''
      for k in ('setup', 'main', 'teardown'):
        if d == '%s.%s' % (grp, k):
          return k
    return None

  def passed_setup(steps):
    for n, _ in steps:
      for sub in n.subnodes():
        if isinstance(sub, ast.Call) and seq_kind(sub) == 'setup':
          return True
    return False

  def classify(expr, steps):
    d = dotted(expr)
    if d == pn[3]:
      return 'in_teardown'
    if d == rec:
      return 'rec'
    if d == rec + '.is_fail':
      return 'fail_post' if passed_setup(steps) else 'fail_pre'
    if d in ('%s.setup' % grp, '%s.main' % grp, '%s.teardown' % grp):
      return 'has_' + d.split('.')[1]
    if isinstance(expr, ast.Compare) and len(expr.ops) == 1:
      l, r = expr.left, expr.comparators[0]
      if dotted(l) == rec and isinstance(r, ast.Constant) and r.value is None:
        return 'rec' if isinstance(expr.ops[0], ast.IsNot) else ('not', 'rec')
      if ends_with(dotted(r) or '', '_ExecutorReturn.CONTINUE'):
        src = cfgm.Path(steps, None).value_of(l.id) if isinstance(
            l, ast.Name) else l
        if isinstance(src, ast.Call) and seq_kind(src) == 'setup':
          if isinstance(expr.ops[0], (ast.NotEq, ast.IsNot)):
            return 'setup_nonc'
          return ('not', 'setup_nonc')
    return None

  atoms = ['in_teardown', 'rec', 'fail_pre', 'fail_post', 'has_setup',
           'has_main', 'has_teardown', 'setup_nonc']

  def consistent(v):
    if (v['fail_pre'] or v['fail_post']) and not v['rec']:
      return False
    if v['fail_pre'] and not v['fail_post']:
      return False
    if v['setup_nonc'] and not v['has_setup']:
      return False
    if not v['has_setup'] and v['fail_post'] != v['fail_pre']:
      return False
    return True

  def spec(v, p):
    if p.end != 'exit':
      return None
    order = []
    tcall = None
    for n, _ in p.steps:
      for sub in n.subnodes():
        if isinstance(sub, ast.Call) and seq_kind(sub):
          k = seq_kind(sub)
          order.append(k)
          if k == 'teardown':
            tcall = (sub, n)
          elif len(sub.args) < 3 or dotted(sub.args[1]) != rec or \
              dotted(sub.args[2]) != pn[3]:
            return ('%s sequence not run with (sequence, subtest_rec, '
                    'in_teardown) unchanged' % k)
    rv = p.last_return().value if p.last_return() is not None else None
    if v['has_setup'] and v['setup_nonc']:
      if order != ['setup']:
        return ('setup-gate: setup did not complete, yet sequences %s ran '
                '(neither main nor teardown may run)' % order)
      src = cfgm.path_resolve(p, rv, before_index=len(p.steps) - 1)
      if not (isinstance(src, ast.Call) and seq_kind(src) == 'setup'):
        return 'setup-gate: must return the setup result'
      return None
    want = (['setup'] if v['has_setup'] else []) + \
        (['main'] if v['has_main'] else []) + \
        (['teardown'] if v['has_teardown'] else [])
    if order != want:
      return ('entered group must run %s in this order exactly once, code '
              'runs %s' % (want, order))
    if not (isinstance(rv, ast.Call) and call_name(rv) == '_more_critical' and
            len(rv.args) == 2):
      return 'group result is not _more_critical(main result, teardown result)'
    srcs = []
    for a in rv.args:
      s = cfgm.path_resolve(p, a, before_index=len(p.steps) - 1)
      if isinstance(s, ast.Call) and seq_kind(s):
        srcs.append(seq_kind(s))
      elif ends_with(dotted(s) or '', '_ExecutorReturn.CONTINUE'):
        srcs.append('CONTINUE')
      else:
        srcs.append('?')
    want_srcs = sorted(['main' if v['has_main'] else 'CONTINUE',
                        'teardown' if v['has_teardown'] else 'CONTINUE'])
    if sorted(srcs) != want_srcs:
      return ('group result combines %s, expected %s' % (srcs, want_srcs))
    if tcall is not None:
      sub, node = tcall
      if len(sub.args) < 3 or dotted(sub.args[1]) != rec:
        return 'teardown sequence not given the subtest record'
      idx = p.index_of(lambda x: x is node)
      flag = lib.eval_expr(sub.args[2], v, classify, p, before_index=idx)
      failed_at_entry = v['fail_post'] if v['has_setup'] else v['fail_pre']
      skip = (not v['in_teardown']) and v['rec'] and failed_at_entry
      if flag is None:
        return 'teardown in_teardown flag could not be evaluated: %s' % norm(
            sub.args[2])
      if flag != (not skip):
        return ('teardown-flag: teardown sequence run with in_teardown=%s, '
                'expected %s (teardown nodes are %s)' %
                (flag, not skip,
                 'recorded as SKIP although the group was entered' if not flag
                 else 'run although the subtest had failed before entry'))
    return None

  lib.decision_table(report, rule, f, atoms, classify, spec, consistent)


def r3_teardown_sequence(report, repo):
  rule = 'C03-R3'
  report.rule(rule, 'forbidden read + T-REGION: _execute_teardown_sequence '
              'reads only _full_abort (never _abort) and the node loop lies '
              'inside `with self._teardown_phases_lock`')
  f = repo.func(TE, 'TestExecutor._execute_teardown_sequence')
  bad = [n for n in walk_no_nested(f.node)
         if isinstance(n, ast.Attribute) and dotted(n) == 'self._abort']
  report.check(not bad, rule, f.qualname, 'reads self._abort',
               bad[0] if bad else f.node,
               'teardown sequence does not consult the first-abort flag',
               'teardown sequence consults self._abort: a single abort would '
               'cut the teardown short')
  loops = [n for n in walk_no_nested(f.node) if isinstance(n, ast.For)]
  report.expect_instances(rule, len(loops), 1, 'teardown loops')
  held = core.held_withs(loops[0])
  report.check('self._teardown_phases_lock' in held, rule, f.qualname,
               'loop-in-lock', loops[0],
               'teardown loop inside `with self._teardown_phases_lock`',
               'teardown loop is not inside the teardown lock: the first abort '
               'may cancel a running teardown phase')
  it = loops[0].iter
  report.check(ends_with(dotted(it) or '', 'nodes'), rule, f.qualname, it,
               loops[0], 'loop iterates all nodes of the sequence')
  init = repo.func(TE, 'TestExecutor.__init__')
  rl = [n for n in walk_no_nested(init.node) if isinstance(n, ast.Assign) and
        any(dotted(t) == 'self._teardown_phases_lock' for t in n.targets)]
  report.check(len(rl) == 1 and call_name(rl[0].value) == 'threading.RLock',
               rule, init.qualname, 'RLock', init.node,
               'teardown lock is reentrant (nested teardown sequences)')
  # _execute_sequence dispatches on in_teardown
  es = repo.func(TE, 'TestExecutor._execute_sequence')

  def classify(expr, steps):
    return 'in_teardown' if dotted(expr) == 'in_teardown' else None

  def spec(v, p):
    if p.end != 'exit':
      return None
    a = p.calls(name='self._execute_teardown_sequence')
    b = p.calls(name='self._execute_abortable_sequence')
    if v['in_teardown'] and (len(a), len(b)) != (1, 0):
      return 'in_teardown must use the teardown sequence executor'
    if not v['in_teardown'] and (len(a), len(b)) != (0, 1):
      return 'outside teardown must use the abortable sequence executor'
    c = (a or b)[0]
    if p.last_return().value is not c:
      return 'sequence result not returned'
    if [dotted(x) for x in c.args] != lib.param_names(es.node)[1:3]:
      return 'sequence executor not given (phase_sequence, subtest_rec)'
    return None

  lib.decision_table(report, rule, es, ['in_teardown'], classify, spec)


def r4_stop_phase_executor(report, repo, rule='C03-R4'):
  report.rule(rule, 'T-DTABLE/T-PAIR: _stop_phase_executor over {executor '
              'exists, forced, teardown lock obtained}: nothing without an '
              'executor; not forced and lock busy => return without stopping '
              '(a running teardown is never cancelled by the first abort); '
              'otherwise stop(timeout) then reset_stop(), inside a try whose '
              'finally releases the lock iff it was taken; force defaults to '
              'False')
  f = repo.func(TE, 'TestExecutor._stop_phase_executor')
  LOCK = 'self._teardown_phases_lock'
  a = f.node.args
  names = [x.arg for x in a.args]
  dflt = a.defaults[names.index('force') - (len(names) - len(a.defaults))] \
      if 'force' in names and a.defaults else None
  report.check(isinstance(dflt, ast.Constant) and dflt.value is False, rule,
               f.qualname, 'force-default', f.node,
               'force defaults to False (the first abort is not forced)',
               'force does not default to False: a single abort cancels '
               'running teardown phases')

  # the local alias of the executor
  pe = lib.local_from(f, lambda e: dotted(e) == 'self._phase_exec', 'phase_exec')

  def classify(expr, steps):
    d = dotted(expr)
    if d == 'force':
      return 'force'
    if d is not None and (d == pe or d == 'self._phase_exec'):
      return 'exists'
    if isinstance(expr, ast.Call) and call_name(expr) == LOCK + '.acquire':
      if expr.args and isinstance(expr.args[0], ast.Constant) and \
          expr.args[0].value is False:
        return 'locked'
    return None

  def spec(v, p):
    if p.end != 'exit':
      return None
    seq = []
    for n, _ in p.steps:
      for sub in n.subnodes():
        if isinstance(sub, ast.Call):
          cn = call_name(sub) or ''
          if cn == LOCK + '.acquire':
            nb = sub.args and isinstance(sub.args[0], ast.Constant) and \
                sub.args[0].value is False
            seq.append('try-acquire' if nb else 'BLOCKING-acquire')
          elif cn == LOCK + '.release':
            seq.append('release')
          elif last_attr(sub) == 'stop' and cn in (pe + '.stop',
                                                   'self._phase_exec.stop'):
            seq.append('stop')
          elif last_attr(sub) == 'reset_stop':
            seq.append('reset')
    if not v['exists']:
      want = []
    elif v['force']:
      want = ['stop', 'reset']
    elif v['locked']:
      want = ['try-acquire', 'stop', 'reset', 'release']
    else:
      want = ['try-acquire']
    if seq != want:
      return ('row(exists=%s force=%s lock-obtained=%s): does %s, expected %s'
              % (v['exists'], v['force'], v['locked'], seq, want))
    return None

  lib.decision_table(report, rule, f, ['exists', 'force', 'locked'], classify,
                     spec)
  g = lib.cfg(f)
  rels = lib.nodes_with_call(g, name=LOCK + '.release')
  for n, c in rels:
    fin = lib.in_handler_or_finally(c)
    report.check(fin is not None and fin[1] == 'finalbody', rule, f.qualname,
                 'release-in-finally', c,
                 'teardown lock released in a finally block (also when stop() '
                 'raises)')
    if fin is not None:
      stops = lib.nodes_with_call(g, attr='stop')
      resets = lib.nodes_with_call(g, attr='reset_stop')
      # the stop/reset pair this release belongs to is in its try body (a
      # forced path that never takes the lock has its own pair elsewhere)
      ok = any(core.in_block(c2, fin[0], 'body') for _, c2 in stops) and any(
          core.in_block(c2, fin[0], 'body') for _, c2 in resets)
      report.check(ok and bool(stops) and bool(resets), rule, f.qualname,
                   'reset-before-release', c,
                   'stop() and reset_stop() are in the try whose finally '
                   'releases the lock (the stop flag is cleared before a '
                   'teardown can start)',
                   'reset_stop() is not executed inside the try protected by '
                   'the release: teardown phases can start with the stop flag '
                   'still set')
  st = [c for _, c in lib.nodes_with_call(g, attr='stop')]
  ok = len(st) >= 1 and all(dotted(core.get_kw(x, 'timeout_s', 0)) ==
                            'CONF.cancel_timeout_s' for x in st)
  report.check(ok, rule, f.qualname, 'bounded-stop', f.node,
               'stop() waits at most CONF.cancel_timeout_s')


def r5_thread_proc(report, repo):
  rule = 'C03-R5'
  report.rule(rule, 'T-ORDER: in TestExecutor._thread_proc node execution and '
              'test diagnosers are in the try, _execute_test_teardown in its '
              'finally; plug tear-down is the first step of the teardown')
  f = repo.func(TE, 'TestExecutor._thread_proc')
  tds = core.calls_in(f.node, name='self._execute_test_teardown')
  report.expect_instances(rule, len(tds), 1, '_execute_test_teardown calls')
  tries = [n for n in walk_no_nested(f.node) if isinstance(n, ast.Try) and
           n.finalbody and any(core.in_block(c, n, 'finalbody') for c in tds)]
  if not tries:
    report.violation(rule, f.qualname, 'teardown-in-finally', tds[0],
                     '_execute_test_teardown is not in a finally block: an '
                     'error or early return skips group-independent teardown '
                     '(plug tear-down) and finalisation')
    return
  t = tries[0]
  in_fin = [c for c in tds if core.in_block(c, t, 'finalbody')]
  report.ok(rule, t, '_execute_test_teardown is called in the finally block')
  for nm in ('self._execute_node', 'self._execute_test_diagnoser',
             'self._initialize_plugs', 'self._execute_test_start'):
    cs = core.calls_in(f.node, name=nm)
    report.expect_instances(rule, len(cs), 1, nm + ' calls')
    for c in cs:
      report.check(core.in_block(c, t, 'body'), rule, f.qualname, nm, c,
                   '%s runs inside the try protected by the finally' % nm)
  others = [c for c in core.calls_in(f.node, name='self._execute_test_teardown')
            if not any(c is x for x in in_fin)]
  report.check(not others, rule, f.qualname, 'single-teardown', f.node,
               'test teardown called only from the finally (exactly once)')
  # ordering inside the try body: node execution before diagnosers
  g = lib.cfg(f)
  en = lib.nodes_with_call(g, name='self._execute_node')
  dg = lib.nodes_with_call(g, name='self._execute_test_diagnoser')
  ok = all(g.dominated_by(d, lambda n: any(n is e for e, _ in en))
           for d, _ in dg)
  report.check(ok, rule, f.qualname, 'diagnosers-after-nodes', f.node,
               'test diagnosers run after node execution')


def r8_with_context(report, repo):
  rule = 'C03-R8'
  PG = 'openhtf/core/phase_group.py'
  report.rule(rule, 'T-OWN: PhaseGroup.with_context builds its setup/teardown '
              'sequences once from the initialisers and every group made by '
              'the returned creator gets a copy of them (the creator never '
              'reads the caller\'s raw initialisers again)')
  f = repo.func(PG, 'PhaseGroup.with_context')
  params = [p for p in lib.param_names(f.node) if p != 'cls']
  inner = [n for n in f.node.body if isinstance(n, ast.FunctionDef)]
  report.expect_instances(rule, len(inner), 1, 'creator closures')
  built = {}
  for st in walk_no_nested(f.node):
    if isinstance(st, ast.Assign) and len(st.targets) == 1 and isinstance(
        st.targets[0], ast.Name):
      cs = [c for c in ast.walk(st.value) if isinstance(c, ast.Call) and
            last_attr(c) == 'PhaseSequence' and c.args and
            isinstance(c.args[0], ast.Name) and c.args[0].id in params]
      if cs:
        built[st.targets[0].id] = cs[0].args[0].id
  for w in inner:
    raw = sorted({n.id for n in ast.walk(w) if isinstance(n, ast.Name) and
                  n.id in params})
    report.check(not raw, rule, f.qualname, 'creator-reads-raw-initialiser', w,
                 'the creator does not read the raw initialisers',
                 'the group creator reads %s on every call: a one-shot '
                 'initialiser is consumed by the first group and later groups '
                 'get no setup/teardown' % raw)
    ctor = [c for c in ast.walk(w) if isinstance(c, ast.Call) and
            core.is_name(c.func, 'cls')]
    report.expect_instances(rule, len(ctor), 1, 'cls(...) constructions')
    for c in ctor:
      kw = {k.arg: k.value for k in c.keywords}
      for role, want in (('setup', params[0]), ('teardown', params[1])):
        v = kw.get(role)
        srcs = [v] if v is not None else []
        if isinstance(v, ast.Name):
          # bound to a local of the creator first
          srcs = [a_.value for a_ in ast.walk(w) if isinstance(a_, ast.Assign)
                  and any(core.is_name(t_, v.id) for t_ in a_.targets)]
        copies = [x for src in srcs for x in ast.walk(src)
                  if isinstance(x, ast.Call) and
                  last_attr(x) in ('attr_copy', 'deepcopy', 'copy') and x.args
                  and isinstance(x.args[0], ast.Name) and
                  built.get(x.args[0].id) == want]
        report.check(bool(copies), rule, f.qualname, 'copy-of-prebuilt:' + role,
                     c, '%s is a copy of the sequence pre-built from %s' %
                     (role, want), 'groups made by the creator do not get '
                     'their own copy of the pre-built %s sequence' % role)


def run(report, repo):
  report.guard(r8_with_context, report, repo)
  from sa.rules import c12  # pylint: disable=g-import-not-at-top
  report.guard(c12.r2_kill, report, repo, rule='C03-R7')
  report.guard(group_table, report, repo, 'C03-R1')
  report.guard(r3_teardown_sequence, report, repo)
  from sa.rules import c02  # pylint: disable=g-import-not-at-top
  report.guard(c02.r3_sequences, report, repo, rule='C03-R3s')
  report.guard(r4_stop_phase_executor, report, repo)
  report.guard(r5_thread_proc, report, repo)
  from sa.rules import c01  # pylint: disable=g-import-not-at-top
  report.guard(c01.r7_last_record, report, repo, rule='C03-R6')
  from sa.rules import extra4  # pylint: disable=g-import-not-at-top
  report.guard(extra4.stop_wait_is_constant, report, repo, 'C03-R9')
  report.guard(c01.r3_from_outcome, report, repo, rule='C03-R10')
  from sa.rules import extra5  # pylint: disable=g-import-not-at-top
  report.guard(extra5.executor_abort_callers, report, repo, 'C03-R9')
  report.guard(extra5.profile_stats_is_total, report, repo, 'C03-R10')
  from sa.rules import extra5 as _e6b  # pylint: disable=g-import-not-at-top
  report.guard(_e6b.conversion_does_not_sort, report, repo, 'C03-R11')
  report.guard(_e6b.every_join_is_bounded, report, repo, 'C03-R12')
