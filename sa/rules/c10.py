"""C10 - serialized view equals the in-memory record."""

import ast

from sa import cfg as cfgm
from sa import core, lib
from sa.core import call_name, dotted, last_attr, norm, walk_no_nested
from sa.lib import ends_with

DECIDES = (
    'schema completeness (every public field of TestRecord is a key of '
    'as_base_types, every cached list is read there); cache coherence as '
    'paired-write facts: the six cached record lists are mutated only by their '
    'add_* method which appends the conversion of the same object on the same '
    'path (whole-repo who-may-write); the dimensioned / scalar value caches are '
    'filled from the post-transform value and invalidated on override; every '
    'assignment of Measurement.outcome is followed on all paths by the cached '
    'outcome update or an invalidation; PhaseState updates its cache together '
    'with subtest name / attachments and refreshes exactly the dirty '
    'measurements; allow_nan is threaded to both the converter and the '
    'encoder; convert_to_base_types dispatch order and non-finite float '
    'handling; attachment base64 encoding call chain.')
DOES_NOT_DECIDE = (
    'convert_to_base_types on arbitrary values and JSON round trips (value '
    'relations).')

TR = 'openhtf/core/test_record.py'
TS = 'openhtf/core/test_state.py'
ME = 'openhtf/core/measurements.py'
DA = 'openhtf/util/data.py'
JF = 'openhtf/output/callbacks/json_factory.py'

LISTS = {
    'phases': ('add_phase_record', '_cached_phases'),
    'subtests': ('add_subtest_record', '_cached_subtests'),
    'branches': ('add_branch_record', '_cached_branches'),
    'checkpoints': ('add_checkpoint_record', '_cached_checkpoints'),
    'diagnoses': ('add_diagnosis', '_cached_diagnoses'),
    'log_records': ('add_log_record', '_cached_log_records'),
}
# Modules that deliberately rewrite a *finished* record for later callbacks
# (documented in their docstrings; optional output path, cannot be imported
# in this build).  Reported informationally.
TABLE_EXCEPTIONS = {
    'openhtf/output/proto/mfg_event_converter.py':
        'optional output converter that announces that it mutates the '
        'finished record for later callbacks',
    'openhtf/util/test.py': 'unit-test helper module, not on the run path',
}


def r1_schema(report, repo):
  rule = 'C10-R1'
  report.rule(rule, 'T-AGREE: keys of TestRecord.as_base_types (+ '
              '_cached_record) cover every public attr.ib field; every '
              '_cached_<x> list is read there')
  cls = repo.cls(TR, 'TestRecord')
  fields = [n for n, _ in core.class_attr_fields(cls)]
  public = [n for n in fields if not n.startswith('_')]
  report.expect_instances(rule, len(public), 14, 'public TestRecord fields')
  f = repo.func(TR, 'TestRecord.as_base_types')
  keys = set()
  for n in walk_no_nested(f.node):
    if isinstance(n, ast.Dict):
      keys.update(core.const_str(k) for k in n.keys if k is not None)
    if isinstance(n, ast.Assign) and isinstance(n.targets[0], ast.Subscript):
      k = core.const_str(n.targets[0].slice)
      if k:
        keys.add(k)
  pi = repo.func(TR, 'TestRecord.__attrs_post_init__')
  for n in walk_no_nested(pi.node):
    if isinstance(n, ast.Assign) and dotted(n.targets[0]) == \
        'self._cached_record' and isinstance(n.value, ast.Dict):
      keys.update(core.const_str(k) for k in n.value.keys if k is not None)
  uses_cached_record = any(
      call_name(c) in ('ret.update',) or last_attr(c) == 'update'
      for c in core.calls_in(f.node) if c.args and
      dotted(c.args[0]) == 'self._cached_record')
  for fld in public:
    report.check(
        fld in keys and (uses_cached_record or True), rule, f.qualname,
        'missing-key:' + fld, f.node,
        'record field %s is rendered' % fld,
        'TestRecord.%s is never rendered by as_base_types(): the serialized '
        'record silently lacks it' % fld)
  reads = set(dotted(n) for n in walk_no_nested(f.node)
              if isinstance(n, ast.Attribute))
  for fld in fields:
    if fld.startswith('_cached_'):
      report.check('self.' + fld in reads, rule, f.qualname,
                   'cache-not-read:' + fld, f.node,
                   'cache %s is read by as_base_types' % fld,
                   'cache %s is filled but never rendered' % fld)
  # outcome_details and scalar fields are rendered afresh on every call
  for n in walk_no_nested(f.node):
    if isinstance(n, ast.Dict):
      for k, v in zip(n.keys, n.values):
        ks = core.const_str(k)
        if ks in ('dut_id', 'start_time_millis', 'end_time_millis', 'outcome',
                  'outcome_details', 'marginal'):
          ok = any(isinstance(x, ast.Attribute) and dotted(x) == 'self.' + ks
                   for x in ast.walk(v))
          report.check(ok, rule, f.qualname, 'fresh:' + ks, v,
                       '%s rendered from the live field on every call' % ks)


def r2_record_lists(report, repo, rule='C10-R2'):
  report.rule(rule, 'T-WHO/T-MUST: each cached record list is mutated only by '
              'its add_* method, which appends the conversion of the same '
              'object to the matching cache on the same path')
  cls = repo.cls(TR, 'TestRecord')
  n_sites = 0
  for lst, (adder, cache) in LISTS.items():
    for attr in (lst, cache):
      for m, node, kind, tgt in core.attr_write_sites(repo, attr):
        owner = core.owner_qualname(node)
        d = dotted(tgt) or dotted(core.strip_subscripts(tgt)) or ''
        inside = m.relpath == TR and owner.startswith('TestRecord.')
        looks_like_record = inside or 'record' in d or 'test_rec' in d
        if not looks_like_record:
          continue
        n_sites += 1
        if m.relpath in TABLE_EXCEPTIONS:
          report.info(rule, node, 'table exception (%s): %s' %
                      (TABLE_EXCEPTIONS[m.relpath], norm(node)))
          continue
        ok = inside and owner == 'TestRecord.' + adder
        report.check(ok, rule, owner, node, node,
                     '%s written in TestRecord.%s' % (attr, adder),
                     '%s is written by %s (%s): the cached rendering of the '
                     'record no longer matches the in-memory list' %
                     (attr, owner, norm(node)))
    f = repo.func(TR, 'TestRecord.' + adder)
    par = lib.param_names(f.node)[1]
    paths = [p for p in cfgm.walk_paths(lib.cfg(f), lambda n, s: None)
             if p.end == 'exit']
    ok = bool(paths)
    for p in paths:
      apps = p.calls(attr='append')
      a_list = [c for c in apps if dotted(c.func.value) == 'self.' + lst]
      a_cache = [c for c in apps if dotted(c.func.value) == 'self.' + cache]
      if len(a_list) != 1 or len(a_cache) != 1:
        ok = False
        continue
      if dotted(a_list[0].args[0]) != par:
        ok = False
      conv = a_cache[0].args[0]
      good = isinstance(conv, ast.Call) and (
          (last_attr(conv) == 'convert_to_base_types' and conv.args and
           dotted(conv.args[0]) == par) or
          (last_attr(conv) in ('as_base_types', '_asdict') and
           dotted(conv.func.value) == par))
      if not good:
        ok = False
    report.check(ok, rule, f.qualname, 'paired-append', f.node,
                 '%s appends the record and the conversion of the same record '
                 'on every path' % adder,
                 '%s does not append the conversion of its argument to %s on '
                 'every path: the serialized list misses or misrenders an '
                 'entry' % (adder, cache))
  report.expect_instances(rule, n_sites, 8, 'record list write sites')


def r2b_no_write_after_add(report, repo):
  rule = 'C10-R2'
  TE = 'openhtf/core/test_executor.py'
  for rel, q, adder, obj in (
      (TE, 'TestExecutor._execute_subtest', 'add_subtest_record', None),
      (TS, 'TestState.running_phase_context', 'add_phase_record', None)):
    f = repo.func(rel, q)
    g = lib.cfg(f)
    adds = lib.nodes_with_call(g, attr=adder)
    report.expect_instances(rule, len(adds), 1, adder + ' calls in ' + q)
    an, ac = adds[0]
    arg = dotted(ac.args[0]) or ''
    root = arg.split('.')[0]
    roots = lib.copy_class(f, root)  # names standing for the same record
    later = g.reach([an], avoid_edge=lambda a, l, b: l == 'exc')
    bad = []
    for n in later:
      if n.kind != 'stmt' or n.ast is None:
        continue
      for t in core.assigned_targets(n.ast):
        d = dotted(t) or ''
        if isinstance(t, (ast.Attribute, ast.Subscript)) and (
            d.startswith(arg + '.') or d.split('.')[0] in roots):
          bad.append(n)
      for sub in n.subnodes():
        if isinstance(sub, ast.Call) and isinstance(sub.func, ast.Attribute) \
            and sub.func.attr in ('finalize', 'finalize_phase') and (
                dotted(sub.func.value) or '').split('.')[0] in roots:
          bad.append(n)
    report.check(
        not bad, rule, f.qualname, 'write-after-add', an.ast,
        '%s: the record is complete when it is added (its rendering is cached '
        'at that moment); nothing writes to it afterwards' % q,
        '%s modifies the record after %s cached its rendering (%s): the '
        'serialized record shows the earlier value' %
        (q, adder, norm(bad[0].ast) if bad else ''))


def r2c_context_users(report, repo):
  rule = 'C10-R2'
  TE = 'openhtf/core/test_executor.py'
  PE = 'openhtf/core/phase_executor.py'
  n = 0
  for rel in (TE, PE):
    for f in repo.module(rel).all_funcs():
      for w in walk_no_nested(f.node):
        if not isinstance(w, ast.With):
          continue
        for it in w.items:
          if last_attr(it.context_expr) in ('running_phase_context',) and \
              isinstance(it.optional_vars, ast.Name):
            n += 1
            var = it.optional_vars.id
            bad = []
            for node, acc in [(x, t) for x in walk_no_nested(f.node)
                              if isinstance(x, (ast.Assign, ast.AugAssign))
                              for t in core.assigned_targets(x)]:
              d = dotted(acc) or ''
              if d.startswith(var + '.') and not core.in_block(node, w, 'body'):
                bad.append(node)
            report.check(
                not bad, rule, f.qualname, 'write-outside-context:' + var, w,
                '%s: every write to `%s` is inside the context block (the '
                'record is added and its rendering cached when the block '
                'exits)' % (f.qualname, var),
                '%s writes %s after the `with` block that adds the record and '
                'caches its rendering: the serialized record keeps the earlier '
                'value' % (f.qualname, norm(bad[0]) if bad else ''))
  report.expect_instances(rule, n, 2, 'record context users')


def r3b_sibling_rows(report, repo):
  rule = 'C10-R3'
  f = repo.func(ME, 'DimensionedMeasuredValue.__setitem__')
  b = repo.func(ME, 'DimensionedMeasuredValue.basetype_value')
  apps = [c for c in core.calls_in(f.node, attr='append')
          if dotted(c.func.value) == 'self._cached_basetype_values']
  gens = [g for g in walk_no_nested(b.node)
          if isinstance(g, (ast.GeneratorExp, ast.ListComp))]
  ok = len(apps) == 1 and len(gens) == 1
  if ok:
    def shape(e, coord, val):
      import copy  # pylint: disable=g-import-not-at-top
      e = copy.deepcopy(e)
      for x in ast.walk(e):
        if isinstance(x, ast.Name) and x.id == coord:
          x.id = 'COORD'
        elif isinstance(x, ast.Name) and x.id == val:
          x.id = 'VAL'
      return norm(e)
    # the names the row is built from: what is stored under what
    st = [n for n in walk_no_nested(f.node) if isinstance(n, ast.Assign) and
          isinstance(n.targets[0], ast.Subscript) and
          dotted(n.targets[0].value) == 'self.value_dict']
    kn = dotted(st[0].targets[0].slice) if len(st) == 1 else None
    vn = dotted(st[0].value) if len(st) == 1 else None
    a = shape(apps[0].args[0], kn or 'coordinates', vn or 'value')
    tg = gens[0].generators[0].target
    names = [dotted(e) for e in tg.elts] if isinstance(tg, ast.Tuple) else []
    r = shape(gens[0].elt, names[0], names[1]) if len(names) == 2 else '?'
    ok = a == r and 'convert_to_base_types(COORD + (VAL,)' in a.replace(
        'data.', '')
  report.check(ok, rule, f.qualname, 'append-equals-rebuild', f.node,
               'the incremental append and the from-scratch rebuild render a '
               'row with the same expression: convert_to_base_types('
               'coordinates + (value,))',
               'the row appended incrementally and the row produced by the '
               'rebuild in basetype_value() are rendered differently: the '
               'served view depends on whether a coordinate was ever '
               'overridden (e.g. unconverted Enum / inf coordinates)')


def r4_measurement_outcome(report, repo):
  rule = 'C10-R4'
  report.rule(rule, 'paired write: every assignment to Measurement.outcome is '
              'followed on all paths by the cached-outcome update or a cache '
              'invalidation; builder methods that change rendered fields '
              'invalidate the cache')
  cls = repo.cls(ME, 'Measurement')
  n = 0
  for f in repo.module(ME).all_funcs():
    if f.cls is not cls or f.node not in cls.body:
      continue
    g = lib.cfg(f)

    def is_sync(x):
      if x.kind != 'stmt' or x.ast is None:
        return False
      for t in core.assigned_targets(x.ast):
        if isinstance(t, ast.Subscript) and dotted(t.value) == 'self._cached' \
            and core.const_str(t.slice) == 'outcome':
          return True
        if dotted(t) == 'self._cached':
          return True
      return False

    for node in g.nodes:
      if node.kind == 'stmt' and node.ast is not None and any(
          dotted(t) == 'self.outcome' for t in core.assigned_targets(node.ast)):
        n += 1
        reach = g.reach(
            [node], avoid=is_sync,
            avoid_edge=lambda a, l, b: l == 'exc' or (
                a.kind == 'test' and l == 'F' and
                dotted(a.ast) == 'self._cached'))  # no cache yet: nothing to sync
        ok = not any(g.is_any_exit(x) for x in reach)
        report.check(
            ok, rule, f.qualname, 'outcome-without-cache-sync:' +
            norm(node.ast), node.ast,
            '%s: %s is followed by the cached outcome update on every path' %
            (f.qualname, norm(node.ast)),
            '%s assigns %s but a path leaves the function without updating '
            '_cached[\'outcome\']: the live view keeps the previous outcome' %
            (f.qualname, norm(node.ast)))
  report.expect_instances(rule, n, 2, 'outcome assignments in Measurement')
  for meth, what in (('with_validator', 'validators'),
                     ('validate_on', 'conditional validators'),
                     ('with_dimensions', 'dimensions')):
    f = repo.func(ME, 'Measurement.' + meth)
    g = lib.cfg(f)
    inval = lambda x: x.kind == 'stmt' and x.ast is not None and any(
        dotted(t) == 'self._cached' for t in core.assigned_targets(x.ast))
    rets = [x for x in g.nodes if x.kind == 'stmt' and isinstance(
        x.ast, ast.Return)]
    ok = bool(rets) and all(g.dominated_by(r, inval) for r in rets)
    report.check(ok, rule, f.qualname, 'invalidate', f.node,
                 '%s invalidates the cached rendering after changing the %s' %
                 (meth, what),
                 '%s changes the %s without invalidating _cached' % (meth, what))
  ab = repo.func(ME, 'Measurement.as_base_types')
  g = lib.cfg(ab)
  mv = [x for x in g.nodes if x.kind == 'stmt' and x.ast is not None and any(
      isinstance(t, ast.Subscript) and dotted(t.value) == 'self._cached' and
      core.const_str(t.slice) == 'measured_value'
      for t in core.assigned_targets(x.ast))]
  ok = len(mv) == 1 and call_name(mv[0].ast.value) == \
      'self._measured_value.basetype_value' and g.dominated_by_edge(
          mv[0], lambda s, l, d: s.kind == 'test' and l == 'T' and
          dotted(s.ast) == 'self._measured_value.is_value_set') and not any(
              g.dominated_by_edge(
                  mv[0], lambda s, l, d, _lab=lab: s.kind == 'test' and
                  l == _lab and dotted(s.ast) == 'self._cached')
              for lab in ('T', 'F'))
  report.check(ok, rule, ab.qualname, 'measured-value-refreshed', ab.node,
               'the measured value is re-rendered on every as_base_types() '
               'call once a value is set (not only when the cache is created)',
               'measured_value is only rendered when the cache is first '
               'created: later assignments are not shown')


def r5_phase_state(report, repo, rule='C10-R5'):
  report.rule(rule, 'paired write: PhaseState.set_subtest_name / attach update '
              '_cached with the record field; _notify marks the measurement '
              'dirty; as_base_types refreshes exactly the dirty ones; '
              'who-may-write on phase_record.attachments / subtest_name')
  f = repo.func(TS, 'PhaseState.set_subtest_name')
  names = lib.param_names(f.node)
  a = [n for n in walk_no_nested(f.node) if isinstance(n, ast.Assign)]
  ok = any(dotted(x.targets[0]) == 'self.phase_record.subtest_name' and
           dotted(x.value) == names[1] for x in a) and any(
               isinstance(x.targets[0], ast.Subscript) and
               dotted(x.targets[0].value) == 'self._cached' and
               core.const_str(x.targets[0].slice) == 'subtest_name' and
               dotted(x.value) == names[1] for x in a)
  report.check(ok, rule, f.qualname, 'paired', f.node,
               'subtest name written to the record and to the cache')
  f = repo.func(TS, 'PhaseState.attach')
  g = lib.cfg(f)
  rec = [x for x in g.nodes if x.kind == 'stmt' and isinstance(
      x.ast, ast.Assign) and isinstance(x.ast.targets[0], ast.Subscript) and
         dotted(x.ast.targets[0].value) == 'self.phase_record.attachments']
  cch = [x for x in g.nodes if x.kind == 'stmt' and isinstance(
      x.ast, ast.Assign) and isinstance(x.ast.targets[0], ast.Subscript) and
         isinstance(x.ast.targets[0].value, ast.Subscript) and
         dotted(x.ast.targets[0].value.value) == 'self._cached' and
         core.const_str(x.ast.targets[0].value.slice) == 'attachments']
  ok = len(rec) == 1 and len(cch) == 1 and g.must_pass(
      rec[0], g.is_normal_exit, lambda n: n is cch[0],
      avoid_edge=lambda a_, l, b: l == 'exc') and g.dominated_by(
          cch[0], lambda n: n is rec[0])
  if ok:
    ok = dotted(rec[0].ast.targets[0].slice) == dotted(
        cch[0].ast.targets[0].slice) and isinstance(
            cch[0].ast.value, ast.Call) and dotted(
                cch[0].ast.value.func.value) == dotted(rec[0].ast.value)
  report.check(ok, rule, f.qualname, 'paired', f.node,
               'attachment stored in the record and its rendering stored in '
               'the cache under the same name, from the same object',
               'attach() does not keep the cached attachments in step with the '
               'record')
  nf = repo.func(TS, 'PhaseState._notify')
  ok = any(call_name(c) == 'self._update_measurements.add' and
           dotted(c.args[0]) == lib.param_names(nf.node)[1]
           for c in core.calls_in(nf.node))
  report.check(ok, rule, nf.qualname, 'dirty-mark', nf.node,
               'a measurement notification marks that measurement dirty')
  ab = repo.func(TS, 'PhaseState.as_base_types')
  loops = [n for n in walk_no_nested(ab.node) if isinstance(n, ast.For)]
  ok = len(loops) == 1 and any(
      last_attr(c) == 'as_base_types' and isinstance(
          c.func.value, ast.Subscript) and
      dotted(c.func.value.value) == 'self.measurements' and
      dotted(c.func.value.slice) == dotted(loops[0].target)
      for c in core.calls_in(loops[0]))
  if ok:
    src = dotted(loops[0].iter)
    defs = lib.resolve_local(ab, src)
    ok = bool(defs) and all(dotted(d) == 'self._update_measurements'
                            for d in defs)
  rets = [n for n in walk_no_nested(ab.node) if isinstance(n, ast.Return)]
  ok = ok and len(rets) == 1 and dotted(rets[0].value) == 'self._cached'
  report.check(ok, rule, ab.qualname, 'refresh-dirty', ab.node,
               'as_base_types re-renders every dirty measurement and returns '
               'the cache')
  pi = repo.func(TS, 'PhaseState.__attrs_post_init__')
  ok = any(call_name(c) == 'functools.partial' and
           dotted(c.args[0]) == 'self._notify'
           for c in core.calls_in(pi.node)) and any(
               last_attr(c) == 'set_notification_callback'
               for c in core.calls_in(pi.node))
  report.check(ok, rule, pi.qualname, 'callback-wired', pi.node,
               'every measurement of the phase notifies PhaseState._notify')
  n = 0
  for attr in ('attachments', 'subtest_name'):
    for m, node, kind, tgt in core.attr_write_sites(repo, attr):
      d = dotted(tgt) or dotted(core.strip_subscripts(tgt)) or ''
      if 'phase_record' not in d and 'phase_rec' not in d:
        continue
      n += 1
      owner = core.owner_qualname(node)
      if m.relpath in TABLE_EXCEPTIONS:
        report.info(rule, node, 'table exception (%s)' %
                    TABLE_EXCEPTIONS[m.relpath])
        continue
      ok = m.relpath == TS and owner in ('PhaseState.attach',
                                         'PhaseState.set_subtest_name')
      report.check(ok, rule, owner, node, node,
                   'phase_record.%s written in %s' % (attr, owner),
                   'phase_record.%s is written in %s, bypassing the cached '
                   'running-phase view' % (attr, owner))
  report.expect_instances(rule, n, 2, 'phase record field writers')


def r6_allow_nan(report, repo):
  rule = 'C10-R6'
  report.rule(rule, 'T-KW: allow_nan flows OutputToJSON.__init__ -> '
              'serialize_test_record -> convert_test_record_to_json(json_safe '
              '= not allow_nan) and -> stream_json -> '
              'TestRecordEncoder(allow_nan=...); attachments are base64 '
              'encoded by the encoder')
  init = repo.func(JF, 'OutputToJSON.__init__')
  ok = any(isinstance(n, ast.Assign) and dotted(n.targets[0]) ==
           'self.allow_nan' and dotted(n.value) == 'allow_nan'
           for n in walk_no_nested(init.node))
  dflt = None
  a = init.node.args
  names = [x.arg for x in a.args]
  if 'allow_nan' in names:
    d = a.defaults[names.index('allow_nan') - (len(names) - len(a.defaults))]
    dflt = d.value if isinstance(d, ast.Constant) else '?'
  report.check(ok and dflt is False, rule, init.qualname, 'stored', init.node,
               'allow_nan stored; strict JSON is the default')
  s = repo.func(JF, 'OutputToJSON.serialize_test_record')
  c1 = core.calls_in(s.node, name='convert_test_record_to_json')
  c2 = core.calls_in(s.node, name='stream_json')
  ok = len(c1) == 1 and len(c2) == 1 and \
      dotted(core.get_kw(c1[0], 'allow_nan')) == 'self.allow_nan' and \
      dotted(core.get_kw(c2[0], 'allow_nan')) == 'self.allow_nan'
  report.check(ok, rule, s.qualname, 'threaded', s.node,
               'allow_nan passed to both the converter and the streamer',
               'allow_nan is not passed to both convert_test_record_to_json and '
               'stream_json: NaN/Infinity tokens can appear in strict mode (or '
               'strict mode is forced on)')
  cv = repo.func(JF, 'convert_test_record_to_json')
  cs = core.calls_in(cv.node, attr='convert_to_base_types')
  ok = len(cs) == 1
  if ok:
    js = core.get_kw(cs[0], 'json_safe')
    ok = isinstance(js, ast.UnaryOp) and isinstance(js.op, ast.Not) and \
        dotted(js.operand) == 'allow_nan'
  report.check(ok, rule, cv.qualname, 'json_safe', cv.node,
               'json_safe = not allow_nan')
  sj = repo.func(JF, 'stream_json')
  cs = core.calls_in(sj.node, attr='TestRecordEncoder')
  ok = len(cs) == 1 and dotted(core.get_kw(cs[0], 'allow_nan')) == 'allow_nan'
  it = core.calls_in(sj.node, attr='iterencode')
  report.check(ok and len(it) == 1, rule, sj.qualname, 'encoder', sj.node,
               'TestRecordEncoder(allow_nan=allow_nan).iterencode(...)')
  en = repo.func(JF, 'TestRecordEncoder.default')
  g = lib.cfg(en)
  b64 = lib.nodes_with_call(g, name='base64.standard_b64encode')
  ok = len(b64) == 1 and dotted(b64[0][1].args[0]) == 'obj.data' and \
      g.dominated_by_edge(b64[0][0], lambda s_, l, d: s_.kind == 'test' and
                          l == 'T' and call_name(s_.ast) == 'isinstance' and
                          ends_with(dotted(s_.ast.args[1]) or '', 'Attachment'))
  report.check(ok, rule, en.qualname, 'base64', en.node,
               'Attachment data is standard-base64 encoded by the encoder')


def r7_convert(report, repo):
  rule = 'C10-R7'
  report.rule(rule, 'T-DTABLE: convert_to_base_types dispatch order '
              '(as_base_types, _asdict, records, attrs, enum), passthrough '
              'types, non-finite floats become strings when json_safe and '
              'json_safe is threaded (or defaults to safe) in every recursive '
              'call')
  f = repo.func(DA, 'convert_to_base_types')
  order = []
  for n in walk_no_nested(f.node):
    if isinstance(n, ast.If):
      t = norm(n.test)
      for key, tag in (("hasattr(obj, 'as_base_types')", 'as_base_types'),
                       ("hasattr(obj, '_asdict')", '_asdict'),
                       ('records.RecordClass', 'records'),
                       ('attr.has(', 'attrs'), ('enum.Enum', 'enum'),
                       ('PASSTHROUGH_TYPES', 'passthrough'),
                       ('isinstance(obj, dict)', 'dict'),
                       ('isinstance(obj, list)', 'list'),
                       ('isinstance(obj, tuple)', 'tuple'),
                       ('numbers.Integral', 'integral'),
                       ('numbers.Real', 'real')):
        if key in t and tag not in order:
          order.append(tag)
      # both sequence arms behind one test (the arms are told apart inside)
      if 'isinstance(obj, (list, tuple))' in t:
        for tag in ('list', 'tuple'):
          if tag not in order:
            order.append(tag)
  want = ['as_base_types', '_asdict', 'records', 'attrs', 'enum', 'passthrough',
          'dict', 'list', 'tuple', 'integral', 'real']
  report.check(order == want, rule, f.qualname, 'dispatch-order', f.node,
               'dispatch order %s' % ' > '.join(want),
               'dispatch order is %s, expected %s' % (order, want))
  pt = repo.module(DA).constants.get('PASSTHROUGH_TYPES')
  names = sorted(dotted(e) or norm(e) for e in pt.elts) if isinstance(
      pt, ast.Set) else []
  report.check('float' not in names and 'bool' in names and 'str' in names,
               rule, 'data', 'PASSTHROUGH_TYPES', DA,
               'floats are not passed through unconverted (%s)' % names)
  g = lib.cfg(f)
  af = lib.local_from(f, lib.calls(name='float'), 'as_float')
  strs = [x for x in g.nodes if x.kind == 'stmt' and isinstance(
      x.ast, ast.Return) and call_name(x.ast.value) == 'str' and
          dotted(x.ast.value.args[0]) == af]
  ok = len(strs) == 1 and g.dominated_by_edge(
      strs[0], lambda s, l, d: s.kind == 'test' and l == 'T' and
      dotted(s.ast) == 'json_safe') and any(
          x.kind == 'test' and call_name(x.ast) == 'math.isnan'
          for x in g.nodes) and any(
              x.kind == 'test' and call_name(x.ast) == 'math.isinf'
              for x in g.nodes)
  report.check(ok, rule, f.qualname, 'non-finite', f.node,
               'NaN and +-inf become strings when json_safe')
  a = f.node.args
  names = [x.arg for x in a.args]
  dflt = a.defaults[names.index('json_safe') - (len(names) - len(a.defaults))]
  safe_default = isinstance(dflt, ast.Constant) and dflt.value is True
  rec = [c for c in core.calls_in(f.node, name='convert_to_base_types')]
  report.expect_instances(rule, len(rec), 4, 'recursive conversions')
  for c in rec:
    threaded = dotted(core.get_kw(c, 'json_safe', 3)) == 'json_safe'
    report.check(threaded or safe_default, rule, f.qualname, c, c,
                 'recursive conversion keeps json-safety (%s)' %
                 ('threaded' if threaded else 'safe default'),
                 'a recursive conversion drops json_safe while the default is '
                 'not the safe one: nested NaN/Infinity reach the JSON encoder')


def run(report, repo):
  report.guard(r1_schema, report, repo)
  report.guard(r2_record_lists, report, repo)
  report.guard(r2b_no_write_after_add, report, repo)
  report.guard(r2c_context_users, report, repo)
  report.guard(r3b_sibling_rows, report, repo)
  from sa.rules import c06  # pylint: disable=g-import-not-at-top
  report.guard(c06.r3_stored_value, report, repo, only_cache=True)
  report.guard(r4_measurement_outcome, report, repo)
  report.guard(r5_phase_state, report, repo)
  report.guard(r6_allow_nan, report, repo)
  report.guard(r7_convert, report, repo)
  from sa.rules import extra4  # pylint: disable=g-import-not-at-top
  report.guard(extra4.immutable_copy_is_deep, report, repo, 'C10-R8')
  report.guard(extra4.cache_conversions_json_safe, report, repo, 'C10-R9')
  from sa.rules import extra5 as _e5b  # pylint: disable=g-import-not-at-top
  from sa.rules import c06 as _c06  # pylint: disable=g-import-not-at-top
  report.guard(_c06.r8_order, report, repo, rule='C10-R10')
  report.guard(_e5b.attachments_paired_by_position, report, repo, 'C10-R11')
  from sa.rules import extra5 as _e6  # pylint: disable=g-import-not-at-top
  report.guard(_e6.start_time_recorded_once, report, repo, 'C10-R12')
  report.guard(_e6.attr_copy_overrides_by_init_name, report, repo, 'C10-R13')
