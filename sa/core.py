"""Program index, AST helpers, reporting, exit codes."""

import ast
import copy
import json
import os
import sys
import time

VERIF_DIR = os.path.dirname(os.path.dirname(os.path.abspath(__file__)))
REPO_DIR = os.environ.get('OPENHTF_REPO', '/repo')

EXIT_OK, EXIT_VIOLATION, EXIT_BROKEN = 0, 1, 2


class AnalysisError(Exception):
  """The analysis itself cannot be carried out (anchor vanished, unsupported
  construct, self-test failure).  Never a property violation: exit code 2."""


class RuleAbort(Exception):
  """A rule recorded a violation (an expected construct is missing) and
  cannot continue; the remaining rules of the property still run."""


# --------------------------------------------------------------------------
# AST helpers


def dotted(node):
  """'self._abort.is_set' for Name/Attribute chains, else None."""
  parts = []
  while isinstance(node, ast.Attribute):
    parts.append(node.attr)
    node = node.value
  if isinstance(node, ast.Name):
    parts.append(node.id)
    return '.'.join(reversed(parts))
  return None


def call_name(node):
  """Dotted callee name of a Call (None if not a call / not dotted)."""
  if isinstance(node, ast.Call):
    return dotted(node.func)
  return None


def last_attr(node):
  """Final attribute / name of a callee expression: x.y.z(...) -> 'z'."""
  if isinstance(node, ast.Call):
    node = node.func
  if isinstance(node, ast.Attribute):
    return node.attr
  if isinstance(node, ast.Name):
    return node.id
  return None


def walk_no_nested(node):
  """ast.walk in source order that does not descend into nested function /
  class / lambda bodies (the root itself may be a function)."""
  yield node
  for c in ast.iter_child_nodes(node):
    if isinstance(c, (ast.FunctionDef, ast.AsyncFunctionDef, ast.ClassDef,
                      ast.Lambda)):
      continue
    for n in walk_no_nested(c):
      yield n


def calls_in(node, name=None, attr=None):
  """Call nodes under `node` (not in nested defs).  name: dotted match; attr:
  last attribute match."""
  out = []
  for n in walk_no_nested(node):
    if isinstance(n, ast.Call):
      if name is not None and call_name(n) != name:
        continue
      if attr is not None and last_attr(n) != attr:
        continue
      out.append(n)
  return out


def contains(node, pred):
  return any(pred(n) for n in walk_no_nested(node))


def unparse(node):
  try:
    return ast.unparse(node)
  except Exception:  # pylint: disable=broad-except
    return '<%s>' % type(node).__name__


def norm(node):
  """Normalised construct text for finding keys (no line numbers)."""
  if isinstance(node, str):
    return ' '.join(node.split())
  text = unparse(node)
  text = ' '.join(text.split())
  return text[:160]


def parents(node):
  p = getattr(node, '_parent', None)
  while p is not None:
    yield p
    p = getattr(p, '_parent', None)


def enclosing_stmt(node):
  n = node
  while n is not None and not isinstance(n, ast.stmt):
    n = getattr(n, '_parent', None)
  return n


def enclosing_func(node):
  for p in parents(node):
    if isinstance(p, (ast.FunctionDef, ast.AsyncFunctionDef)):
      return p
  return None


def enclosing_withs(node):
  """With statements enclosing `node`, innermost first (within its function)."""
  out = []
  prev = node
  for p in parents(node):
    if isinstance(p, (ast.FunctionDef, ast.AsyncFunctionDef, ast.ClassDef)):
      break
    if isinstance(p, ast.With) and prev in p.body:
      out.append(p)
    prev = p
  return out


def with_item_names(w):
  return [dotted(i.context_expr) or call_name(i.context_expr) or
          unparse(i.context_expr) for i in w.items]


def held_withs(node):
  """Dotted names of all `with X:` context expressions enclosing node."""
  names = []
  for w in enclosing_withs(node):
    names.extend(with_item_names(w))
  return names


def in_block(node, block_owner, field):
  """True if node is (transitively) inside block_owner.<field> (a stmt list)."""
  prev = node
  for p in parents(node):
    if p is block_owner:
      blk = getattr(block_owner, field, [])
      if isinstance(blk, list):
        return any(prev is s for s in blk)
      return prev is blk
    prev = p
  return False


def enclosing_try_field(node, stop=None):
  """Yields (try_node, field) for each enclosing Try, innermost first; field in
  body/handlers/orelse/finalbody."""
  prev = node
  for p in parents(node):
    if p is stop or isinstance(p, (ast.FunctionDef, ast.AsyncFunctionDef,
                                    ast.ClassDef)):
      return
    if isinstance(p, ast.Try):
      for field in ('body', 'orelse', 'finalbody'):
        if any(prev is s for s in getattr(p, field)):
          yield p, field
      for h in p.handlers:
        if prev is h:
          yield p, 'handlers'
    prev = p


def const_str(node):
  if isinstance(node, ast.Constant) and isinstance(node.value, str):
    return node.value
  return None


def is_name(node, name):
  return isinstance(node, ast.Name) and node.id == name


def get_kw(call, name, pos=None):
  for kw in call.keywords:
    if kw.arg == name:
      return kw.value
  if pos is not None and len(call.args) > pos:
    return call.args[pos]
  return None


def assigned_targets(stmt):
  """Flat list of target expressions of an assignment-like statement."""
  out = []
  if isinstance(stmt, ast.Assign):
    for t in stmt.targets:
      out.extend(_flatten_target(t))
  elif isinstance(stmt, (ast.AugAssign, ast.AnnAssign)):
    if not (isinstance(stmt, ast.AnnAssign) and stmt.value is None):
      out.extend(_flatten_target(stmt.target))
  elif isinstance(stmt, ast.Delete):
    for t in stmt.targets:
      out.extend(_flatten_target(t))
  elif isinstance(stmt, (ast.For,)):
    out.extend(_flatten_target(stmt.target))
  elif isinstance(stmt, ast.With):
    for i in stmt.items:
      if i.optional_vars is not None:
        out.extend(_flatten_target(i.optional_vars))
  return out


def _flatten_target(t):
  if isinstance(t, (ast.Tuple, ast.List)):
    out = []
    for e in t.elts:
      out.extend(_flatten_target(e))
    return out
  if isinstance(t, ast.Starred):
    return _flatten_target(t.value)
  return [t]


MUTATORS = frozenset([
    'append', 'extend', 'insert', 'update', 'setdefault', 'pop', 'popitem',
    'remove', 'clear', 'add', 'discard', 'sort', 'reverse', '__setitem__',
    '__delitem__', 'appendleft', 'popleft'
])


def strip_subscripts(node):
  while isinstance(node, ast.Subscript):
    node = node.value
  return node


# --------------------------------------------------------------------------
# Index


class FuncInfo(object):

  def __init__(self, module, qualname, node, cls):
    self.module = module
    self.qualname = qualname
    self.node = node
    self.cls = cls  # ClassDef or None

  @property
  def path(self):
    return self.module.relpath

  @property
  def name(self):
    return self.node.name

  def loc(self, node=None):
    n = node if node is not None else self.node
    return '%s:%s' % (self.module.relpath, getattr(n, 'lineno', '?'))

  def __repr__(self):
    return '<Func %s::%s>' % (self.module.relpath, self.qualname)


# ---------------------------------------------------------------------------
# canonical form: three behaviour-preserving statement shapes are folded before
# any rule looks at a function, so that a rule never depends on which of the
# equivalent spellings the source uses:
#   C1  `t = E` immediately followed by `return t`, t bound once and read once
#       in the function                                   ->  `return E`
#   C2  `t = <constant>` where t is a local never read in the function
#                                                         ->  removed
#   C3  `x = x <op> E` for a local name x                 ->  `x <op>= E`
#   C4  `x: T = E` (annotated assignment with a value)    ->  `x = E`
#   C5  `a < b` / `a <= b` (single comparison)            ->  `b > a` / `b >= a`
#   C7  `t = a.b.c` (t bound once; a plain attribute chain none of whose
#       attributes is assigned in the function, rooted at a name that is not
#       rebound)                                          ->  a.b.c wherever t is read
#       (an analysis normal form: "bind the repeated chain to a local")
#   C8  `return any(E for x in it if c)`  ->  `for x in it: if c and E: return True`
#       followed by `return False` (dually for all()): the quantifier and the
#       early-return loop are the same thing to every rule
#   C9  `x = A if c else B` / `return A if c else B`     ->  the if statement
#       (so that the condition is a test atom of the flow graph)
#   C10 `x = next((E for v in it if c), D)`              ->  `for v in it: if c: x = E; break`
#       with `else: x = D`
#   C11 `for a, b in <literal table>: BODY` (table: a literal tuple/list of
#       at most 16 entries, given in place, as a local bound once, or as a
#       class-level constant read through self./cls.; BODY without
#       break/continue) -> BODY once per entry with a, b substituted; and
#       `getattr(x, '<constant>')` -> `x.<constant>`  (table-driven dispatch
#       and the if-chain it replaces read the same)
#   C12 `a, b = X, Y` where Y does not read a (and so on)   ->  `a = X; b = Y`
#   C13 a module-level name in CAPITALS bound once to a string literal (or a
#       tuple of them) is replaced by the literal where it is read in this
#       module (named protocol words vs. the literals they name)
#   C6  `t = E` immediately followed by a statement in which t (bound once, read
#       once in the function) is the first thing evaluated apart from plain
#       name / attribute / constant loads                 ->  E substituted for t
#       (generalises C1: "extract variable" and its inverse look the same)
# Line numbers of the surviving nodes are kept.

def _name_uses(fn):
  loads, stores = {}, {}
  for n in ast.walk(fn):
    if isinstance(n, ast.Name):
      d = loads if isinstance(n.ctx, ast.Load) else stores
      d[n.id] = d.get(n.id, 0) + 1
    elif isinstance(n, (ast.Global, ast.Nonlocal)):
      for x in n.names:
        loads[x] = loads.get(x, 0) + 2
        stores[x] = stores.get(x, 0) + 2
    elif isinstance(n, ast.ExceptHandler) and n.name:
      stores[n.name] = stores.get(n.name, 0) + 1
    elif isinstance(n, ast.arg):
      stores[n.arg] = stores.get(n.arg, 0) + 1
  return loads, stores


def _canon_blocks(node):
  for field in ('body', 'orelse', 'finalbody'):
    blk = getattr(node, field, None)
    if isinstance(blk, list) and blk and isinstance(blk[0], ast.stmt):
      yield blk
  for h in getattr(node, 'handlers', None) or []:
    yield h.body
  for c in getattr(node, 'cases', None) or []:
    yield c.body


def _eval_order(e):
  """Sub-expressions of e in (approximate) evaluation order, parents after
  their operands; lambdas / comprehensions are opaque."""
  out = []

  def go(n):
    if isinstance(n, (ast.Lambda, ast.GeneratorExp, ast.ListComp, ast.SetComp,
                      ast.DictComp)):
      out.append(n)
      return
    if isinstance(n, ast.Call):
      go(n.func)
      for a in n.args:
        go(a)
      for k in n.keywords:
        go(k.value)
    elif isinstance(n, ast.IfExp):
      go(n.test)
      go(n.body)
      go(n.orelse)
    elif isinstance(n, ast.Dict):
      for k, v in zip(n.keys, n.values):
        if k is not None:
          go(k)
        go(v)
    else:
      for c in ast.iter_child_nodes(n):
        if isinstance(c, ast.expr):
          go(c)
    out.append(n)
  go(e)
  return out


def _first_use_expr(st):
  """The expression of statement st that is evaluated first (None if the
  statement kind is not handled)."""
  if isinstance(st, (ast.Return, ast.Expr)):
    return st.value
  if isinstance(st, ast.Assign):
    return st.value  # the right-hand side is evaluated before any target
  if isinstance(st, ast.If):
    return st.test
  if isinstance(st, ast.Raise):
    return st.exc
  if isinstance(st, ast.For):
    return st.iter  # evaluated once, before the loop
  if isinstance(st, ast.With) and st.items:
    return st.items[0].context_expr
  return None


def _inline_temp(name, value, st):
  """C6: substitute `value` for the single load of `name` in st when that
  load comes first in evaluation order (only plain loads before it).  Returns
  True if done."""
  e = _first_use_expr(st)
  if e is None:
    return False
  order = _eval_order(e)
  for n in order:
    if isinstance(n, ast.Name) and n.id == name and isinstance(n.ctx, ast.Load):
      break
    if isinstance(n, (ast.Name, ast.Constant)):
      continue
    if isinstance(n, ast.Attribute) and isinstance(n.ctx, ast.Load):
      continue
    return False
  else:
    return False
  # inside a short-circuit / conditional operand the evaluation would become
  # conditional: only the first operand position is allowed
  target = n
  parent_of = {}
  for p in ast.walk(e):
    for c in ast.iter_child_nodes(p):
      parent_of[id(c)] = p
  cur = target
  while id(cur) in parent_of:
    p = parent_of[id(cur)]
    if isinstance(p, ast.BoolOp) and p.values[0] is not cur:
      return False
    if isinstance(p, ast.IfExp) and p.test is not cur:
      return False
    if isinstance(p, (ast.Lambda, ast.GeneratorExp, ast.ListComp, ast.SetComp,
                      ast.DictComp)):
      return False
    cur = p
  if target is e:
    if isinstance(st, (ast.Return, ast.Expr, ast.Assign)):
      st.value = value
    elif isinstance(st, ast.If):
      st.test = value
    elif isinstance(st, ast.Raise):
      st.exc = value
    elif isinstance(st, ast.For):
      st.iter = value
    elif isinstance(st, ast.With):
      st.items[0].context_expr = value
    return True
  p = parent_of[id(target)]
  for field, val in ast.iter_fields(p):
    if val is target:
      setattr(p, field, value)
      return True
    if isinstance(val, list):
      for i, x in enumerate(val):
        if x is target:
          val[i] = value
          return True
  return False


def _immutable_literal(e):
  if isinstance(e, ast.Constant):
    return isinstance(e.value, (str, int, float, bytes)) or e.value is None
  if isinstance(e, ast.Tuple):
    return bool(e.elts) and all(_immutable_literal(x) for x in e.elts)
  return False


def _chain(e):
  parts = []
  while isinstance(e, ast.Attribute):
    parts.append(e.attr)
    e = e.value
  if isinstance(e, ast.Name) and parts:
    return e.id, parts
  return None


class _AliasSubst(ast.NodeTransformer):

  def __init__(self, aliases):
    self.aliases = aliases

  def visit_Name(self, n):
    if isinstance(n.ctx, ast.Load) and n.id in self.aliases:
      return ast.copy_location(copy.deepcopy(self.aliases[n.id]), n)
    return n


def _stores_after_uses(fn, definition, name, parts):
  """True if every store to one of the attributes `parts` comes, in source
  order, after the last read of the alias `name`, the alias is defined before
  its first read, and its definition is not inside a loop that contains such
  a store (`o = self._last; if not o.done: self._last = new`)."""
  order = {}
  counter = [0]

  def number(node):
    order[id(node)] = counter[0]
    counter[0] += 1
    for c in ast.iter_child_nodes(node):
      number(c)
  number(fn)
  loads = [order[id(x)] for x in ast.walk(fn)
           if isinstance(x, ast.Name) and x.id == name and
           isinstance(x.ctx, ast.Load)]
  stores = [x for x in ast.walk(fn) if isinstance(x, ast.Attribute) and
            isinstance(x.ctx, (ast.Store, ast.Del)) and x.attr in parts]
  if not loads or not stores:
    return False
  # the assignment statement holding the store, numbered at its start
  if min(order[id(x)] for x in stores) <= max(loads):
    return False
  if min(loads) <= order[id(definition)]:
    return False
  for lp in ast.walk(fn):
    if isinstance(lp, (ast.For, ast.While, ast.AsyncFor)):
      inside = {id(x) for x in ast.walk(lp)}
      if id(definition) in inside and any(id(x) in inside for x in stores):
        return False
  # calls between the definition and the last read could rebind the
  # attribute behind our back only through self-methods; accept reads that
  # are not separated from the definition by a call on the same root
  return True


def _propagate_aliases(fn):
  loads, stores = _name_uses(fn)
  attr_stores = set()
  for n in ast.walk(fn):
    if isinstance(n, ast.Attribute) and isinstance(n.ctx, (ast.Store, ast.Del)):
      attr_stores.add(n.attr)
  params = {a.arg for a in fn.args.args + fn.args.kwonlyargs +
            fn.args.posonlyargs}
  aliases = {}
  owners = []
  # a value read inside a `with` block (typically under a lock) and used
  # after it is a snapshot, not an alias
  in_with = {}
  for w in ast.walk(fn):
    if isinstance(w, (ast.With, ast.AsyncWith)):
      inner_loads = {}
      for x in ast.walk(w):
        if isinstance(x, ast.Name) and isinstance(x.ctx, ast.Load):
          inner_loads[x.id] = inner_loads.get(x.id, 0) + 1
      for x in ast.walk(w):
        if isinstance(x, ast.Assign) and len(x.targets) == 1 and isinstance(
            x.targets[0], ast.Name):
          in_with.setdefault(id(x), []).append(inner_loads)
  for n in ast.walk(fn):
    if isinstance(n, ast.Assign) and len(n.targets) == 1 and isinstance(
        n.targets[0], ast.Name):
      t = n.targets[0].id
      if any(il.get(t, 0) != loads.get(t, 0) for il in in_with.get(id(n), [])):
        continue
      # a local bound once to an immutable literal (a string, a number, a
      # tuple of such) stands for the literal
      once = t not in params and stores.get(t, 0) == 1
      lit_tuple = isinstance(n.value, ast.Tuple) and _immutable_literal(n.value)
      lit_scalar = isinstance(n.value, ast.Constant) and isinstance(
          n.value.value, (str, int)) and not isinstance(n.value.value, bool)
      if once and ((lit_tuple and loads.get(t, 0) >= 1) or
                   (lit_scalar and loads.get(t, 0) >= 2)):
        aliases[t] = n.value
        owners.append(n)
        continue
      if isinstance(n.value, ast.Name) and once and \
          n.value.id not in params and stores.get(n.value.id, 0) == 1 and \
          loads.get(t, 0) >= 1 and n.value.id != t:
        # a second name for a local that is itself bound once
        aliases[t] = n.value
        owners.append(n)
        continue
      ch = _chain(n.value)
      if ch is None or t in params or stores.get(t, 0) != 1 or \
          loads.get(t, 0) < 1:
        continue
      root, parts = ch
      if stores.get(root, 0) > 1:
        continue  # the root is rebound: t may be a snapshot
      if any(p in attr_stores for p in parts) and not _stores_after_uses(
          fn, n, t, parts):
        continue
      aliases[t] = n.value
      owners.append(n)
  if not aliases:
    return
  # aliases of aliases: close the table first
  for _ in range(5):
    inner = _AliasSubst(dict(aliases))
    changed = False
    for k in list(aliases):
      if any(isinstance(x, ast.Name) and x.id in aliases
             for x in ast.walk(aliases[k])):
        aliases[k] = inner.visit(copy.deepcopy(aliases[k]))
        changed = True
    if not changed:
      break
  # nested functions / comprehensions may capture the name: still a plain read
  sub = _AliasSubst(aliases)
  for field, val in ast.iter_fields(fn):
    if field == 'body':
      fn.body = [sub.visit(s) for s in fn.body]
  # drop the defining assignments
  for parent in ast.walk(fn):
    for field in ('body', 'orelse', 'finalbody'):
      blk = getattr(parent, field, None)
      if isinstance(blk, list):
        keep = [s for s in blk if not any(s is o for o in owners)]
        if len(keep) != len(blk):
          blk[:] = keep or [ast.Pass()]
    for h in getattr(parent, 'handlers', None) or []:
      keep = [s for s in h.body if not any(s is o for o in owners)]
      if len(keep) != len(h.body):
        h.body[:] = keep or [ast.Pass()]


def _expand_quantifier_returns(fn):
  for parent in ast.walk(fn):
    for blk in _canon_blocks(parent):
      i = 0
      while i < len(blk):
        st = blk[i]
        v = st.value if isinstance(st, ast.Return) else None
        if isinstance(v, ast.Call) and isinstance(v.func, ast.Name) and \
            v.func.id in ('any', 'all') and len(v.args) == 1 and \
            not v.keywords and isinstance(
                v.args[0], (ast.GeneratorExp, ast.ListComp)) and \
            len(v.args[0].generators) == 1 and \
            not v.args[0].generators[0].is_async:
          gen = v.args[0].generators[0]
          is_any = v.func.id == 'any'
          elt = v.args[0].elt
          cond = elt if is_any else ast.UnaryOp(op=ast.Not(), operand=elt)
          conds = list(gen.ifs) + [cond]
          test = conds[0] if len(conds) == 1 else ast.BoolOp(op=ast.And(),
                                                             values=conds)
          hit = ast.Return(value=ast.Constant(value=is_any))
          loop = ast.For(target=gen.target, iter=gen.iter,
                         body=[ast.If(test=test, body=[hit], orelse=[])],
                         orelse=[])
          for t in ast.walk(loop.target):
            if isinstance(t, ast.Name):
              t.ctx = ast.Store()
          tail = ast.Return(value=ast.Constant(value=not is_any))
          for n in (loop, tail):
            ast.copy_location(n, st)
          ast.fix_missing_locations(loop)
          ast.fix_missing_locations(tail)
          blk[i:i + 1] = [loop, tail]
          i += 2
          continue
        i += 1


def _expand_conditional_expressions(fn):
  for parent in ast.walk(fn):
    for blk in _canon_blocks(parent):
      for i, st in enumerate(blk):
        v = getattr(st, 'value', None)
        if not isinstance(v, ast.IfExp):
          continue
        if isinstance(st, ast.Return):
          a, b = ast.Return(value=v.body), ast.Return(value=v.orelse)
        elif isinstance(st, ast.Assign) and len(st.targets) == 1 and isinstance(
            st.targets[0], (ast.Name, ast.Subscript, ast.Attribute)):
          a = ast.Assign(targets=[st.targets[0]], value=v.body)
          b = ast.Assign(targets=[copy.deepcopy(st.targets[0])],
                         value=v.orelse)
        else:
          continue
        new = ast.If(test=v.test, body=[a], orelse=[b])
        for n in (new, a, b):
          ast.copy_location(n, st)
        blk[i] = new


def _expand_next_searches(fn):
  for parent in ast.walk(fn):
    for blk in _canon_blocks(parent):
      for i, st in enumerate(blk):
        if not (isinstance(st, ast.Assign) and len(st.targets) == 1 and
                isinstance(st.targets[0], ast.Name)):
          continue
        v = st.value
        if not (isinstance(v, ast.Call) and isinstance(v.func, ast.Name) and
                v.func.id == 'next' and len(v.args) == 2 and not v.keywords and
                isinstance(v.args[0], ast.GeneratorExp) and
                len(v.args[0].generators) == 1):
          continue
        gen = v.args[0].generators[0]
        hit = [ast.Assign(targets=[st.targets[0]], value=v.args[0].elt),
               ast.Break()]
        inner = hit
        if gen.ifs:
          test = gen.ifs[0] if len(gen.ifs) == 1 else ast.BoolOp(
              op=ast.And(), values=list(gen.ifs))
          inner = [ast.If(test=test, body=hit, orelse=[])]
        loop = ast.For(target=gen.target, iter=gen.iter, body=inner,
                       orelse=[ast.Assign(targets=[copy.deepcopy(st.targets[0])],
                                          value=v.args[1])])
        for t in ast.walk(loop.target):
          if isinstance(t, ast.Name):
            t.ctx = ast.Store()
        ast.copy_location(loop, st)
        ast.fix_missing_locations(loop)
        blk[i] = loop


def _split_tuple_assignments(fn):
  for parent in ast.walk(fn):
    for blk in _canon_blocks(parent):
      i = 0
      while i < len(blk):
        st = blk[i]
        if isinstance(st, ast.Assign) and len(st.targets) == 1 and isinstance(
            st.targets[0], ast.Tuple) and isinstance(st.value, ast.Tuple) and \
            len(st.targets[0].elts) == len(st.value.elts) and all(
                isinstance(t, ast.Name) for t in st.targets[0].elts[:-1]) and \
            (isinstance(st.targets[0].elts[-1], ast.Name) or
             # an attribute may be the last target: nothing is evaluated
             # after it is stored
             (isinstance(st.targets[0].elts[-1], ast.Attribute) and
              _chain(st.targets[0].elts[-1]) is not None)) and not \
            any(isinstance(v, ast.Starred) for v in st.value.elts):
          names = [t.id if isinstance(t, ast.Name) else '.' + t.attr
                   for t in st.targets[0].elts]
          ok = len(set(names)) == len(names)
          for j, v in enumerate(st.value.elts):
            reads = {x.id for x in ast.walk(v) if isinstance(x, ast.Name)}
            if reads & set(names[:j]):
              ok = False
          if ok:
            new = []
            for t, v in zip(st.targets[0].elts, st.value.elts):
              a = ast.Assign(targets=[t], value=v)
              ast.copy_location(a, st)
              new.append(a)
            blk[i:i + 1] = new
            i += len(new)
            continue
        i += 1


def _push_unpack_to_defs(fn):
  """C14: `T = (a, b)` on some branches, later `x, y = T` (the only read of
  T) -> `x, y = (a, b)` at each definition, when x / y do not occur between
  the first definition and the unpacking (all in one block).  Likewise
  `T = A` / `T = B` on branches then `x = T`: the branches define x."""
  loads, _ = _name_uses(fn)
  a = fn.args
  params = {x.arg for x in a.posonlyargs + a.args + a.kwonlyargs}
  for x in (a.vararg, a.kwarg):
    if x is not None:
      params.add(x.arg)
  for parent in ast.walk(fn):
    for blk in _canon_blocks(parent):
      for j, st in enumerate(blk):
        if not (isinstance(st, ast.Assign) and len(st.targets) == 1 and
                isinstance(st.value, ast.Name)):
          continue
        plain = isinstance(st.targets[0], ast.Name)  # `x = T`: T becomes x
        if not plain and not (isinstance(st.targets[0], ast.Tuple) and all(
            isinstance(t, ast.Name) for t in st.targets[0].elts)):
          continue
        tname = st.value.id
        telts = [st.targets[0]] if plain else st.targets[0].elts
        names = {t.id for t in telts}
        k = len(telts)
        if loads.get(tname, 0) != 1 or tname in names or len(names) != k or \
            tname in params:
          continue
        firsts = [i for i in range(j) if any(
            isinstance(x, ast.Name) and x.id == tname
            for x in ast.walk(blk[i]))]
        if not firsts:
          continue
        span = blk[firsts[0]:j]
        inside = []
        for b in span:
          for n in ast.walk(b):
            if isinstance(n, ast.Assign) and len(n.targets) == 1 and \
                isinstance(n.targets[0], ast.Name) and \
                n.targets[0].id == tname:
              inside.append(n)
        stores_in_span = sum(
            1 for b in span for n in ast.walk(b)
            if isinstance(n, ast.Name) and n.id == tname and
            isinstance(n.ctx, ast.Store))
        total_stores = sum(
            1 for n in ast.walk(fn) if isinstance(n, ast.Name) and
            n.id == tname and isinstance(n.ctx, (ast.Store, ast.Del)))
        if len(inside) != stores_in_span or stores_in_span != total_stores:
          continue
        ok = plain or all(
            (isinstance(n.value, ast.Tuple) and len(n.value.elts) == k
             and not any(isinstance(v, ast.Starred) for v in n.value.elts)) or
            (isinstance(n.value, ast.Constant) and n.value.value is None)
            for n in inside)
        if plain and len(inside) < 2:
          continue  # a single definition is C1's business
        if not ok or any(isinstance(x, ast.Name) and x.id in names
                         for b in span for x in ast.walk(b)):
          continue
        if any(isinstance(x, (ast.FunctionDef, ast.Lambda, ast.AsyncFunctionDef))
               for b in span for x in ast.walk(b)):
          continue
        for n in inside:
          if plain:
            n.targets = [ast.copy_location(ast.Name(
                id=telts[0].id, ctx=ast.Store()), n)]
          elif isinstance(n.value, ast.Tuple):
            n.targets = [ast.copy_location(ast.Tuple(
                elts=[ast.copy_location(ast.Name(id=t.id, ctx=ast.Store()), n)
                      for t in st.targets[0].elts], ctx=ast.Store()), n)]
          else:
            n.targets = [ast.copy_location(ast.Name(
                id='_unused_' + tname, ctx=ast.Store()), n)]
        del blk[j]
        if not blk:
          blk.append(ast.copy_location(ast.Pass(), st))
        return True
  return False


def _beta_reduce_lambdas(fn):
  """C21: `f = lambda x: E` (f bound once, only ever called, with plain
  arguments) -> every `f(a)` reads as E[x := a]."""
  loads, stores = _name_uses(fn)
  for parent in ast.walk(fn):
    for blk in _canon_blocks(parent):
      for st in list(blk):
        if not (isinstance(st, ast.Assign) and len(st.targets) == 1 and
                isinstance(st.targets[0], ast.Name) and
                isinstance(st.value, ast.Lambda)):
          continue
        name, lam = st.targets[0].id, st.value
        a = lam.args
        if stores.get(name, 0) != 1 or a.vararg or a.kwarg or a.kwonlyargs \
            or a.defaults or a.posonlyargs:
          continue
        params = [x.arg for x in a.args]
        calls = [n for n in ast.walk(fn) if isinstance(n, ast.Call) and
                 isinstance(n.func, ast.Name) and n.func.id == name]
        if len(calls) != loads.get(name, 0) or not calls:
          continue  # also passed around as a value
        if any(c.keywords or len(c.args) != len(params) or not all(
            isinstance(x, (ast.Name, ast.Constant)) or _chain(x) is not None
            for x in c.args) for c in calls):
          continue
        if any(isinstance(x, (ast.Lambda, ast.Yield, ast.Await, ast.NamedExpr))
               for x in ast.walk(lam.body)):
          continue
        ids = {id(c) for c in calls}

        class _T(ast.NodeTransformer):

          def visit_Call(self, n):
            self.generic_visit(n)
            if id(n) in ids:
              sub = _AliasSubst(dict(zip(params, n.args)))
              return ast.copy_location(sub.visit(copy.deepcopy(lam.body)), n)
            return n
        for b2 in ast.walk(fn):
          for blk2 in _canon_blocks(b2):
            for k, s2 in enumerate(blk2):
              if s2 is not st:
                blk2[k] = _T().visit(s2)
        blk.remove(st)
        if not blk:
          blk.append(ast.copy_location(ast.Pass(), st))
        return True
  return False


def _desugar_suppress(fn):
  """C22: `with contextlib.suppress(E1, ...): BODY` is
  `try: BODY except (E1, ...): pass`."""
  for parent in ast.walk(fn):
    for blk in _canon_blocks(parent):
      for i, st in enumerate(blk):
        if isinstance(st, ast.With) and len(st.items) == 1 and \
            st.items[0].optional_vars is None and isinstance(
                st.items[0].context_expr, ast.Call) and dotted(
                    st.items[0].context_expr.func) in (
                        'contextlib.suppress', 'suppress') and \
            st.items[0].context_expr.args and \
            not st.items[0].context_expr.keywords:
          args = st.items[0].context_expr.args
          typ = args[0] if len(args) == 1 else ast.copy_location(
              ast.Tuple(elts=list(args), ctx=ast.Load()), st)
          h = ast.copy_location(ast.ExceptHandler(
              type=typ, name=None, body=[ast.copy_location(ast.Pass(), st)]),
                                st)
          blk[i] = ast.copy_location(ast.Try(
              body=st.body, handlers=[h], orelse=[], finalbody=[]), st)


def _merge_nested_try(fn):
  """C20: `try: (try: A except E: H) finally: F` is `try: A except E: H
  finally: F` (the outer try has no handlers / else of its own and its body
  is exactly the inner try, which has no finally)."""
  for n in ast.walk(fn):
    if isinstance(n, ast.Try) and n.finalbody and not n.handlers and \
        not n.orelse and len(n.body) == 1 and isinstance(n.body[0], ast.Try) \
        and not n.body[0].finalbody:
      inner = n.body[0]
      n.body, n.handlers, n.orelse = inner.body, inner.handlers, inner.orelse


def _strip_bool(e):
  """C15: `bool(X)` in a truth-test position is X."""
  if isinstance(e, ast.Call) and isinstance(e.func, ast.Name) and \
      e.func.id == 'bool' and len(e.args) == 1 and not e.keywords and \
      not isinstance(e.args[0], ast.Starred):
    return _strip_bool(e.args[0])
  if isinstance(e, ast.UnaryOp) and isinstance(e.op, ast.Not):
    e.operand = _strip_bool(e.operand)
  elif isinstance(e, ast.BoolOp):
    e.values = [_strip_bool(v) for v in e.values]
  return e


def _strip_bool_in_tests(fn):
  for n in ast.walk(fn):
    if isinstance(n, (ast.If, ast.While, ast.IfExp, ast.Assert)):
      n.test = _strip_bool(n.test)


def _canon_function(fn, tuple_types=None):
  # two rounds: folding a temporary (C1/C6) can expose a shape of the first
  # group (`r = any(...); return r`)
  for _ in range(2):
    _canon_function_once(fn)
    _project_tuple_fields(fn, tuple_types)
  if tuple_types:
    _canon_function_once(fn)


def _canon_function_once(fn):
  for _ in range(3):
    if not _beta_reduce_lambdas(fn):
      break
  _desugar_suppress(fn)
  _merge_nested_try(fn)
  _strip_bool_in_tests(fn)
  for _ in range(4):
    if not _push_unpack_to_defs(fn):
      break
  _split_tuple_assignments(fn)
  _expand_next_searches(fn)
  _expand_conditional_expressions(fn)
  _expand_quantifier_returns(fn)
  _propagate_aliases(fn)
  loads, stores = _name_uses(fn)
  stack = [fn]
  while stack:
    node = stack.pop()
    for blk in _canon_blocks(node):
      i = 0
      while i < len(blk):
        st = blk[i]
        # C4
        if isinstance(st, ast.AnnAssign) and st.value is not None:
          new = ast.Assign(targets=[st.target], value=st.value)
          ast.copy_location(new, st)
          blk[i] = st = new
        single = isinstance(st, ast.Assign) and len(st.targets) == 1 and \
            isinstance(st.targets[0], ast.Name)
        name = st.targets[0].id if single else None
        # C2
        if single and isinstance(st.value, ast.Constant) and \
            loads.get(name, 0) == 0 and len(blk) > 1:
          del blk[i]
          continue
        # C1 / C6
        if single and i + 1 < len(blk) and loads.get(name, 0) == 1 and \
            stores.get(name, 0) == 1 and not isinstance(
                st.value, (ast.Yield, ast.YieldFrom, ast.Await)) and \
            _inline_temp(name, st.value, blk[i + 1]):
          del blk[i]
          if i > 0:
            i -= 1  # the statement before may now be inlinable too
          continue
        # C3
        if single and isinstance(st.value, ast.BinOp) and isinstance(
            st.value.left, ast.Name) and st.value.left.id == name:
          new = ast.AugAssign(target=ast.Name(id=name, ctx=ast.Store()),
                              op=st.value.op, value=st.value.right)
          ast.copy_location(new, st)
          ast.copy_location(new.target, st.targets[0])
          blk[i] = new
        if not isinstance(st, (ast.FunctionDef, ast.AsyncFunctionDef,
                               ast.ClassDef)):
          stack.append(st)
        i += 1


class _NameSubst(ast.NodeTransformer):

  def __init__(self, mapping):
    self.mapping = mapping

  def visit_Name(self, n):
    if isinstance(n.ctx, ast.Load) and n.id in self.mapping:
      from sa import inline  # pylint: disable=g-import-not-at-top
      return ast.copy_location(inline._fast_copy(self.mapping[n.id]), n)  # pylint: disable=protected-access
    return n


def _fold_getattr(tree):
  for parent in ast.walk(tree):
    for field, val in ast.iter_fields(parent):
      items = val if isinstance(val, list) else [val]
      for i, x in enumerate(items):
        if isinstance(x, ast.Call) and isinstance(x.func, ast.Name) and \
            x.func.id == 'getattr' and len(x.args) == 2 and not x.keywords \
            and isinstance(x.args[1], ast.Constant) and isinstance(
                x.args[1].value, str) and x.args[1].value.isidentifier():
          new = ast.copy_location(ast.Attribute(
              value=x.args[0], attr=x.args[1].value, ctx=ast.Load()), x)
          if isinstance(val, list):
            val[i] = new
          else:
            setattr(parent, field, new)


def _unroll_table_loops(fn, class_consts):
  from sa import inline  # pylint: disable=g-import-not-at-top
  loads, stores = _name_uses(fn)
  local_tables = {}
  for n in ast.walk(fn):
    if isinstance(n, ast.Assign) and len(n.targets) == 1 and isinstance(
        n.targets[0], ast.Name) and isinstance(n.value, (ast.Tuple, ast.List)) \
        and stores.get(n.targets[0].id, 0) == 1:
      local_tables[n.targets[0].id] = n.value

  def table_of(e):
    if isinstance(e, (ast.Tuple, ast.List)):
      return e
    if isinstance(e, ast.Name) and e.id in local_tables:
      return local_tables[e.id]
    if isinstance(e, ast.Attribute) and isinstance(e.value, ast.Name) and \
        e.value.id in ('self', 'cls') and e.attr in class_consts:
      return class_consts[e.attr]
    return None
  changed = True
  rounds = 0
  while changed and rounds < 4:
    changed = False
    rounds += 1
    for parent in ast.walk(fn):
      for blk in _canon_blocks(parent):
        for i, st in enumerate(blk):
          if not isinstance(st, ast.For) or st.orelse:
            continue
          tab = table_of(st.iter)
          if tab is None or not 0 < len(tab.elts) <= 16:
            continue
          tg = st.target
          names = [tg.id] if isinstance(tg, ast.Name) else (
              [e.id for e in tg.elts] if isinstance(tg, ast.Tuple) and all(
                  isinstance(e, ast.Name) for e in tg.elts) else None)
          if names is None:
            continue
          if isinstance(tg, ast.Tuple) and not all(
              isinstance(e, (ast.Tuple, ast.List)) and len(e.elts) == len(names)
              for e in tab.elts):
            continue
          inner = [x for s in st.body for x in ast.walk(s)]
          if any(isinstance(x, (ast.Break, ast.Continue)) for x in inner):
            continue
          if any(isinstance(x, ast.Name) and x.id in names and isinstance(
              x.ctx, (ast.Store, ast.Del)) for x in inner):
            continue
          if any(loads.get(nm, 0) and False for nm in names):
            continue
          out = []
          for e in tab.elts:
            vals = list(e.elts) if isinstance(tg, ast.Tuple) else [e]
            sub = _NameSubst(dict(zip(names, vals)))
            for s in st.body:
              out.append(sub.visit(inline._fast_copy(s)))  # pylint: disable=protected-access
          blk[i:i + 1] = out
          changed = True
          break
        if changed:
          break
      if changed:
        break
  if rounds > 1:
    ast.fix_missing_locations(fn)


def _string_literal(e):
  """A string / bytes constant or a non-empty tuple of them."""
  if isinstance(e, ast.Constant):
    return isinstance(e.value, (str, bytes))
  if isinstance(e, ast.Tuple):
    return bool(e.elts) and all(_string_literal(x) for x in e.elts)
  return False


def _number_literal(e):
  """An int / float constant other than the flag values 0, 1, True, False
  (also negated, also a tuple of such)."""
  if isinstance(e, ast.UnaryOp) and isinstance(e.op, ast.USub):
    e = e.operand
  if isinstance(e, ast.Constant):
    return isinstance(e.value, (int, float)) and not isinstance(
        e.value, bool) and e.value not in (0, 1)
  return False


def _propagate_module_constants(tree, known=None):
  """`known`: constant names of this module in the reference tree (the rules
  may read those by name); a numeric constant is replaced by its value only
  when it is a new name (a magic number hoisted by a clean-up)."""
  consts = {}
  counts = {}
  for st in tree.body:
    if isinstance(st, ast.Assign) and len(st.targets) == 1 and isinstance(
        st.targets[0], ast.Name):
      counts[st.targets[0].id] = counts.get(st.targets[0].id, 0) + 1
      nm = st.targets[0].id
      if nm.strip('_').isupper() and nm.strip('_') and _string_literal(
          st.value):
        consts[nm] = st.value
      elif nm.strip('_').isupper() and nm.strip('_') and known is not None \
          and nm not in known and _number_literal(st.value):
        consts[nm] = st.value
  for n in ast.walk(tree):
    if isinstance(n, ast.Name) and isinstance(n.ctx, (ast.Store, ast.Del)) and \
        n.id in consts and counts.get(n.id, 0) >= 1:
      counts[n.id] = counts.get(n.id, 0) + 0
    if isinstance(n, (ast.Global,)):
      for x in n.names:
        consts.pop(x, None)
  consts = {k: v for k, v in consts.items() if counts.get(k, 0) == 1}
  if not consts:
    return
  # names rebound locally (parameters, locals) keep their local meaning
  def rebinds(fn):
    out = set()
    for x in ast.walk(fn):
      if isinstance(x, ast.arg):
        out.add(x.arg)
      elif isinstance(x, ast.Name) and isinstance(x.ctx, (ast.Store, ast.Del)):
        out.add(x.id)
    return out

  def subst(node, shadow):
    for field, val in ast.iter_fields(node):
      items = val if isinstance(val, list) else [val]
      for i, x in enumerate(items):
        if isinstance(x, ast.Name) and isinstance(x.ctx, ast.Load) and \
            x.id in consts and x.id not in shadow:
          new = ast.copy_location(copy.deepcopy(consts[x.id]), x)
          if isinstance(val, list):
            val[i] = new
          else:
            setattr(node, field, new)
        elif isinstance(x, (ast.FunctionDef, ast.AsyncFunctionDef, ast.Lambda)):
          subst(x, shadow | rebinds(x))
        elif isinstance(x, ast.AST):
          subst(x, shadow)
  for st in tree.body:
    if isinstance(st, ast.Assign) and len(st.targets) == 1 and isinstance(
        st.targets[0], ast.Name) and st.targets[0].id in consts:
      continue
    if isinstance(st, (ast.FunctionDef, ast.AsyncFunctionDef)):
      subst(st, rebinds(st))
    else:
      subst(st, set())


def _fold_struct_objects(tree):
  """C16: a module- or class-level `N = struct.Struct(F)` used as
  `N.pack(...)`, `N.unpack(b)`, `N.size` reads as `struct.pack(F, ...)`,
  `struct.unpack(F, b)`, `struct.calcsize(F)`."""
  consts = {}
  holders = [tree] + [c for c in tree.body if isinstance(c, ast.ClassDef)]
  # `SIZE = struct.calcsize(FORMAT)` next to FORMAT: SIZE reads as the call
  sizes = {}
  for h in holders:
    for st in h.body:
      if isinstance(st, ast.Assign) and len(st.targets) == 1 and isinstance(
          st.targets[0], ast.Name) and isinstance(st.value, ast.Call) and \
          dotted(st.value.func) == 'struct.calcsize' and \
          len(st.value.args) == 1 and isinstance(st.value.args[0], ast.Name):
        sizes[st.targets[0].id] = (st, h, st.value.args[0].id)
  for n in ast.walk(tree):
    nm = n.id if isinstance(n, ast.Name) and isinstance(
        n.ctx, (ast.Store, ast.Del)) else (
            n.attr if isinstance(n, ast.Attribute) and isinstance(
                n.ctx, (ast.Store, ast.Del)) else None)
    if nm in sizes and n is not sizes[nm][0].targets[0]:
      del sizes[nm]
  if sizes:
    class _S(ast.NodeTransformer):

      def visit_Attribute(self, n):
        self.generic_visit(n)
        if isinstance(n.ctx, ast.Load) and n.attr in sizes and isinstance(
            sizes[n.attr][1], ast.ClassDef):
          f = ast.copy_location(ast.Attribute(
              value=n.value, attr=sizes[n.attr][2], ctx=ast.Load()), n)
          return ast.copy_location(ast.Call(
              func=ast.copy_location(ast.Attribute(value=ast.copy_location(
                  ast.Name(id='struct', ctx=ast.Load()), n), attr='calcsize',
                                                   ctx=ast.Load()), n),
              args=[f], keywords=[]), n)
        return n
    for st in tree.body:
      _S().visit(st)
  for h in holders:
    for st in h.body:
      if isinstance(st, ast.Assign) and len(st.targets) == 1 and isinstance(
          st.targets[0], ast.Name) and isinstance(st.value, ast.Call) and \
          dotted(st.value.func) == 'struct.Struct' and \
          len(st.value.args) == 1 and not st.value.keywords and isinstance(
              st.value.args[0], (ast.Constant, ast.Name)):
        consts[st.targets[0].id] = (st, h, st.value.args[0])
  if not consts:
    return
  for n in ast.walk(tree):
    name = None
    if isinstance(n, ast.Name) and isinstance(n.ctx, (ast.Store, ast.Del)):
      name = n.id
    elif isinstance(n, ast.Attribute) and isinstance(n.ctx, (ast.Store,
                                                              ast.Del)):
      name = n.attr
    if name in consts and n is not consts[name][0].targets[0]:
      del consts[name]  # rebound somewhere: not a constant
  if not consts:
    return

  def ref(e):
    """(N, prefix) if e refers to a struct constant."""
    if isinstance(e, ast.Name) and e.id in consts and isinstance(
        consts[e.id][1], ast.Module):
      return e.id, None
    if isinstance(e, ast.Attribute) and e.attr in consts and isinstance(
        consts[e.attr][1], ast.ClassDef):
      return e.attr, e.value
    return None

  def fmt(r, at):
    name, prefix = r
    f = consts[name][2]
    if isinstance(f, ast.Constant) or prefix is None:
      new = ast.Constant(value=f.value) if isinstance(f, ast.Constant) else \
          ast.Name(id=f.id, ctx=ast.Load())
    else:
      new = ast.Attribute(value=prefix, attr=f.id, ctx=ast.Load())
    return ast.copy_location(new, at)

  def sfunc(attr, at):
    return ast.copy_location(ast.Attribute(
        value=ast.copy_location(ast.Name(id='struct', ctx=ast.Load()), at),
        attr=attr, ctx=ast.Load()), at)

  class _T(ast.NodeTransformer):

    def visit_Call(self, n):
      if isinstance(n.func, ast.Attribute) and n.func.attr in (
          'pack', 'unpack') and ref(n.func.value) is not None:
        r = ref(n.func.value)
        args = [self.visit(a) for a in n.args]
        return ast.copy_location(ast.Call(
            func=sfunc(n.func.attr, n), args=[fmt(r, n)] + args,
            keywords=n.keywords), n)
      self.generic_visit(n)
      return n

    def visit_Attribute(self, n):
      if n.attr == 'size' and isinstance(n.ctx, ast.Load) and \
          ref(n.value) is not None:
        return ast.copy_location(ast.Call(
            func=sfunc('calcsize', n), args=[fmt(ref(n.value), n)],
            keywords=[]), n)
      self.generic_visit(n)
      return n
  _T().visit(tree)
  left = set()
  for n in ast.walk(tree):
    if isinstance(n, ast.Name) and isinstance(n.ctx, ast.Load):
      left.add(n.id)
    elif isinstance(n, ast.Attribute) and isinstance(n.ctx, ast.Load):
      left.add(n.attr)
  for name, (st, h, _) in consts.items():
    if name not in left and not name.startswith('__'):
      h.body.remove(st)


def _namedtuple_types(tree):
  """{class name: [field names]} for the module's collections.namedtuple
  types (assigned, or used as the single base of a class that does not
  redefine a field)."""
  def fields_of(call):
    if not (isinstance(call, ast.Call) and (dotted(call.func) or '').endswith(
        'namedtuple') and len(call.args) >= 2):
      return None
    f = call.args[1]
    if isinstance(f, ast.Constant) and isinstance(f.value, str):
      return f.value.replace(',', ' ').split()
    if isinstance(f, (ast.List, ast.Tuple)) and all(
        isinstance(e, ast.Constant) and isinstance(e.value, str)
        for e in f.elts):
      return [e.value for e in f.elts]
    return None
  out = {}
  for st in tree.body:
    if isinstance(st, ast.Assign) and len(st.targets) == 1 and isinstance(
        st.targets[0], ast.Name):
      f = fields_of(st.value)
      if f:
        out[st.targets[0].id] = f
    elif isinstance(st, ast.ClassDef) and len(st.bases) == 1:
      f = fields_of(st.bases[0])
      if f:
        own = {m.name for m in st.body if isinstance(m, ast.FunctionDef)} | {
            t.id for m in st.body if isinstance(m, ast.Assign)
            for t in m.targets if isinstance(t, ast.Name)}
        if not (own & (set(f) | {'__new__', '__init__', '__getattr__',
                                 '__getattribute__'})):
          out[st.name] = f
  return out


def _project_tuple_fields(fn, types):
  """C17: `p = T(a, b)` (T a namedtuple type of the module, a / b plain
  locals defined earlier in the same block and nowhere else, p bound only
  here and read only later in this block) -> `p.x` reads as `a`."""
  if not types:
    return
  loads, stores = _name_uses(fn)
  for parent in ast.walk(fn):
    for blk in _canon_blocks(parent):
      for j, st in enumerate(blk):
        if not (isinstance(st, ast.Assign) and len(st.targets) == 1 and
                isinstance(st.targets[0], ast.Name) and
                isinstance(st.value, ast.Call) and
                isinstance(st.value.func, ast.Name) and
                st.value.func.id in types and not st.value.keywords):
          continue
        p = st.targets[0].id
        fields = types[st.value.func.id]
        args = st.value.args
        if stores.get(p, 0) != 1 or len(args) != len(fields):
          continue
        # the arguments are plain locals (or constant slices of them) defined
        # once, by earlier statements of this block
        defined = set()
        for b in blk[:j]:
          if isinstance(b, ast.Assign) and len(b.targets) == 1 and isinstance(
              b.targets[0], ast.Name):
            defined.add(b.targets[0].id)

        def stable(a):
          if isinstance(a, ast.Constant):
            return True
          if isinstance(a, ast.Name):
            return stores.get(a.id, 0) == 1 and a.id in defined
          if isinstance(a, ast.Subscript) and isinstance(a.value, ast.Name):
            sl = a.slice
            parts = [sl.lower, sl.upper, sl.step] if isinstance(
                sl, ast.Slice) else [sl]
            return stable(a.value) and all(
                x is None or isinstance(x, ast.Constant) for x in parts)
          return False
        if not all(stable(a) for a in args):
          continue
        later = sum(1 for b in blk[j + 1:] for n in ast.walk(b)
                    if isinstance(n, ast.Name) and n.id == p)
        if later != loads.get(p, 0):
          continue  # read somewhere else (e.g. before, in a loop)
        mapping = dict(zip(fields, args))

        class _T(ast.NodeTransformer):

          def visit_Attribute(self, n):
            if isinstance(n.value, ast.Name) and n.value.id == p and \
                isinstance(n.ctx, ast.Load) and n.attr in mapping:
              import copy  # pylint: disable=g-import-not-at-top
              return ast.copy_location(copy.deepcopy(mapping[n.attr]), n)
            self.generic_visit(n)
            return n
        for k in range(j + 1, len(blk)):
          blk[k] = _T().visit(blk[k])


def _keywords_to_positional(tree):
  """C18: `self.m(a, b, flag=True)` -> `self.m(a, b, True)` when m is a
  method of the enclosing class and the keywords continue its positional
  parameters without a gap (module functions keep their keywords: the rules
  read those by name)."""

  def params_of(fn, bound):
    a = fn.args
    if a.vararg or a.posonlyargs:
      return None
    names = [x.arg for x in a.args]
    kinds = [dotted(d) for d in fn.decorator_list]
    if bound and 'staticmethod' not in kinds:
      names = names[1:]
    if any(k not in ('staticmethod', 'classmethod', None) and
           k is not None and k not in ('staticmethod', 'classmethod')
           for k in kinds):
      return None
    return names

  def fix(call, names):
    if names is None or not call.keywords or any(
        k.arg is None for k in call.keywords) or any(
            isinstance(a, ast.Starred) for a in call.args):
      return
    pos = list(call.args)
    kws = {k.arg: k.value for k in call.keywords}
    moved = 0
    while len(pos) < len(names) and names[len(pos)] in kws:
      pos.append(kws.pop(names[len(pos)]))
      moved += 1
    if moved and len(kws) + moved == len(call.keywords):
      # keyword values are evaluated left to right after the positionals:
      # only reorder when they were already in parameter order
      order = [k.arg for k in call.keywords if k.arg not in kws]
      if order == names[len(call.args):len(call.args) + moved]:
        call.args = pos
        call.keywords = [k for k in call.keywords if k.arg in kws]

  def walk_scope(node, methods):
    for n in ast.walk(node):
      if not isinstance(n, ast.Call):
        continue
      f = n.func
      if isinstance(f, ast.Attribute) and isinstance(f.value, ast.Name) and \
          f.value.id in ('self', 'cls') and methods.get(f.attr) is not None:
        fix(n, params_of(methods[f.attr], True))
  for st in tree.body:
    if isinstance(st, ast.ClassDef):
      methods = {}
      for m in st.body:
        if isinstance(m, ast.FunctionDef):
          methods[m.name] = None if m.name in methods else m
      walk_scope(st, methods)
    else:
      walk_scope(st, {})


def _enum_identity_to_equality(tree):
  """C19: `x is Enum.MEMBER` / `is not` -> `==` / `!=` (identity and equality
  coincide for enum members; spelled `<Name>.<UPPER_CASE>` at the end of an
  attribute chain)."""
  for n in ast.walk(tree):
    if isinstance(n, ast.Compare) and len(n.ops) == 1 and isinstance(
        n.ops[0], (ast.Is, ast.IsNot)):
      for side in (n.left, n.comparators[0]):
        if isinstance(side, ast.Attribute) and side.attr.isupper() and \
            len(side.attr) > 1:
          owner = side.value
          oname = owner.attr if isinstance(owner, ast.Attribute) else (
              owner.id if isinstance(owner, ast.Name) else '')
          if oname.lstrip('_')[:1].isupper() and not oname.isupper():
            n.ops[0] = ast.Eq() if isinstance(n.ops[0], ast.Is) else \
                ast.NotEq()
            break


def canonicalise(tree, known_constants=None):
  _keywords_to_positional(tree)
  _enum_identity_to_equality(tree)
  _fold_struct_objects(tree)
  _propagate_module_constants(tree, known_constants)
  for n in ast.walk(tree):  # f(*(a, b)) is f(a, b)
    if isinstance(n, ast.Call) and any(
        isinstance(x, ast.Starred) and isinstance(x.value, (ast.Tuple,
                                                            ast.List))
        for x in n.args):
      flat = []
      for x in n.args:
        if isinstance(x, ast.Starred) and isinstance(x.value, (ast.Tuple,
                                                               ast.List)):
          flat.extend(x.value.elts)
        else:
          flat.append(x)
      n.args = flat
  _fold_getattr(tree)
  for c in ast.walk(tree):
    if isinstance(c, ast.ClassDef):
      consts = {}
      for st in c.body:
        if isinstance(st, ast.Assign) and len(st.targets) == 1 and isinstance(
            st.targets[0], ast.Name) and isinstance(st.value, (ast.Tuple,
                                                                ast.List)):
          consts[st.targets[0].id] = st.value
      for m in c.body:
        if isinstance(m, (ast.FunctionDef, ast.AsyncFunctionDef)):
          _unroll_table_loops(m, consts)
  for n in tree.body:
    if isinstance(n, (ast.FunctionDef, ast.AsyncFunctionDef)):
      _unroll_table_loops(n, {})
  _fold_getattr(tree)
  nt = _namedtuple_types(tree)
  for n in ast.walk(tree):
    if isinstance(n, (ast.FunctionDef, ast.AsyncFunctionDef)):
      _canon_function(n, nt)
    elif isinstance(n, ast.Compare) and len(n.ops) == 1 and isinstance(
        n.ops[0], (ast.Lt, ast.LtE)):
      n.left, n.comparators[0] = n.comparators[0], n.left
      n.ops[0] = ast.Gt() if isinstance(n.ops[0], ast.Lt) else ast.GtE()
  return tree


_ANCHORS = None


def load_anchors():
  """(relpath, qualname) of the functions the rules are anchored in: never
  inlined into their callers (sa/anchors.json, regenerated by
  tools/gen_anchors.py from what the rules request on the current tree)."""
  global _ANCHORS  # pylint: disable=global-statement
  if _ANCHORS is None:
    path = os.path.join(os.path.dirname(os.path.abspath(__file__)),
                        'anchors.json')
    try:
      with open(path, encoding='utf-8') as f:
        _ANCHORS = frozenset((a, b) for a, b in json.load(f))
    except (OSError, ValueError) as e:
      raise AnalysisError('anchors table unreadable: %s' % e)
  return _ANCHORS


class Module(object):

  def __init__(self, relpath, src, anchors=None, foreign_text=None, tree=None):
    self.relpath = relpath
    self.src = src
    self.tree = tree if tree is not None else ast.parse(src, filename=relpath)
    self.inline_log = []
    if anchors is not None and any(a[0] == relpath for a in anchors):
      from sa import inline  # pylint: disable=g-import-not-at-top
      self.inline_log = inline.inline_module(
          self.tree, relpath, anchors, foreign_text or (lambda name: False))
    from sa import renames  # pylint: disable=g-import-not-at-top
    ref_consts = renames.load_reference().get('constants')
    canonicalise(self.tree, None if ref_consts is None else set(
        ref_consts.get(relpath, ())))
    self.funcs = {}  # qualname -> [FuncInfo]  (property getter/setter share)
    self.classes = {}  # qualname -> ClassDef
    self.imports = {}  # alias -> dotted module/symbol
    self.constants = {}  # NAME -> expr (module-level simple assignments)
    self._annotate(self.tree, None)
    self._index(self.tree, '', None)
    for stmt in self.tree.body:
      self._index_import(stmt)
      if isinstance(stmt, ast.Assign) and len(stmt.targets) == 1 and \
          isinstance(stmt.targets[0], ast.Name):
        self.constants[stmt.targets[0].id] = stmt.value
      if isinstance(stmt, ast.AnnAssign) and isinstance(stmt.target, ast.Name) \
          and stmt.value is not None:
        self.constants[stmt.target.id] = stmt.value
      if isinstance(stmt, ast.If):  # TYPE_CHECKING imports
        for s in stmt.body:
          self._index_import(s)

  def _index_import(self, stmt):
    if isinstance(stmt, ast.Import):
      for a in stmt.names:
        self.imports[a.asname or a.name.split('.')[0]] = (
            a.name if a.asname else a.name.split('.')[0])
    elif isinstance(stmt, ast.ImportFrom):
      for a in stmt.names:
        self.imports[a.asname or a.name] = '%s.%s' % (stmt.module or '', a.name)

  def _annotate(self, node, parent):
    node._parent = parent
    node._module = self
    for c in ast.iter_child_nodes(node):
      # expression contexts and operator tokens are process-wide singletons:
      # never hang tree links on them
      if isinstance(c, (ast.expr_context, ast.operator, ast.unaryop,
                        ast.boolop, ast.cmpop)):
        continue
      self._annotate(c, node)

  def _index(self, node, prefix, cls):
    for c in ast.iter_child_nodes(node):
      if isinstance(c, (ast.FunctionDef, ast.AsyncFunctionDef)):
        q = prefix + c.name
        fi = FuncInfo(self, q, c, cls)
        c._finfo = fi
        self.funcs.setdefault(q, []).append(fi)
        self._index(c, q + '.', cls)
      elif isinstance(c, ast.ClassDef):
        q = prefix + c.name
        self.classes[q] = c
        self._index(c, q + '.', c)
      elif isinstance(c, (ast.If, ast.Try, ast.With, ast.For, ast.While)):
        self._index(c, prefix, cls)

  def all_funcs(self):
    for lst in self.funcs.values():
      for f in lst:
        yield f


class Repo(object):
  """All Python sources under <root>/openhtf (plus examples/bin/test lazily)."""

  def __init__(self, root=None, overrides=None, inline_helpers=True):
    self.root = root or REPO_DIR
    self.overrides = overrides or {}
    self.accessed = []  # FuncInfo objects requested by rules (dead-code check)
    self.modules = {}
    self.parse_errors = []
    pkg = os.path.join(self.root, 'openhtf')
    if not os.path.isdir(pkg):
      raise AnalysisError('repository not found at %s' % self.root)
    sources = {}
    for dirpath, dirnames, filenames in os.walk(pkg):
      dirnames[:] = sorted(d for d in dirnames
                           if d not in ('__pycache__', 'node_modules', 'dist'))
      for fn in sorted(filenames):
        if fn.endswith('.py'):
          full = os.path.join(dirpath, fn)
          rel = os.path.relpath(full, self.root)
          if rel in self.overrides:
            src = self.overrides[rel]
          else:
            with open(full, encoding='utf-8') as f:
              src = f.read()
          sources[rel] = src
    anchors = load_anchors() if inline_helpers else None
    trees = {}
    for rel in sorted(sources):
      try:
        trees[rel] = ast.parse(sources[rel], filename=rel)
      except SyntaxError as e:
        raise AnalysisError('parse error in %s: %s' % (rel, e))
    self.rename_log = []
    if inline_helpers:
      from sa import renames  # pylint: disable=g-import-not-at-top
      amap, fmap, self.rename_log = renames.detect(trees)
      renames.apply(trees, amap, fmap)
      for new, old in list(amap.items()) + list(fmap.items()):
        # keep the "is it referenced elsewhere" text search consistent
        for rel in sources:
          if new in sources[rel]:
            sources[rel] = sources[rel].replace(new, old)
    for rel in sorted(sources):
      def foreign_text(text, _rel=rel):
        return any(text in s for r, s in sources.items() if r != _rel)
      self.modules[rel] = Module(rel, sources[rel], anchors, foreign_text,
                                 tree=trees[rel])
    self.n_functions = sum(
        sum(len(v) for v in m.funcs.values()) for m in self.modules.values())

  def module(self, relpath):
    m = self.modules.get(relpath)
    if m is None:
      raise AnalysisError('anchor module vanished: %s' % relpath)
    return m

  def func(self, relpath, qualname, which=0):
    m = self.module(relpath)
    lst = m.funcs.get(qualname)
    if not lst:
      raise AnalysisError('anchor function vanished: %s::%s' %
                          (relpath, qualname))
    if which == 'setter':
      for f in lst:
        for d in f.node.decorator_list:
          if isinstance(d, ast.Attribute) and d.attr == 'setter':
            return f
      raise AnalysisError('anchor setter vanished: %s::%s' % (relpath, qualname))
    if lst[which] not in self.accessed:
      self.accessed.append(lst[which])
    return lst[which]

  def has_func(self, relpath, qualname):
    m = self.modules.get(relpath)
    return bool(m and m.funcs.get(qualname))

  def cls(self, relpath, qualname):
    m = self.module(relpath)
    c = m.classes.get(qualname)
    if c is None:
      raise AnalysisError('anchor class vanished: %s::%s' % (relpath, qualname))
    return c

  def methods(self, relpath, clsname):
    c = self.cls(relpath, clsname)
    m = self.module(relpath)
    return [f for f in m.all_funcs()
            if f.cls is c and f.node in c.body]

  def all_funcs(self):
    for m in self.modules.values():
      for f in m.all_funcs():
        yield f

  def all_nodes(self, types=None):
    for m in self.modules.values():
      for n in ast.walk(m.tree):
        if types is None or isinstance(n, types):
          yield m, n


def _resolve_base(repo, module, base_expr):
  """ClassDef a base-class expression refers to (by import table, then by
  unique class name), else None."""
  d = dotted(base_expr)
  if d is None:
    return None
  parts = d.split('.')
  name = parts[-1]
  cands = [(m, c) for m in repo.modules.values()
           for q, c in m.classes.items() if q == name]
  if len(parts) == 1 and name in module.classes:
    return module.classes[name]
  if len(parts) >= 2 and parts[-2] in module.imports:
    target = module.imports[parts[-2]].replace('.', '/') + '.py'
    for m, c in cands:
      if m.relpath.endswith(target):
        return c
  if len(parts) == 1 and name in module.imports:
    target = module.imports[name].rsplit('.', 1)[0].replace('.', '/') + '.py'
    for m, c in cands:
      if m.relpath.endswith(target):
        return c
  if len(cands) == 1:
    return cands[0][1]
  return None


def subclasses_of(repo, root_cls):
  """All ClassDefs (transitively) deriving from root_cls, root excluded."""
  direct = {}
  for m in repo.modules.values():
    for q, c in m.classes.items():
      for b in c.bases:
        r = _resolve_base(repo, m, b)
        if r is not None:
          direct.setdefault(id(r), []).append(c)
  out, stack, seen = [], [root_cls], set()
  while stack:
    c = stack.pop()
    for s in direct.get(id(c), []):
      if id(s) not in seen:
        seen.add(id(s))
        out.append(s)
        stack.append(s)
  return out


def ancestors_of(repo, cls_node):
  out, stack = [], [cls_node]
  while stack:
    c = stack.pop()
    for b in c.bases:
      r = _resolve_base(repo, c._module, b)
      if r is not None and r not in out:
        out.append(r)
        stack.append(r)
  return out


def is_abstract_class(cls_node):
  for b in cls_node.bases:
    if dotted(b) in ('abc.ABC', 'ABC'):
      return True
  for n in ast.walk(cls_node):
    if isinstance(n, ast.FunctionDef):
      for d in n.decorator_list:
        if dotted(d) in ('abc.abstractmethod', 'abstractmethod'):
          return True
  return False


def owner_qualname(node):
  """Qualified name of the innermost function (or class / <module>) holding
  node."""
  names = []
  for p in parents(node):
    if isinstance(p, (ast.FunctionDef, ast.AsyncFunctionDef, ast.ClassDef)):
      names.append(p.name)
  if isinstance(node, (ast.FunctionDef, ast.ClassDef)):
    names.insert(0, node.name)
  return '.'.join(reversed(names)) or '<module>'


def site(node):
  m = getattr(node, '_module', None)
  return '%s:%s' % (m.relpath if m else '?', getattr(node, 'lineno', '?'))


def class_attr_fields(cls_node):
  """Names assigned at class level via attr.ib(...) (attrs fields), in order."""
  out = []
  for s in cls_node.body:
    tgt = None
    val = None
    if isinstance(s, ast.Assign) and len(s.targets) == 1:
      tgt, val = s.targets[0], s.value
    elif isinstance(s, ast.AnnAssign):
      tgt, val = s.target, s.value
    if isinstance(tgt, ast.Name) and isinstance(val, ast.Call) and \
        call_name(val) in ('attr.ib', 'attr.attrib', 'attr.field'):
      out.append((tgt.id, val))
  return out


# --------------------------------------------------------------------------
# Whole-repo effect queries


def attr_write_sites(repo, attr, modules=None):
  """All sites writing `<x>.attr` (assign/augassign/del, also x.attr[k] = ..)
  or calling a mutator on it (`x.attr.append(..)`).  Returns list of
  (module, node, kind, target_expr)."""
  out = []
  for rel, m in repo.modules.items():
    if modules is not None and rel not in modules:
      continue
    for n in ast.walk(m.tree):
      if isinstance(n, (ast.Assign, ast.AugAssign, ast.AnnAssign, ast.Delete)):
        for t in assigned_targets(n):
          base = strip_subscripts(t)
          if isinstance(base, ast.Attribute) and base.attr == attr:
            kind = 'rebind' if base is t else 'item'
            if isinstance(n, ast.Delete):
              kind = 'del' if base is t else 'delitem'
            out.append((m, n, kind, t))
      elif isinstance(n, ast.Call) and isinstance(n.func, ast.Attribute) and \
          n.func.attr in MUTATORS:
        base = strip_subscripts(n.func.value)
        if isinstance(base, ast.Attribute) and base.attr == attr:
          out.append((m, n, 'mutator:' + n.func.attr, n.func.value))
  return out


def call_sites(repo, attr=None, name=None, modules=None):
  """All Call nodes whose last attribute is `attr` (or dotted name `name`)."""
  out = []
  for rel, m in repo.modules.items():
    if modules is not None and rel not in modules:
      continue
    for n in ast.walk(m.tree):
      if isinstance(n, ast.Call):
        if attr is not None and last_attr(n) == attr:
          out.append((m, n))
        elif name is not None and call_name(n) == name:
          out.append((m, n))
  return out


# --------------------------------------------------------------------------
# Reporting


class Report(object):

  def __init__(self, prop_id, tier, repo):
    self.prop = prop_id
    self.tier = tier
    self.repo = repo
    self.t0 = time.time()
    self.obligations = []  # dicts: rule, site, verdict, detail
    self.violations = []  # dicts
    self.infos = []
    self.rules = {}  # rule id -> description
    self.valuations = 0
    self.assumptions = []
    self.explanations = []
    self.exhaustive_tables = []
    self.selftest = None
    self.analysis_errors = []

  # -- rule bookkeeping
  def rule(self, rid, text):
    self.rules[rid] = text

  def ok(self, rule, node_or_site, detail):
    self.obligations.append({
        'rule': rule,
        'site': node_or_site if isinstance(node_or_site, str) else site(node_or_site),
        'verdict': 'holds',
        'detail': detail
    })

  def violation(self, rule, func, construct, node_or_site, detail):
    """func: qualified function name; construct: AST node or text (key)."""
    key = '%s::%s' % (func, norm(construct))
    s = node_or_site if isinstance(node_or_site, str) else site(node_or_site)
    v = {
        'property': self.prop,
        'rule': rule,
        'key': key,
        'site': s,
        'detail': detail
    }
    self.violations.append(v)
    self.obligations.append({
        'rule': rule,
        'site': s,
        'verdict': 'VIOLATED',
        'detail': detail
    })

  def check(self, cond, rule, func, construct, node_or_site, ok_detail,
            bad_detail=None):
    if cond:
      self.ok(rule, node_or_site, ok_detail)
    else:
      self.violation(rule, func, construct, node_or_site,
                     bad_detail or ('NOT: ' + ok_detail))
    return bool(cond)

  def info(self, rule, node_or_site, detail):
    self.infos.append({
        'rule': rule,
        'site': node_or_site if isinstance(node_or_site, str) else site(node_or_site),
        'detail': detail
    })

  def expect_instances(self, rule, found, expected_min, what):
    """The constructs a rule is about must exist.  On the pinned tree the
    counts were confirmed by hand; a tree on which they are missing has lost
    the mechanism itself (e.g. the payload write, the release, the record
    call), which is reported as a violation of the rule, and the rule stops."""
    if found < expected_min:
      self.violation(
          rule, 'missing', '%s (found %d, need %d)' % (what, found,
                                                       expected_min),
          'openhtf', 'rule %s is about %s: %d found, at least %d exist on the '
          'pinned tree; the construct that implements this part of the '
          'property is gone (or was rewritten beyond recognition)' %
          (rule, what, found, expected_min))
      raise RuleAbort(rule)

  def guard(self, fn, *args, **kwargs):
    """Runs one rule; a rule that aborts (missing construct) or breaks
    (unsupported construct) does not stop the other rules."""
    try:
      return fn(*args, **kwargs)
    except RuleAbort:
      return None
    except AnalysisError as e:
      self.analysis_errors.append(str(e))
      return None
    except Exception as e:  # pylint: disable=broad-except
      import traceback  # pylint: disable=g-import-not-at-top
      self.analysis_errors.append('internal exception in %s: %r\n%s' % (
          getattr(fn, '__name__', fn), e, traceback.format_exc(limit=4)))
      return None

  def table(self, rule, n_valuations, exhaustive=True):
    self.valuations += n_valuations
    if exhaustive:
      self.exhaustive_tables.append(rule)

  def assume(self, text):
    if text not in self.assumptions:
      self.assumptions.append(text)

  def explain(self, text):
    self.explanations.append(text)


def load_known_findings():
  path = os.path.join(VERIF_DIR, 'known_findings.json')
  if not os.path.exists(path):
    return []
  with open(path) as f:
    return json.load(f).get('findings', [])


def finish(report, decides, does_not_decide):
  """Writes evidence, prints verdict lines, returns the exit code."""
  known = [k for k in load_known_findings()
           if k.get('property') == report.prop and k.get('status') == 'known']
  unlisted, listed = [], []
  for v in report.violations:
    hit = None
    for k in known:
      if k.get('rule') == v['rule'] and k.get('key') == v['key']:
        hit = k
        break
    if hit:
      listed.append((v, hit))
    else:
      unlisted.append(v)

  ev_dir = os.path.join(VERIF_DIR, 'evidence')
  os.makedirs(os.path.join(ev_dir, 'replay'), exist_ok=True)
  wall = time.time() - report.t0

  distinct = set()
  for o in report.obligations:
    distinct.add((o['rule'], o['site'], o['detail']))
  n_obl = len(report.obligations)
  n_bad = len(report.violations)
  samples = []
  seen_rules = set()
  for o in report.obligations:  # one sample per rule first, then violations
    if o['rule'] not in seen_rules:
      seen_rules.add(o['rule'])
      samples.append(o)
  for o in report.obligations:
    if o['verdict'] != 'holds' and o not in samples:
      samples.append(o)
  evidence = {
      'property_id': report.prop,
      'tier': report.tier,
      'seed': int(os.environ.get('VERIF_SEED', '0') or 0),
      'level': 'other',
      'coverage': {
          'explanation': (
              'Static analysis of /repo sources (ast, statement-level CFG with '
              'short-circuit test decomposition, decision-table extraction over '
              'a finite atom abstraction, whole-repo who-may-write/call '
              'queries). Nothing under /repo is imported or executed. DECIDES: '
              + decides + ' DOES NOT DECIDE: ' + does_not_decide + ' ' +
              ' '.join(report.explanations)),
          'rules': report.rules,
          'obligations': n_obl,
          'discharged': n_obl - n_bad,
          'evaluations': n_obl + report.valuations,
          'distinct_nontrivial': len(distinct),
          'rule': ('one obligation = one rule instance evaluated at one matched '
                   'site (file:line) of the current tree; distinct = distinct '
                   '(rule, site, detail) triples; valuations = rows of the '
                   'decision tables enumerated exhaustively over the declared '
                   'atoms'),
          'valuations_enumerated': report.valuations,
          'exhaustive': bool(report.exhaustive_tables),
          'exhaustive_tables': report.exhaustive_tables,
          'samples': samples[:60],
          'informational': report.infos[:40],
          'modules_parsed': len(report.repo.modules),
          'functions_indexed': report.repo.n_functions,
          'normal_form': (
              'before the rules ran every module was brought to the analysis '
              'normal form: private helpers that are not rule anchors inlined '
              'into their callers (list below), canonical statement shapes '
              'C1-C22 (core.canonicalise)'),
          'private_renames_undone': list(getattr(report.repo, 'rename_log',
                                                 [])),
          'helpers_inlined': sorted(set(
              l for m in report.repo.modules.values()
              for l in getattr(m, 'inline_log', [])
              if 'not inlined' not in l))[:80],
          'known_findings_listed': [v['key'] for v, _ in listed],
          'selftest': report.selftest,
      },
      'assumptions': report.assumptions + [
          'Python ast module parses the sources as the interpreter would',
          'rule tables and spec functions were written from properties.jsonl '
          'and docs/event_sequence.md and are part of the trusted base',
      ],
      'wall_s': round(wall, 3),
      'violations': len(unlisted),
  }
  with open(os.path.join(ev_dir, report.prop + '.json'), 'w') as f:
    json.dump(evidence, f, indent=1, sort_keys=True)
    f.write('\n')

  print('%s tier=%s modules=%d functions=%d rules=%d obligations=%d '
        'discharged=%d valuations=%d wall=%.2fs' %
        (report.prop, report.tier, len(report.repo.modules),
         report.repo.n_functions, len(report.rules), n_obl, n_obl - n_bad,
         report.valuations, wall))
  for v, k in listed:
    print('KNOWN-FINDING: property=%s rule=%s %s -- %s' %
          (report.prop, v['rule'], v['key'], k.get('what_fails', '')))
  code = EXIT_OK
  for e in report.analysis_errors:
    print('ANALYSIS-ERROR property=%s %s' % (report.prop, e))
    code = EXIT_BROKEN
  for i, v in enumerate(unlisted):
    rp = os.path.join(ev_dir, 'replay', '%s-%s-%d.json' %
                      (report.prop, v['rule'], i))
    with open(rp, 'w') as f:
      json.dump(v, f, indent=1, sort_keys=True)
      f.write('\n')
    print('  %s %s at %s: %s' % (v['rule'], v['key'], v['site'], v['detail']))
    print('VIOLATION property=%s replay=%s' % (report.prop, rp))
    code = EXIT_VIOLATION
  return code


def repeated_by_loop(node):
  """True if node is evaluated once per iteration of an enclosing loop of its
  function (inside the body / else of a for, or anywhere but the else of a
  while); the iterable of a `for` is evaluated once and does not count."""
  prev = node
  for p in parents(node):
    if isinstance(p, (ast.FunctionDef, ast.AsyncFunctionDef, ast.Lambda)):
      return False
    if isinstance(p, ast.For) and prev is not p.iter and prev is not p.target:
      return True
    if isinstance(p, ast.While):
      return True
    if isinstance(p, (ast.ListComp, ast.SetComp, ast.DictComp,
                      ast.GeneratorExp)):
      gen0 = p.generators[0] if p.generators else None
      if not (gen0 is not None and prev is gen0):
        return True
    prev = p
  return False
