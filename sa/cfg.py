"""Statement-level control-flow graph with short-circuit test decomposition.

Built per function from the AST (never from bytecode, nothing is executed).

Node kinds
  entry / exit (normal return or fall-through) / raise (exception leaves the
  function) / stmt (simple statement) / test (one *atom* of an if/while/assert
  condition: `a and not b` becomes two test nodes) / for (iterator step) /
  loop (while head join) / with_enter / with_exit / handler (except clause
  entry) / dispatch (exception dispatch of a try).

Edge labels
  next, T, F, iter (for: one more element), done (for: exhausted), ret, brk,
  cont, raise (explicit raise / failed assert), exc (implicit exceptional
  transfer out of a statement that may raise).

`finally` bodies are duplicated per continuation (normal, return, raise,
break, continue).  `with` exits likewise.  A `yield` (contextmanager) has a
normal and an exceptional successor.  Statements that contain a call,
subscript, yield, raise, assert or `%` are assumed able to raise.
"""

import ast

from sa.core import AnalysisError, walk_no_nested
from sa.core import dotted as core_dotted


class N(object):
  __slots__ = ('id', 'kind', 'ast', 'exprs', 'succs', 'preds', 'tag')

  def __init__(self, nid, kind, node=None, exprs=None, tag=None):
    self.id = nid
    self.kind = kind
    self.ast = node
    self.exprs = exprs if exprs is not None else ([node] if node is not None else [])
    self.succs = []
    self.preds = []
    self.tag = tag

  @property
  def lineno(self):
    return getattr(self.ast, 'lineno', 0)

  def subnodes(self):
    for e in self.exprs:
      for n in walk_no_nested(e):
        yield n

  def contains(self, sub):
    return any(n is sub for n in self.subnodes())

  def succ(self, label):
    for l, n in self.succs:
      if l == label:
        return n
    return None

  def __repr__(self):
    try:
      txt = ast.unparse(self.ast).split('\n')[0][:50] if self.ast is not None else ''
    except Exception:  # pylint: disable=broad-except
      txt = '?'
    return '<N%d %s L%s %s>' % (self.id, self.kind, self.lineno, txt)


_RAISING = (ast.Call, ast.Subscript, ast.Yield, ast.YieldFrom, ast.Await,
            ast.Raise, ast.Assert)


_LOG_METHODS = ('debug', 'info', 'warning', 'warn', 'error', 'exception',
                'critical', 'log')


def is_log_call(n):
  """`<something named *log*>.debug/info/...(...)` whose arguments contain no
  further call or subscript: the logging package does not propagate handler
  errors, so such a statement is modelled as non-raising."""
  if not (isinstance(n, ast.Call) and isinstance(n.func, ast.Attribute) and
          n.func.attr in _LOG_METHODS):
    return False
  recv = core_dotted(n.func.value) or ''
  if 'log' not in recv.lower():
    return False
  for a in list(n.args) + [k.value for k in n.keywords]:
    for x in ast.walk(a):
      if isinstance(x, (ast.Call, ast.Subscript, ast.Yield, ast.YieldFrom,
                        ast.Await, ast.NamedExpr)):
        return False
  return True


def may_raise(node):
  if node is None:
    return False
  stack = [node]
  first = True
  while stack:
    n = stack.pop()
    if not first and isinstance(n, (ast.FunctionDef, ast.AsyncFunctionDef,
                                    ast.Lambda, ast.ClassDef)):
      continue
    first = False
    if is_log_call(n):
      continue
    if isinstance(n, _RAISING):
      return True
    if isinstance(n, ast.BinOp) and isinstance(n.op, (ast.Mod, ast.Div,
                                                       ast.FloorDiv)):
      return True
    stack.extend(ast.iter_child_nodes(n))
  return False


class _Ctx(object):
  __slots__ = ('next', 'ret', 'exc', 'brk', 'cont')

  def __init__(self, nxt, ret, exc, brk=None, cont=None):
    self.next, self.ret, self.exc, self.brk, self.cont = nxt, ret, exc, brk, cont

  def w(self, **kw):
    c = _Ctx(self.next, self.ret, self.exc, self.brk, self.cont)
    for k, v in kw.items():
      setattr(c, k, v)
    return c


def _is_catch_all(handler):
  if handler.type is None:
    return True
  t = handler.type
  names = []
  if isinstance(t, ast.Tuple):
    names = [getattr(e, 'id', getattr(e, 'attr', '')) for e in t.elts]
  else:
    names = [getattr(t, 'id', getattr(t, 'attr', ''))]
  return 'BaseException' in names


class CFG(object):

  def __init__(self, func_node):
    self.func = func_node
    self._n = 0
    self.entry = self._new('entry')
    self.exit = self._new('exit')
    self.raise_exit = self._new('raise')
    ctx = _Ctx(self.exit, self.exit, self.raise_exit)
    first = self._block(func_node.body, ctx)
    self._edge(self.entry, 'next', first)
    # prune to reachable
    seen = set()
    stack = [self.entry]
    order = []
    while stack:
      n = stack.pop()
      if n.id in seen:
        continue
      seen.add(n.id)
      order.append(n)
      for _, s in n.succs:
        stack.append(s)
    self.nodes = sorted(order, key=lambda n: n.id)
    for n in self.nodes:
      n.preds = []
    for n in self.nodes:
      for l, s in n.succs:
        s.preds.append((l, n))

  # ---- construction
  def _new(self, kind, node=None, exprs=None, tag=None):
    self._n += 1
    return N(self._n, kind, node, exprs, tag)

  def _edge(self, a, label, b):
    if b is None:
      raise AnalysisError('CFG: dangling %s edge from %r' % (label, a))
    a.succs.append((label, b))

  def _block(self, stmts, ctx):
    nxt = ctx.next
    for s in reversed(stmts):
      nxt = self._stmt(s, ctx.w(next=nxt))
    return nxt

  def _cond(self, expr, tnode, fnode, ctx, owner):
    if isinstance(expr, ast.BoolOp):
      if isinstance(expr.op, ast.And):
        t = tnode
        for v in reversed(expr.values):
          t = self._cond(v, t, fnode, ctx, owner)
        return t
      f = fnode
      for v in reversed(expr.values):
        f = self._cond(v, tnode, f, ctx, owner)
      return f
    if isinstance(expr, ast.UnaryOp) and isinstance(expr.op, ast.Not):
      return self._cond(expr.operand, fnode, tnode, ctx, owner)
    if isinstance(expr, ast.Constant) and isinstance(expr.value, (bool, int)):
      return tnode if expr.value else fnode
    n = self._new('test', expr, tag=owner)
    self._edge(n, 'T', tnode)
    self._edge(n, 'F', fnode)
    if may_raise(expr):
      self._edge(n, 'exc', ctx.exc)
    return n

  def _simple(self, s, ctx, label='next', target=None):
    n = self._new('stmt', s)
    self._edge(n, label, target if target is not None else ctx.next)
    if may_raise(s):
      self._edge(n, 'exc', ctx.exc)
    return n

  def _stmt(self, s, ctx):
    if isinstance(s, ast.Return):
      n = self._new('stmt', s)
      self._edge(n, 'ret', ctx.ret)
      if may_raise(s.value):
        self._edge(n, 'exc', ctx.exc)
      return n
    if isinstance(s, ast.Raise):
      n = self._new('stmt', s)
      self._edge(n, 'raise', ctx.exc)
      return n
    if isinstance(s, ast.Break):
      if ctx.brk is None:
        raise AnalysisError('break outside loop')
      n = self._new('stmt', s)
      self._edge(n, 'brk', ctx.brk)
      return n
    if isinstance(s, ast.Continue):
      n = self._new('stmt', s)
      self._edge(n, 'cont', ctx.cont)
      return n
    if isinstance(s, ast.Assert):
      fail = self._new('stmt', s, exprs=[s.msg] if s.msg else [], tag='assert_fail')
      self._edge(fail, 'raise', ctx.exc)
      return self._cond(s.test, ctx.next, fail, ctx, s)
    if isinstance(s, ast.If):
      t = self._block(s.body, ctx)
      f = self._block(s.orelse, ctx) if s.orelse else ctx.next
      return self._cond(s.test, t, f, ctx, s)
    if isinstance(s, ast.While):
      head = self._new('loop', s, exprs=[])
      after = self._block(s.orelse, ctx) if s.orelse else ctx.next
      body = self._block(s.body, ctx.w(next=head, brk=ctx.next, cont=head))
      first = self._cond(s.test, body, after, ctx, s)
      self._edge(head, 'next', first)
      return head
    if isinstance(s, ast.For):
      head = self._new('for', s, exprs=[s.iter, s.target])
      after = self._block(s.orelse, ctx) if s.orelse else ctx.next
      body = self._block(s.body, ctx.w(next=head, brk=ctx.next, cont=head))
      self._edge(head, 'iter', body)
      self._edge(head, 'done', after)
      if may_raise(s.iter):
        self._edge(head, 'exc', ctx.exc)
      return head
    if isinstance(s, ast.With):
      exprs = []
      for i in s.items:
        exprs.append(i.context_expr)
        if i.optional_vars is not None:
          exprs.append(i.optional_vars)

      def mk_exit(target, tag, label):
        if target is None:
          return None
        x = self._new('with_exit', s, exprs=[], tag=tag)
        self._edge(x, label, target)
        return x

      inner = _Ctx(
          mk_exit(ctx.next, 'normal', 'next'), mk_exit(ctx.ret, 'ret', 'ret'),
          mk_exit(ctx.exc, 'exc', 'exc'), mk_exit(ctx.brk, 'brk', 'brk'),
          mk_exit(ctx.cont, 'cont', 'cont'))
      body = self._block(s.body, inner)
      enter = self._new('with_enter', s, exprs=exprs)
      self._edge(enter, 'next', body)
      self._edge(enter, 'exc', ctx.exc)
      return enter
    if isinstance(s, ast.Try):
      c2 = ctx
      if s.finalbody:

        def fin(target, tag):
          if target is None:
            return None
          marker = self._new('finally', s, exprs=[], tag=tag)
          # the finally body itself runs in the *outer* context
          first = self._block(s.finalbody, ctx.w(next=target))
          self._edge(marker, 'next', first)
          return marker

        c2 = _Ctx(
            fin(ctx.next, 'normal'), fin(ctx.ret, 'ret'), fin(ctx.exc, 'exc'),
            fin(ctx.brk, 'brk'), fin(ctx.cont, 'cont'))
      body_exc = c2.exc
      if s.handlers:
        disp = self._new('dispatch', s, exprs=[])
        catch_all = False
        for h in s.handlers:
          hn = self._new('handler', h, exprs=[h.type] if h.type else [])
          self._edge(hn, 'next', self._block(h.body, c2))
          self._edge(disp, 'exc', hn)
          if _is_catch_all(h):
            catch_all = True
        if not catch_all:
          self._edge(disp, 'exc', c2.exc)
        body_exc = disp
      orelse = self._block(s.orelse, c2) if s.orelse else c2.next
      return self._block(s.body, c2.w(next=orelse, exc=body_exc))
    if isinstance(s, (ast.FunctionDef, ast.AsyncFunctionDef, ast.ClassDef)):
      n = self._new('stmt', s, exprs=list(s.decorator_list))
      self._edge(n, 'next', ctx.next)
      return n
    if isinstance(s, (ast.Expr, ast.Assign, ast.AugAssign, ast.AnnAssign,
                      ast.Pass, ast.Delete, ast.Import, ast.ImportFrom,
                      ast.Global, ast.Nonlocal)):
      return self._simple(s, ctx)
    raise AnalysisError('CFG: unsupported statement %s at line %s' %
                        (type(s).__name__, getattr(s, 'lineno', '?')))

  # ---- queries
  def find(self, pred):
    return [n for n in self.nodes if pred(n)]

  def nodes_of(self, sub):
    """CFG nodes (possibly several: finally duplication) evaluating `sub`."""
    return [n for n in self.nodes if n.contains(sub)]

  def reach(self, srcs, avoid=None, avoid_edge=None, labels=None):
    """Nodes reachable from srcs (excluded unless on a cycle) without entering
    a node with avoid(n) true and without taking an edge with
    avoid_edge(src, label, dst) true.  labels: if given, only those edge labels
    are followed."""
    seen = set()
    out = []
    stack = []
    for s in srcs:
      stack.append(s)
    started = set(id(s) for s in srcs)
    first = True
    while stack:
      n = stack.pop()
      for l, t in n.succs:
        if labels is not None and l not in labels:
          continue
        if avoid_edge is not None and avoid_edge(n, l, t):
          continue
        if avoid is not None and avoid(t):
          continue
        if t.id in seen:
          continue
        seen.add(t.id)
        out.append(t)
        stack.append(t)
    del first, started
    return out

  def can_reach(self, src, dst_pred, avoid=None, avoid_edge=None):
    if dst_pred(src):
      return True
    return any(dst_pred(n) for n in self.reach([src], avoid, avoid_edge))

  def must_pass(self, src, dst_pred, via_pred, avoid_edge=None):
    """Every path src -> (node satisfying dst_pred) passes a via node."""
    return not any(
        dst_pred(n) for n in self.reach([src], avoid=via_pred,
                                        avoid_edge=avoid_edge))

  def dominated_by(self, node, via_pred):
    """Every entry->node path passes a node satisfying via_pred."""
    if via_pred(node):
      return True
    return not any(n is node for n in self.reach([self.entry], avoid=via_pred))

  def dominated_by_edge(self, node, edge_pred):
    """Every entry->node path takes an edge with edge_pred(src,label,dst)."""
    return not any(
        n is node for n in self.reach([self.entry], avoid_edge=edge_pred))

  def is_normal_exit(self, n):
    return n is self.exit

  def is_any_exit(self, n):
    return n is self.exit or n is self.raise_exit


_CFG_CACHE = {}


def cfg_of(func_node):
  c = _CFG_CACHE.get(id(func_node))
  if c is None or c.func is not func_node:
    c = CFG(func_node)
    _CFG_CACHE[id(func_node)] = c
  return c


# --------------------------------------------------------------------------
# Three-valued evaluation of boolean structure over rule-defined atoms


def beval(expr, leaf):
  """Kleene evaluation: BoolOp / Not / IfExp / constants are interpreted,
  every other expression is handed to leaf(expr) -> True/False/None."""
  if isinstance(expr, ast.BoolOp):
    vals = [beval(v, leaf) for v in expr.values]
    if isinstance(expr.op, ast.And):
      if any(v is False for v in vals):
        return False
      if all(v is True for v in vals):
        return True
      return None
    if any(v is True for v in vals):
      return True
    if all(v is False for v in vals):
      return False
    return None
  if isinstance(expr, ast.UnaryOp) and isinstance(expr.op, ast.Not):
    v = beval(expr.operand, leaf)
    return None if v is None else (not v)
  if isinstance(expr, ast.IfExp):
    c = beval(expr.test, leaf)
    if c is True:
      return beval(expr.body, leaf)
    if c is False:
      return beval(expr.orelse, leaf)
    a, b = beval(expr.body, leaf), beval(expr.orelse, leaf)
    return a if a == b else None
  if isinstance(expr, ast.Constant):
    if expr.value is None or isinstance(expr.value, (bool, int, str)):
      return bool(expr.value)
  if isinstance(expr, ast.Call) and isinstance(expr.func, ast.Name) and \
      expr.func.id == 'bool' and len(expr.args) == 1:
    return beval(expr.args[0], leaf)
  return leaf(expr)


class Path(object):
  """One walk through a CFG: list of (node, label-taken)."""

  def __init__(self, steps, end):
    self.steps = steps  # [(N, label)]
    self.end = end  # 'exit' | 'raise'

  @property
  def nodes(self):
    return [n for n, _ in self.steps]

  def stmts(self, kind='stmt'):
    return [n for n, _ in self.steps if n.kind == kind]

  def last_return(self):
    for n, l in reversed(self.steps):
      if l == 'ret' and isinstance(n.ast, ast.Return):
        return n.ast
    return None

  def raised(self):
    """The Raise statement (or None) that ended an exceptional path."""
    if self.end != 'raise':
      return None
    for n, l in reversed(self.steps):
      if n.kind == 'stmt' and isinstance(n.ast, ast.Raise):
        return n.ast
      if n.kind == 'stmt' and n.tag == 'assert_fail':
        return n.ast
      if n.kind in ('with_exit', 'finally'):
        continue
      break
    return None

  def calls(self, attr=None, name=None):
    from sa.core import last_attr, call_name  # pylint: disable=g-import-not-at-top
    out = []
    for n, _ in self.steps:
      for sub in n.subnodes():
        if isinstance(sub, ast.Call):
          if attr is not None and last_attr(sub) != attr:
            continue
          if name is not None and call_name(sub) != name:
            continue
          out.append(sub)
    return out

  def index_of(self, pred):
    for i, (n, _) in enumerate(self.steps):
      if pred(n):
        return i
    return -1

  def value_of(self, name, before_index=None):
    """RHS of the last simple `name = expr` on the path before index."""
    steps = self.steps if before_index is None else self.steps[:before_index]
    for n, _ in reversed(steps):
      s = n.ast
      if n.kind == 'stmt' and isinstance(s, ast.Assign) and len(s.targets) == 1 \
          and isinstance(s.targets[0], ast.Name) and s.targets[0].id == name:
        return s.value
      if n.kind == 'stmt' and isinstance(s, ast.AnnAssign) and \
          isinstance(s.target, ast.Name) and s.target.id == name and s.value:
        return s.value
    return None


def path_resolve(path, expr, before_index=None, depth=6):
  """Follows a local name on the path through name-to-value assignments to
  the expression it finally stands for (the last definition before each use).
  """
  idx = len(path.steps) if before_index is None else before_index
  while isinstance(expr, ast.Name) and depth > 0:
    found = None
    for i in range(idx - 1, -1, -1):
      n = path.steps[i][0]
      s = n.ast
      if n.kind == 'stmt' and isinstance(s, ast.Assign) and len(
          s.targets) == 1 and isinstance(s.targets[0], ast.Name) and \
          s.targets[0].id == expr.id:
        found = (i, s.value)
        break
    if found is None:
      return expr
    idx, expr = found
    depth -= 1
  return expr


def path_dotted(path, expr, before_index=None, depth=6):
  """Dotted text of `expr` on the path, with a local name at the root of the
  attribute chain replaced by what it stands for (`r = self.rec; x = r.a;
  x.append` -> 'self.rec.a.append'); None if not a plain chain."""
  e = path_resolve(path, expr, before_index, depth)
  attrs = []
  while isinstance(e, ast.Attribute) and depth > 0:
    attrs.append(e.attr)
    e = e.value
    if isinstance(e, ast.Name):
      r = path_resolve(path, e, before_index, depth)
      if r is not e:
        e = r
        depth -= 1
  if not isinstance(e, ast.Name):
    return None
  return '.'.join([e.id] + attrs[::-1])


def walk_paths(cfg, decide, follow_exc=None, max_paths=4096, max_len=600,
               start=None):
  """Enumerates paths from entry to an exit.

  decide(node, steps) -> label or list of labels to follow, or None for
  "all non-exceptional successors".  follow_exc(node, steps) -> bool: whether
  to also follow the node's 'exc' edge (default: never, except for nodes whose
  only successor is exceptional, i.e. raise statements).
  A node may appear at most twice on a path (one trip round any loop).
  """
  paths = []
  stack = [((start or cfg.entry), [])]
  while stack:
    node, steps = stack.pop()
    if node is cfg.exit or node is cfg.raise_exit:
      paths.append(Path(steps, 'exit' if node is cfg.exit else 'raise'))
      if len(paths) > max_paths:
        raise AnalysisError('path enumeration bound exceeded in %s' %
                            cfg.func.name)
      continue
    if len(steps) > max_len:
      raise AnalysisError('path length bound exceeded in %s' % cfg.func.name)
    visits = sum(1 for n, _ in steps if n is node)
    labels = decide(node, steps)
    if labels is None:
      labels = [l for l, _ in node.succs if l != 'exc']
      if node.kind == 'for' and visits >= 1:
        labels = ['done']
      if not labels:
        labels = ['exc']
    elif isinstance(labels, str):
      labels = [labels]
    if visits >= 2:
      # refuse a third visit: only loop-leaving edges are allowed
      labels = [l for l in labels if l in ('done', 'F', 'brk', 'ret', 'exc', 'raise')]
      if not labels:
        continue
    if follow_exc is not None and 'exc' not in labels and \
        any(l == 'exc' for l, _ in node.succs) and follow_exc(node, steps):
      labels = list(labels) + ['exc']
    for l in labels:
      t = node.succ(l)
      if t is None:
        raise AnalysisError('walk: node %r has no %s edge' % (node, l))
      stack.append((t, steps + [(node, l)]))
  return paths
