"""Lock regions, receiver typing, interprocedural lock-order graph."""

import ast

from sa import core
from sa.core import call_name, dotted, last_attr, walk_no_nested

LOCK_CTORS = {
    'threading.Lock': 'Lock',
    'threading.RLock': 'RLock',
    'threading.Condition': 'Condition',
}

# Receiver expressions whose class is known by reading the code (each entry
# confirmed by hand; used only when annotations / constructors do not say).
RECEIVER_TABLE = {
    'self._executor': 'TestExecutor',
    'self._phase_exec': 'PhaseExecutor',
    'self.phase_executor': 'PhaseExecutor',
    'phase_exec': 'PhaseExecutor',
    'phase_thread': 'PhaseExecutorThread',
    'self._current_phase_thread': 'PhaseExecutorThread',
    'self.test_state': 'TestState',
    'self._test_state': 'TestState',
    'self.running_test_state': 'TestState',
    'final_state': 'TestState',
    'test': 'Test',
    'self.running_test_state.plug_manager': 'PlugManager',
    'self.plug_manager': 'PlugManager',
    'phase_state': 'PhaseState',
    'self.running_phase_state': 'PhaseState',
}


class LockModel(object):

  def __init__(self, repo, modules):
    self.repo = repo
    self.modules = [m for m in modules if m in repo.modules]
    self.classes = {}  # name -> ClassDef
    self.lock_attrs = {}  # (class name, attr) -> kind
    for rel in self.modules:
      m = repo.modules[rel]
      for q, c in m.classes.items():
        self.classes.setdefault(q.split('.')[-1], c)
        for n in ast.walk(c):
          if isinstance(n, ast.Assign) and isinstance(n.value, ast.Call):
            k = LOCK_CTORS.get(call_name(n.value))
            if k:
              for t in n.targets:
                d = dotted(t)
                if d and d.startswith('self.'):
                  self.lock_attrs[(c.name, d[5:])] = k
    self.methods = {}  # (class name, method) -> FuncInfo
    for rel in self.modules:
      for f in repo.modules[rel].all_funcs():
        if f.cls is not None and f.node in f.cls.body:
          self.methods.setdefault((f.cls.name, f.name), f)
    self.unresolved = set()

  # -- class helpers
  def mro(self, cname):
    c = self.classes.get(cname)
    if c is None:
      return [cname]
    return [cname] + [a.name for a in core.ancestors_of(self.repo, c)]

  def lock_id(self, cname, attr):
    for k in self.mro(cname):
      if (k, attr) in self.lock_attrs:
        return '%s.%s' % (k, attr), self.lock_attrs[(k, attr)]
    return None

  def find_method(self, cname, meth):
    for k in self.mro(cname):
      if (k, meth) in self.methods:
        return self.methods[(k, meth)]
    return None

  def overriding(self, cname, meth):
    out = []
    c = self.classes.get(cname)
    if c is None:
      return out
    for s in core.subclasses_of(self.repo, c):
      if (s.name, meth) in self.methods:
        out.append(self.methods[(s.name, meth)])
    return out

  def receiver_class(self, finfo, recv):
    d = dotted(recv)
    if d is None:
      return None
    if d == 'self' or d == 'cls':
      return finfo.cls.name if finfo.cls is not None else None
    if d in RECEIVER_TABLE:
      return RECEIVER_TABLE[d]
    # parameter annotation
    if isinstance(recv, ast.Name):
      for a in finfo.node.args.args + finfo.node.args.kwonlyargs:
        if a.arg == recv.id and a.annotation is not None:
          ad = dotted(a.annotation)
          if ad is None and isinstance(a.annotation, ast.Constant) and \
              isinstance(a.annotation.value, str):
            ad = a.annotation.value
          if ad and ad.split('.')[-1] in self.classes:
            return ad.split('.')[-1]
      # local = Cls(...)
      for n in walk_no_nested(finfo.node):
        if isinstance(n, ast.Assign) and len(n.targets) == 1 and \
            core.is_name(n.targets[0], recv.id):
          if isinstance(n.value, ast.Call):
            cn = last_attr(n.value)
            if cn in self.classes:
              return cn
          rd = dotted(n.value)
          if rd in RECEIVER_TABLE:
            return RECEIVER_TABLE[rd]
    return None

  def resolve_call(self, finfo, call):
    """FuncInfos a call may invoke (within the modelled classes)."""
    fn = call.func
    if isinstance(fn, ast.Attribute):
      cname = self.receiver_class(finfo, fn.value)
      if cname is not None:
        out = []
        f = self.find_method(cname, fn.attr)
        if f is not None:
          out.append(f)
        out.extend(self.overriding(cname, fn.attr))
        return out
      if isinstance(fn.value, ast.Call) and call_name(fn.value) == 'super' and \
          finfo.cls is not None:
        for k in self.mro(finfo.cls.name)[1:]:
          if (k, fn.attr) in self.methods:
            return [self.methods[(k, fn.attr)]]
      self.unresolved.add(core.norm(fn))
      return []
    if isinstance(fn, ast.Name):
      if fn.id in self.classes:
        f = self.find_method(fn.id, '__init__')
        return [f] if f else []
      m = finfo.module
      if fn.id in m.funcs:
        return [m.funcs[fn.id][0]]
    return []

  # -- acquisitions
  def direct_acquisitions(self, finfo):
    """[(lock id, kind, how, node, body-or-None)] lexically in finfo."""
    out = []
    cname = finfo.cls.name if finfo.cls is not None else None
    for n in walk_no_nested(finfo.node):
      if isinstance(n, ast.With):
        for i in n.items:
          d = dotted(i.context_expr)
          if d and d.startswith('self.') and cname:
            lk = self.lock_id(cname, d[5:])
            if lk:
              out.append((lk[0], lk[1], 'with', n, n.body))
      elif isinstance(n, ast.Call) and isinstance(n.func, ast.Attribute) and \
          n.func.attr == 'acquire':
        d = dotted(n.func.value)
        if d and d.startswith('self.') and cname:
          lk = self.lock_id(cname, d[5:])
          if lk:
            nonblock = bool(n.args) and isinstance(n.args[0], ast.Constant) \
                and n.args[0].value is False
            out.append((lk[0], lk[1], 'try' if nonblock else 'acquire', n,
                        None))
    return out

  def transitive_acquisitions(self, finfo, depth=4, _seen=None):
    """{lock id: (how, chain)} acquired by finfo or its callees."""
    _seen = _seen if _seen is not None else set()
    key = (finfo.path, finfo.qualname)
    if key in _seen or depth < 0:
      return {}
    _seen = _seen | {key}
    acc = {}
    for lid, kind, how, node, _ in self.direct_acquisitions(finfo):
      acc.setdefault(lid, (how, [finfo.qualname]))
    for c in core.calls_in(finfo.node):
      for callee in self.resolve_call(finfo, c):
        sub = self.transitive_acquisitions(callee, depth - 1, _seen)
        for lid, (how, chain) in sub.items():
          acc.setdefault(lid, (how, [finfo.qualname] + chain))
    return acc

  def order_edges(self, depth=4):
    """[(held, acquired, how, chain, node)] over all modelled functions."""
    edges = []
    for rel in self.modules:
      for f in self.repo.modules[rel].all_funcs():
        for lid, kind, how, node, body in self.direct_acquisitions(f):
          if body is None:
            continue
          for s in body:
            for n in walk_no_nested(s):
              if isinstance(n, ast.With):
                for i in n.items:
                  d = dotted(i.context_expr)
                  if d and d.startswith('self.') and f.cls is not None:
                    lk = self.lock_id(f.cls.name, d[5:])
                    if lk:
                      edges.append((lid, lk[0], 'with', [f.qualname], n))
              if isinstance(n, ast.Call):
                if isinstance(n.func, ast.Attribute) and \
                    n.func.attr == 'acquire':
                  d = dotted(n.func.value)
                  if d and d.startswith('self.') and f.cls is not None:
                    lk = self.lock_id(f.cls.name, d[5:])
                    if lk:
                      nb = bool(n.args) and isinstance(
                          n.args[0], ast.Constant) and n.args[0].value is False
                      edges.append((lid, lk[0], 'try' if nb else 'acquire',
                                    [f.qualname], n))
                for callee in self.resolve_call(f, n):
                  for l2, (how2, chain) in self.transitive_acquisitions(
                      callee, depth).items():
                    edges.append((lid, l2, how2, [f.qualname] + chain, n))
    return edges


def find_cycles(edges):
  """Cycles among blocking edges (try-acquisitions cannot deadlock)."""
  graph = {}
  for a, b, how, chain, node in edges:
    if how == 'try':
      continue
    graph.setdefault(a, set()).add(b)
  cycles = []
  for start in graph:
    stack = [(start, [start])]
    while stack:
      n, path = stack.pop()
      for t in graph.get(n, ()):
        if t == start:
          cyc = path + [t]
          canon = tuple(sorted(set(cyc)))
          if canon not in [c[0] for c in cycles]:
            cycles.append((canon, cyc))
        elif t not in path and len(path) < 8:
          stack.append((t, path + [t]))
  return [c[1] for c in cycles]


# --------------------------------------------------------------------------
# Intraprocedural held-lock dataflow on the statement CFG


def lock_events(node, names):
  """[(op, lock)] performed by a CFG node, op in acquire/try/release.

  `with L:` enter/exit count as acquire/release; `L.acquire(False)` as a test
  atom is a conditional acquire (`try`): held on the T edge only."""
  out = []
  if node.kind == 'with_enter':
    for i in node.ast.items:
      d = dotted(i.context_expr)
      if d in names:
        out.append(('acquire', d))
    return out
  if node.kind == 'with_exit':
    for i in node.ast.items:
      d = dotted(i.context_expr)
      if d in names:
        out.append(('release', d))
    return out
  for sub in node.subnodes():
    if isinstance(sub, ast.Call) and isinstance(sub.func, ast.Attribute):
      d = dotted(sub.func.value)
      if d not in names:
        continue
      if sub.func.attr == 'acquire':
        nb = bool(sub.args) and isinstance(sub.args[0], ast.Constant) and \
            sub.args[0].value is False
        out.append(('try' if (nb and node.kind == 'test') else 'acquire', d))
      elif sub.func.attr == 'release':
        out.append(('release', d))
  return out


NONRAISING_CALLS = frozenset([
    'acquire', 'release', 'notify', 'notify_all', 'is_set', 'has_expired',
    'locked', 'set', 'clear'
])


def implicit_raise_ignorable(node):
  """exc edges of nodes that only call lock primitives are not followed."""
  calls = [s for s in node.subnodes() if isinstance(s, ast.Call)]
  return bool(calls) and all(last_attr(c) in NONRAISING_CALLS for c in calls)


def ignorable_exc(node, names):
  """Implicit exception edges that lock primitives cannot take."""
  if node.kind == 'with_enter':
    return all(dotted(i.context_expr) in names for i in node.ast.items)
  return implicit_raise_ignorable(node)


def held_dataflow(g, names):
  """(must, may): node id -> frozenset of locks held on entry to the node."""
  names = set(names)
  full = frozenset(names)
  must = {n.id: full for n in g.nodes}
  may = {n.id: frozenset() for n in g.nodes}
  must[g.entry.id] = frozenset()

  def out_sets(n, label, s_must, s_may):
    if label == 'exc' and ignorable_exc(n, names):
      return None
    m1, m2 = set(s_must), set(s_may)
    for op, lk in lock_events(n, names):
      if op == 'acquire':
        if label != 'exc':
          m1.add(lk)
          m2.add(lk)
        else:
          m2.add(lk)  # may or may not have been taken when it raised
      elif op == 'try':
        if label == 'T':
          m1.add(lk)
          m2.add(lk)
      elif op == 'release':
        m1.discard(lk)
        m2.discard(lk)
    return frozenset(m1), frozenset(m2)

  changed = True
  it = 0
  while changed and it < 200:
    changed = False
    it += 1
    for n in g.nodes:
      if n is g.entry:
        continue
      ins_must, ins_may = None, set()
      for l, p in n.preds:
        o = out_sets(p, l, must[p.id], may[p.id])
        if o is None:
          continue
        ins_must = o[0] if ins_must is None else (ins_must & o[0])
        ins_may |= o[1]
      if ins_must is None:
        ins_must = frozenset()
      ins_may = frozenset(ins_may)
      if ins_must != must[n.id] or ins_may != may[n.id]:
        must[n.id], may[n.id] = ins_must, ins_may
        changed = True
  return must, may
