"""Pure-python application of a unified diff to in-memory sources.

Used by the self-validation to replay the kept seeded changes
(/verif/seeded/<id>/patch.diff) against the *current* tree as overrides: no
file under /repo is touched and nothing runs.  A hunk is placed at its stated
line if the context matches there, else at the unique place where its
context+removed lines occur; otherwise the patch is reported as not applying.
"""

import re

_HUNK = re.compile(r'^@@ -(\d+)(?:,(\d+))? \+(\d+)(?:,(\d+))? @@')


class PatchError(Exception):
  pass


def parse(text):
  """-> {relpath: [(old_start, [old lines], [new lines])]}"""
  files = {}
  cur = None
  hunk = None
  lines = text.split('\n')
  i = 0
  while i < len(lines):
    ln = lines[i]
    if ln.startswith('--- '):
      old = ln[4:].split('\t')[0].strip()
      new = lines[i + 1][4:].split('\t')[0].strip() if i + 1 < len(
          lines) and lines[i + 1].startswith('+++ ') else None
      if new is None:
        raise PatchError('--- without +++')
      if old == '/dev/null' or new == '/dev/null':
        raise PatchError('file creation/deletion is not supported')
      path = re.sub(r'^[ab]/', '', new)
      cur = files.setdefault(path, [])
      hunk = None
      i += 2
      continue
    m = _HUNK.match(ln)
    if m and cur is not None:
      hunk = (int(m.group(1)), [], [])
      cur.append(hunk)
    elif hunk is not None and ln[:1] in (' ', '-', '+'):
      if ln[0] in ' -':
        hunk[1].append(ln[1:])
      if ln[0] in ' +':
        hunk[2].append(ln[1:])
    elif hunk is not None and ln == '' and i < len(lines) - 1 and \
        lines[i + 1][:1] in (' ', '-', '+'):
      # an empty context line whose leading blank was stripped
      hunk[1].append('')
      hunk[2].append('')
    elif ln.startswith('diff ') or ln.startswith('index ') or \
        ln.startswith('\\'):
      if ln.startswith('diff '):
        hunk = None
    i += 1
  return files


def apply_to(src, hunks):
  lines = src.split('\n')
  offset = 0
  for start, old, new in hunks:
    pos = start - 1 + offset
    if lines[pos:pos + len(old)] != old:
      cands = [k for k in range(len(lines) - len(old) + 1)
               if lines[k:k + len(old)] == old]
      if len(cands) != 1:
        raise PatchError('hunk @%d does not apply (%d candidate places)' %
                         (start, len(cands)))
      pos = cands[0]
    lines[pos:pos + len(old)] = new
    offset = pos - (start - 1) + len(new) - len(old)
  return '\n'.join(lines)


def overrides_for(patch_text, read_file):
  """{relpath: patched source}; read_file(relpath) -> current source."""
  out = {}
  for path, hunks in parse(patch_text).items():
    out[path] = apply_to(read_file(path), hunks)
  return out
