#!/venv/bin/python
"""Development hygiene (not part of any check): runs the pinned test suite on
mutants that survived the static checks, to tell 'would be caught by the
existing tests anyway' from 'realistic blind spot candidates'.

usage: tools/mutant_tests.py <PROP> [<PROP> ...]   (reads /tmp/sa_mutants/<P>.json)
Writes /tmp/sa_mutants/<P>.tested.txt with lines: tests-pass|tests-fail <desc>.
Scratch worktrees live under /tmp/mt_<k> and are removed at the end.
"""
import concurrent.futures
import json
import os
import subprocess
import sys

sys.path.insert(0, os.path.dirname(os.path.dirname(os.path.abspath(__file__))))
from sa import mutants  # pylint: disable=g-import-not-at-top

N = 4


def run_one(args):
  k, m = args
  wt = '/tmp/mt_%d' % k
  src = mutants.mutant_source(m['rel'], m['qual'], m['spec'])
  if src is None:
    return m['desc'], 'skip'
  path = os.path.join(wt, m['rel'])
  orig = open(path).read()
  try:
    open(path, 'w').write(src)
    p = subprocess.run(
        '/venv/bin/python -m pytest -q -p no:cacheprovider --timeout=120 '
        '--continue-on-collection-errors -n 4 2>&1 | tail -1', shell=True,
        cwd=wt, capture_output=True, text=True, timeout=900)
    ok = '307 passed' in p.stdout
  except subprocess.TimeoutExpired:
    ok = False
  finally:
    open(path, 'w').write(orig)
  return m['desc'], 'tests-pass' if ok else 'tests-fail'


def worker(k, items):
  return [run_one((k, m)) for m in items]


def main():
  for k in range(N):
    subprocess.run('git -C /repo worktree add -q --detach /tmp/mt_%d HEAD' % k,
                   shell=True)
  try:
    for prop in sys.argv[1:]:
      ms = [m for m in json.load(open('/tmp/sa_mutants/%s.json' % prop))
            if m['status'] == 'survived']
      chunks = [ms[i::N] for i in range(N)]
      out = []
      with concurrent.futures.ThreadPoolExecutor(max_workers=N) as ex:
        for r in ex.map(lambda a: worker(*a), list(enumerate(chunks))):
          out.extend(r)
      with open('/tmp/sa_mutants/%s.tested.txt' % prop, 'w') as f:
        for d, st in out:
          f.write('%s\t%s\n' % (st, d))
      print(prop, 'survivors', len(ms), 'pass tests',
            sum(1 for _, st in out if st == 'tests-pass'), flush=True)
  finally:
    for k in range(N):
      subprocess.run('git -C /repo worktree remove --force /tmp/mt_%d' % k,
                     shell=True)


if __name__ == '__main__':
  main()
