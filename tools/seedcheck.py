#!/venv/bin/python
"""Confirms a seeded change and runs the checks against it.

usage: tools/seedcheck.py <seed_dir> <property> <seed_id> [--keep]
 seed_dir holds patch.diff, demo.py (or demo_test.py), notes.txt.
Applies the patch to /repo, runs the demo (must fail), the pinned suite (must
still pass), every claimed check (records which fire), reverts, runs the demo
again (must pass).  With --keep copies the seed to /verif/seeded/<seed_id>/
and writes meta.json.
"""
import glob
import json
import os
import shutil
import subprocess
import sys

VERIF = os.path.dirname(os.path.dirname(os.path.abspath(__file__)))


def sh(cmd, cwd=None, env=None, timeout=900):
  e = dict(os.environ)
  if env:
    e.update(env)
  p = subprocess.run(cmd, shell=True, cwd=cwd, env=e, capture_output=True,
                     text=True, timeout=timeout)
  return p.returncode, (p.stdout + p.stderr)


def main():
  seed_dir, prop, seed_id = sys.argv[1:4]
  keep = '--keep' in sys.argv
  patch = os.path.join(seed_dir, 'patch.diff')
  demos = [f for f in ('demo.py', 'demo_test.py')
           if os.path.exists(os.path.join(seed_dir, f))]
  # run the demo from inside /repo (demos often put dirname(dirname(__file__))
  # on sys.path, which must be /repo, not the agent's worktree)
  tmpd = os.path.join('/repo', 'seed_%s' % seed_id.replace('-', '_'))
  if os.path.isdir(tmpd):
    shutil.rmtree(tmpd)
  os.makedirs(tmpd)
  src_demo = os.path.join(seed_dir, demos[0])
  demo = os.path.join(tmpd, demos[0])
  shutil.copy(src_demo, demo)
  import atexit
  atexit.register(lambda: shutil.rmtree(tmpd, ignore_errors=True))
  rc, out = sh('git status --short -- openhtf', cwd='/repo')
  if out.strip():
    print('REPO NOT CLEAN', out)
    return 2
  res = {'property': prop, 'seed': seed_id}
  rc, out = sh('git apply %s || git apply --3way %s' % (patch, patch), cwd='/repo')
  if rc != 0:
    print('PATCH DOES NOT APPLY', out)
    sh('git reset -q && git checkout -- .', cwd='/repo')
    return 2
  try:
    rc, out = sh('/venv/bin/python %s' % demo, cwd='/repo',
                 env={'PYTHONPATH': '/repo'})
    res['demo_with_change_rc'] = rc
    rc, out = sh('/venv/bin/python -m pytest -q -p no:cacheprovider --timeout=900 '
                 '--continue-on-collection-errors -n 8 2>&1 | tail -1', cwd='/repo')
    res['suite_with_change'] = out.strip()
    claimed = [c['property_id'] for c in json.load(
        open(os.path.join(VERIF, 'MANIFEST.json')))['checks']]
    fired = {}
    for c in claimed:
      rc, out = sh('/venv/bin/python sa/check.py %s' % c, cwd=VERIF)
      if rc != 0:
        lines = [l.strip() for l in out.splitlines()
                 if l.startswith('  C') or 'ANALYSIS-ERROR' in l]
        fired[c] = {'rc': rc, 'lines': [l[:300] for l in lines[:4]]}
    res['checks_fired'] = fired
  finally:
    sh('git reset -q && git checkout -- .', cwd='/repo')
  # evidence files were rewritten on the mutated tree: restore by re-running
  for c in res.get('checks_fired', {}):
    sh('/venv/bin/python sa/check.py %s' % c, cwd=VERIF)
  rc, out = sh('/venv/bin/python %s' % demo, cwd='/repo',
               env={'PYTHONPATH': '/repo'})
  res['demo_clean_rc'] = rc
  res['confirmed'] = (res['demo_with_change_rc'] != 0 and rc == 0 and
                      '307 passed' in res['suite_with_change'])
  res['caught_by_own_property'] = prop in res['checks_fired'] and \
      res['checks_fired'][prop]['rc'] == 1
  print(json.dumps(res, indent=1))
  if keep and res['confirmed']:
    dst = os.path.join(VERIF, 'seeded', seed_id)
    os.makedirs(dst, exist_ok=True)
    shutil.copy(patch, os.path.join(dst, 'patch.diff'))
    shutil.copy(src_demo, os.path.join(dst, os.path.basename(demo)))
    notes = ''
    if os.path.exists(os.path.join(seed_dir, 'notes.txt')):
      notes = open(os.path.join(seed_dir, 'notes.txt')).read()
    meta = {
        'property': prop,
        'breaks': notes.strip(),
        'ran': [
            'git -C /repo apply patch.diff; PYTHONPATH=/repo /venv/bin/python '
            'demo.py -> rc %d (fails with the change)' % res['demo_with_change_rc'],
            'pinned suite with the change: %s' % res['suite_with_change'],
            'git -C /repo checkout -- .; demo -> rc %d (passes without)' %
            res['demo_clean_rc'],
        ],
        'checks_fired_when_first_tried': res['checks_fired'],
    }
    with open(os.path.join(dst, 'meta.json'), 'w') as f:
      json.dump(meta, f, indent=1)
      f.write('\n')
  return 0


if __name__ == '__main__':
  sys.exit(main())
