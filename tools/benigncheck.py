#!/venv/bin/python
"""Run every property's check on a behaviour-preserving patch, in memory.

usage: tools/benigncheck.py <patch.diff>... [PROP ...]   (default: all 20)

Prints, per property, the violations / analysis errors the patch adds relative
to the current tree.  Nothing under /repo is touched.
"""

import concurrent.futures
import os
import sys

sys.path.insert(0, os.path.dirname(os.path.dirname(os.path.abspath(__file__))))

from sa import check, core, patchlib  # pylint: disable=g-import-not-at-top

PROPS = ['C%02d' % i for i in range(1, 21)]


def _base(prop):
  try:
    _, base = check.run_property(prop, 'quick', write=False)
  except Exception as e:  # pylint: disable=broad-except
    return prop, set(), ['baseline: %r' % e]
  return prop, {(v['rule'], v['key']) for v in base.violations}, list(
      base.analysis_errors)


def _one(args):
  pf, prop, ov, bset, berrs = args
  try:
    _, rep = check.run_property(prop, 'quick', write=False, overrides=ov)
  except core.AnalysisError as e:
    return pf, prop, [], ['ANALYSIS-ERROR %s' % e]
  except Exception as e:  # pylint: disable=broad-except
    return pf, prop, [], ['INTERNAL %r' % e]
  new = ['%s %s: %s' % (v['rule'], v['key'][:80], v.get('message', '')[:160])
         for v in rep.violations if (v['rule'], v['key']) not in bset]
  errs = [e for e in rep.analysis_errors if e not in berrs]
  return pf, prop, new, errs


def main():
  args = sys.argv[1:]
  patches = [a for a in args if not (len(a) == 3 and a[0] == 'C')]
  props = [a for a in args if len(a) == 3 and a[0] == 'C'] or PROPS

  def read(rel):
    with open(os.path.join(core.REPO_DIR, rel), encoding='utf-8') as f:
      return f.read()
  tasks = []
  with concurrent.futures.ProcessPoolExecutor(max_workers=16) as ex:
    bases = {p: (b, e) for p, b, e in ex.map(_base, props)}
    broken = 0
    for p, (b, e) in sorted(bases.items()):
      for x in e:
        broken += 1
        print('BASELINE-ERROR %s %s' % (p, x[:300]))
    if broken:
      print('the unchanged tree does not analyse cleanly: results below would '
            'hide the same error in the patched tree')
      return 2
    for pf in patches:
      try:
        with open(pf, encoding='utf-8') as f:
          ov = patchlib.overrides_for(f.read(), read)
        for rel, src in ov.items():
          if rel.endswith('.py'):
            compile(src, rel, 'exec')
      except Exception as e:  # pylint: disable=broad-except
        print('%s: does not apply (%r)' % (pf, e))
        continue
      for p in props:
        tasks.append((pf, p, ov, bases[p][0], bases[p][1]))
    counts = {pf: 0 for pf in patches}
    for pf, prop, new, errs in ex.map(_one, tasks, chunksize=2):
      for x in new:
        counts[pf] += 1
        print('ALARM %s %s %s' % (pf, prop, x))
      for x in errs:
        counts[pf] += 1
        print('ERROR %s %s %s' % (pf, prop, x[:300]))
  bad = 0
  for pf in patches:
    print('%s: %d alarm(s)' % (pf, counts.get(pf, 0)))
    bad += counts.get(pf, 0)
  return 1 if bad else 0


if __name__ == '__main__':
  sys.exit(main())
