#!/venv/bin/python
"""Run every property's check on a behaviour-preserving patch, in memory.

usage: tools/benigncheck.py <patch.diff> [PROP ...]   (default: all 20)

Prints, per property, the violations / analysis errors the patch adds relative
to the current tree.  Nothing under /repo is touched.
"""

import concurrent.futures
import os
import sys

sys.path.insert(0, os.path.dirname(os.path.dirname(os.path.abspath(__file__))))

from sa import check, core, patchlib  # pylint: disable=g-import-not-at-top

PROPS = ['C%02d' % i for i in range(1, 21)]


def _one(args):
  prop, ov = args
  try:
    _, base = check.run_property(prop, 'quick', write=False)
    bset = {(v['rule'], v['key']) for v in base.violations}
    _, rep = check.run_property(prop, 'quick', write=False, overrides=ov)
  except core.AnalysisError as e:
    return prop, [], ['ANALYSIS-ERROR %s' % e]
  except Exception as e:  # pylint: disable=broad-except
    return prop, [], ['INTERNAL %r' % e]
  new = ['%s %s: %s' % (v['rule'], v['key'][:80], v.get('message', '')[:160])
         for v in rep.violations if (v['rule'], v['key']) not in bset]
  errs = [e for e in rep.analysis_errors if e not in base.analysis_errors]
  return prop, new, errs


def main():
  pf = sys.argv[1]
  props = sys.argv[2:] or PROPS

  def read(rel):
    with open(os.path.join(core.REPO_DIR, rel), encoding='utf-8') as f:
      return f.read()
  with open(pf, encoding='utf-8') as f:
    ov = patchlib.overrides_for(f.read(), read)
  for rel, src in ov.items():
    if rel.endswith('.py'):
      compile(src, rel, 'exec')
  bad = 0
  with concurrent.futures.ProcessPoolExecutor(max_workers=16) as ex:
    for prop, new, errs in ex.map(_one, [(p, ov) for p in props]):
      for x in new:
        bad += 1
        print('ALARM %s %s' % (prop, x))
      for x in errs:
        bad += 1
        print('ERROR %s %s' % (prop, x[:300]))
  print('%s: %d alarm(s)' % (pf, bad))
  return 1 if bad else 0


if __name__ == '__main__':
  sys.exit(main())
