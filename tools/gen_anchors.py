#!/venv/bin/python
"""Regenerates sa/anchors.json: the functions the rules request from the index
(directly by name) on the current tree.  These stay visible under their own
name; every other small private helper is inlined into its callers before the
rules run (sa/inline.py)."""

import json
import os
import sys

sys.path.insert(0, os.path.dirname(os.path.dirname(os.path.abspath(__file__))))

from sa import check, core  # pylint: disable=g-import-not-at-top


def main():
  seen = set()
  orig_func, orig_has = core.Repo.func, core.Repo.has_func

  def spy(self, relpath, qualname, which=0):
    seen.add((relpath, qualname))
    return orig_func(self, relpath, qualname, which)

  def spy_has(self, relpath, qualname):
    r = orig_has(self, relpath, qualname)
    if r:
      seen.add((relpath, qualname))
    return r
  core.Repo.func, core.Repo.has_func = spy, spy_has
  core._ANCHORS = frozenset()  # pylint: disable=protected-access
  orig_init = core.Repo.__init__

  def init(self, root=None, overrides=None, inline_helpers=False):
    orig_init(self, root, overrides, inline_helpers=False)
  core.Repo.__init__ = init
  for i in range(1, 21):
    check.run_property('C%02d' % i, 'quick', write=False)
  # plus every function whose name the rules mention in their own text (call
  # names in classifiers, who-may-call tables ...)
  import glob  # pylint: disable=g-import-not-at-top
  import re  # pylint: disable=g-import-not-at-top
  words = set()
  base = os.path.dirname(os.path.dirname(os.path.abspath(__file__)))
  for p in glob.glob(os.path.join(base, 'sa', 'rules', '*.py')) + [
      os.path.join(base, 'sa', 'locks.py'), os.path.join(base, 'sa',
                                                          'interp.py')]:
    with open(p, encoding='utf-8') as f:
      words.update(re.findall(r'[A-Za-z_][A-Za-z0-9_]*', f.read()))
  repo = core.Repo()
  for m in repo.modules.values():
    for fi in m.all_funcs():
      if fi.node.name in words:
        seen.add((m.relpath, fi.qualname))
  # reference fingerprints for private renames (sa/renames.py)
  import ast  # pylint: disable=g-import-not-at-top
  from sa import renames  # pylint: disable=g-import-not-at-top
  trees = {rel: ast.parse(m.src) for rel, m in repo.modules.items()}
  with open(os.path.join(base, 'sa', 'reference.json'), 'w',
            encoding='utf-8') as f:
    json.dump(renames.describe(trees), f, indent=0, sort_keys=True)
  out = sorted(seen)
  path = os.path.join(os.path.dirname(os.path.dirname(os.path.abspath(
      __file__))), 'sa', 'anchors.json')
  with open(path, 'w', encoding='utf-8') as f:
    json.dump(out, f, indent=0)
  print('%d anchors written to %s' % (len(out), path))


if __name__ == '__main__':
  main()
