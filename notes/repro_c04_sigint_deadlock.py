"""K4: SIGINT delivered while Test.execute() is inside its lock region, after the
test was registered in TEST_INSTANCES -> abort_from_sig_int() blocks on the
non-reentrant Test._lock held by the interrupted main thread (self-deadlock).
Run: PYTHONPATH=/repo /venv/bin/python repro_c04_sigint_deadlock.py
Expected on the pinned tree: faulthandler dumps the main thread stuck in
abort_from_sig_int <- handle_sig_int <- execute after 5 s and exits."""
import faulthandler
import signal

import openhtf as htf
from openhtf.core import test_executor

faulthandler.dump_traceback_later(5, exit=True)
orig_start = test_executor.TestExecutor.start


def start(self):
  orig_start(self)
  # A SIGINT arriving on the main thread at this line of execute().
  signal.raise_signal(signal.SIGINT)


test_executor.TestExecutor.start = start


def p(test):
  pass


t = htf.Test(p)
try:
  print('R result', t.execute())
except KeyboardInterrupt:
  print('R KeyboardInterrupt propagated (no deadlock)')
