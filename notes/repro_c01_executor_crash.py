import openhtf as htf
class _D(htf.DiagResultEnum):
  X='x'
ran=[]
def p(test): ran.append('p')
def q(test): ran.append('q')
t = htf.Test(htf.BranchSequence(_D.X, p), q)   # malformed condition -> executor crash
recs=[]; t.add_output_callbacks(recs.append)
print('R K1:', t.execute(), recs[0].outcome, [x.code for x in recs[0].outcome_details], ran)
