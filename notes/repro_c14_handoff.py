import sys, types, threading, time, queue
for m in ('libusb1','usb1'):
    sys.modules[m]=types.ModuleType(m)
m2=types.ModuleType('M2Crypto'); m2.RSA=types.SimpleNamespace(); sys.modules['M2Crypto']=m2
from openhtf.plugs.usb import adb_protocol, adb_message, usb_exceptions
from openhtf.util import timeouts

class FakeConn:
  maxdata=4096
  def __init__(self):
    self.script=queue.Queue()
    self.sent=[]
    self.transport=self
  def write_message(self, msg, timeout): self.sent.append(msg)
  def read_for_stream(self, st, timeout):
    # blocks until device has something, up to timeout
    try:
      return self.script.get(True, timeout.remaining)
    except queue.Empty:
      raise usb_exceptions.AdbTimeoutError('read timed out')

conn=FakeConn()
st=adb_protocol.AdbStreamTransport(conn, 1, queue.Queue())
st.remote_id=7; st.closed_state=st.ClosedState.OPEN; st._expecting_okay=False

class SlowReleaseLock:
  def __init__(self): self._l=threading.Lock()
  def acquire(self,*a): return self._l.acquire(*a)
  def release(self):
    time.sleep(0.3)   # preemption between notify_all and reader_lock.release()
    self._l.release()
st._reader_lock=SlowReleaseLock()

res={}
def reader():
  t0=time.time()
  try: res['read']=st.read(1, timeouts.PolledTimeout.from_millis(3000))
  except Exception as e: res['read']=repr(e)
  res['read_t']=round(time.time()-t0,2)
def writer():
  t0=time.time()
  try: st.write('hello', timeouts.PolledTimeout.from_millis(3000)); res['write']='ok'
  except Exception as e: res['write']=repr(e)
  res['write_t']=round(time.time()-t0,2)
tr=threading.Thread(target=reader); tr.start(); time.sleep(0.1)   # reader elected, blocked in read_for_stream
tw=threading.Thread(target=writer); tw.start(); time.sleep(0.1)   # writer sent WRTE, waits on condition
conn.script.put(adb_message.AdbMessage('WRTE',7,1,'x'))          # data for reader -> reader handles, notifies, (slow) releases
time.sleep(0.15)
conn.script.put(adb_message.AdbMessage('OKAY',7,1,''))            # device acks the host WRTE promptly
tr.join(); tw.join()
print('R C14:', res)
