import openhtf as htf
ran=[]
def mk(n):
  def f(test): ran.append(n)
  f.__name__=n
  return f
def failsub(test):
  ran.append('failsub'); return htf.PhaseResult.FAIL_SUBTEST
inner = htf.PhaseGroup(setup=[mk('s1')], main=[mk('m1')], teardown=[mk('t1')])
outer = htf.PhaseGroup(main=[failsub], teardown=[inner, mk('t_outer')])
t = htf.Test(htf.Subtest('sub', outer), mk('after'))
recs=[]; t.add_output_callbacks(recs.append)
t.execute()
print('R C02:', ran, [(p.name,p.outcome.name) for p in recs[0].phases])
