import openhtf as htf
from openhtf.core import measurements, test_record
from openhtf.util import validators
import logging

# C01
calls=[]
@htf.PhaseOptions(run_if=lambda: False)
def p(test): calls.append(1)
t = htf.Test(p)
t.configure(stop_on_first_failure=True)
recs=[]
t.add_output_callbacks(recs.append)
r = t.execute()
print('C01 a: execute ->', r, recs[0].outcome, 'phases', len(recs[0].phases), 'calls', calls)

@htf.PhaseOptions(run_if=lambda: False, repeat_on_measurement_fail=True)
def p2(test): calls.append(2)
t = htf.Test(p2)
recs=[]
t.add_output_callbacks(recs.append)
r = t.execute()
print('C01 b: execute ->', r, recs[0].outcome, 'phases', len(recs[0].phases), 'calls', calls)

# group teardown skipped
td=[]
def tdp(test): td.append(1)
t = htf.Test(htf.PhaseGroup(main=[p], teardown=[tdp]))
t.configure(stop_on_first_failure=True)
recs=[]
t.add_output_callbacks(recs.append)
r = t.execute()
print('C03: execute ->', r, recs[0].outcome, 'teardown ran', td)
