import openhtf as htf, json, os, tempfile, threading, time
from openhtf.core import measurements, test_record, test_executor, test_descriptor
from openhtf.util import validators
from openhtf.output.callbacks import json_factory

calls=[]
@htf.PhaseOptions(run_if=lambda: False)
def p(test): calls.append('p')
def q(test): calls.append('q')
t = htf.Test(p, q); t.configure(stop_on_first_failure=True)
recs=[]; t.add_output_callbacks(recs.append)
r = t.execute()
print('R C01c:', r, recs[0].outcome, [ph.name for ph in recs[0].phases], calls)

# C06 stale marginal
m = measurements.Measurement('m').in_range(0, 10, marginal_minimum=1, marginal_maximum=9)
col = measurements.Collection({'m': m})
col['m'] = 9.5
print('R C06 first:', m.outcome, m.marginal)
col['m'] = 5
print('R C06 override in-range non-marginal:', m.outcome, m.marginal)
col['m'] = 50
print('R C06 override fail:', m.outcome, m.marginal)

# C10 dimensioned transform
@htf.measures(htf.Measurement('d').with_dimensions('x').with_transform(lambda v: v*100).dimension_pivot_validate(validators.in_range(0, 1000)))
def dp(test):
  test.measurements.d[1] = 5
cp = htf.PhaseFailureCheckpoint.all_previous('cp')
t = htf.Test(dp, cp)
recs=[]; t.add_output_callbacks(recs.append)
t.execute()
rec = recs[0]
bt = rec.as_base_types()
print('R C10 dim value in-memory:', rec.phases[0].measurements['d'].measured_value.value, 'cached:', bt['phases'][0]['measurements']['d']['measured_value'], bt['phases'][0]['measurements']['d']['outcome'])
print('R C10 checkpoints key present:', 'checkpoints' in bt, 'records:', len(rec.checkpoints))

# C10 PARTIALLY_SET stale
from openhtf.core import test_state
import logging
class FakeTS: 
  def notify_update(self): pass
  class diagnoses_manager: 
    class store:
      @staticmethod
      def has_diagnosis_result(r): return False
pd = htf.PhaseDescriptor.wrap_or_copy(dp)
ps = test_state.PhaseState.from_descriptor(pd, FakeTS(), logging.getLogger('x'))
col = measurements.Collection(ps.measurements)
col['d'][1] = 5
print('R C10 partial: in-memory', ps.measurements['d'].outcome, 'live view', ps.as_base_types()['measurements']['d']['outcome'])

# C17
d = tempfile.mkdtemp()
dest = os.path.join(d, 'out.json')
open(dest,'w').write('{"complete": "old"}')
class Bad(json_factory.OutputToJSON):
  def serialize_test_record(self, rec):
    yield '{"partial": '
    raise RuntimeError('boom')
try:
  Bad(dest)(rec)
except RuntimeError as e:
  print('R C17 raised', e)
print('R C17 dest content:', open(dest).read())

# C11
def f(test): pass
pd = htf.PhaseDescriptor.wrap_or_copy(f)
print('R C11 with_plugs identity:', pd.with_plugs(nope=htf.BasePlug) is pd)

# C04 abort before start
ran=[]
def ts(test): ran.append('test_start')
def main(test): ran.append('main')
t = htf.Test(main)
ex = test_executor.TestExecutor(t.descriptor, 'uid', htf.PhaseDescriptor.wrap_or_copy(ts), t._test_options, False)
ex.abort()
ran.append('abort returned')
ex.start(); ex.wait()
print('R C04:', ran, ex.test_state.test_record.outcome)
ex.close()
