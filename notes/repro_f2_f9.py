import functools
import openhtf as htf
from openhtf.util import configuration
ran=[]
def body(test, x): ran.append(x)
t = htf.Test(functools.partial(body, x=1))
recs=[]; t.add_output_callbacks(recs.append)
print('R F2:', t.execute(), recs[0].outcome, [p.name for p in recs[0].phases], ran)
configuration.CONF.load(capture_source=True)
def ts(test): test.test_record.dut_id='d'
tsd = htf.PhaseDescriptor.wrap_or_copy(ts)
before = tsd.code_info
t = htf.Test(lambda test: None)
print('R F9:', t.execute(test_start=tsd), tsd.code_info is before)
t = htf.Test(lambda test: None)
print('R F9 none:', t.execute())
