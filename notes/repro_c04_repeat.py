import openhtf as htf, threading, time, logging
from openhtf.core import test_executor
ran=[]
started = threading.Event()
@htf.PhaseOptions(force_repeat=True, repeat_limit=3)
def main(test):
  ran.append('main body start')
  started.set()
  time.sleep(5)
  ran.append('main body end')

class Slow(logging.Handler):
  def emit(self, record):
    # delay only the executor thread right after the killed phase's record is finalized
    if threading.current_thread().name == 'TestExecutorThread' and 'Phase outcome of' in record.getMessage():
      time.sleep(0.5)
logging.getLogger('openhtf').addHandler(Slow())

t = htf.Test(main)
recs=[]; t.add_output_callbacks(recs.append)
def aborter():
  started.wait(); time.sleep(0.2)
  started.clear()
  t.abort_from_sig_int()
  ran.append('abort returned')
th = threading.Thread(target=aborter); th.start()
r = t.execute()
th.join()
print('R C04 repeat:', ran, recs[0].outcome, [ (p.name, p.outcome.name) for p in recs[0].phases])
